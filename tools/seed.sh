#!/bin/sh
# tools/seed.sh <seed-id e.g. C07-a> <agent worktree | -> <check ids...>
# confirm a property-breaking change produced by a sub-agent in a FRESH scratch worktree of /repo HEAD,
# store it under /verif/seeded/<id>/, and run the given checks against it.
# With "-" as worktree the stored seeded/<id>/patch.diff and demo are re-confirmed and re-checked.
ID=$1; SRC=$2; shift 2
D=/verif/seeded/$ID; mkdir -p $D
if [ "$SRC" != "-" ]; then
  cp $SRC/_mutant/patch.diff $D/patch.diff
  for f in $SRC/_mutant/demo.py $SRC/_mutant/test_demo.py $SRC/_mutant/meta.json; do [ -f $f ] && cp $f $D/; done
fi
DEMO=$(ls $D/demo.py $D/test_demo.py 2>/dev/null | head -1)
WT=/tmp/seedwt-$ID
git -C /repo worktree remove --force $WT 2>/dev/null
git -C /repo worktree add --detach $WT HEAD -q || exit 2
mkdir -p $WT/_mutant && cp $DEMO $WT/_mutant/
run_demo() { (cd $WT && PATH=/venv/bin:$PATH PYTHONPATH=$WT/src timeout 300 /venv/bin/python $WT/_mutant/$(basename $DEMO) >$D/.demo.out 2>&1; echo $?); }
R0=$(run_demo); L0=$(tail -1 $D/.demo.out)
git -C $WT apply $D/patch.diff || { echo "patch does not apply"; git -C /repo worktree remove --force $WT; exit 2; }
R1=$(run_demo); L1=$(tail -1 $D/.demo.out)
rm -f $WT/src/radical/pilot/VERSION
BL=$(/verif/tools/mutkit/run_baseline.sh $WT | head -1)
echo "demo without change: exit $R0 | $L0" | cut -c1-300
echo "demo with change   : exit $R1 | $L1" | cut -c1-300
echo "baseline with change: $BL"
rm -rf $D/.demo.out $WT/_mutant
CHK="{}"
for C in "$@"; do
  OUT=$(cd /verif && RPVERIF_REPO=$WT RPVERIF_NO_EVIDENCE=1 ./check $C 2>&1 | grep "mechanism=\|^OK\|^FAIL\|^INCONC" | head -5)
  echo "check $C: $OUT" | cut -c1-700
  echo "$OUT" | cut -c1-600 > $D/check_$C.txt
done
echo "{\"demo_without_change_exit\": $R0, \"demo_with_change_exit\": $R1, \"baseline_with_change\": \"$BL\"}" > $D/confirmed.json
git -C /repo worktree remove --force $WT
/venv/bin/python /verif/tools/seedmeta.py $ID
