#!/bin/sh
# tools/seed.sh <seed-id e.g. C07-a> <agent worktree> <check ids...>
# confirm a property-breaking change produced by a sub-agent in a FRESH scratch worktree of /repo HEAD,
# store it under /verif/seeded/<id>/, and run the given checks against it.
ID=$1; SRC=$2; shift 2
D=/verif/seeded/$ID; mkdir -p $D
cp $SRC/_mutant/patch.diff $D/patch.diff
for f in $SRC/_mutant/demo.py $SRC/_mutant/test_demo.py $SRC/_mutant/meta.json; do [ -f $f ] && cp $f $D/; done
DEMO=$(ls $D/demo.py $D/test_demo.py 2>/dev/null | head -1)
WT=/tmp/seedwt-$ID
git -C /repo worktree remove --force $WT 2>/dev/null
git -C /repo worktree add --detach $WT HEAD -q || exit 2
cp $WT/VERSION $WT/src/radical/pilot/VERSION
mkdir -p $WT/_mutant && cp $DEMO $WT/_mutant/
run_demo() { (cd $WT && PYTHONPATH=$WT/src timeout 300 /venv/bin/python $WT/_mutant/$(basename $DEMO) >$D/.demo.out 2>&1; echo $?); }
R0=$(run_demo); L0=$(tail -1 $D/.demo.out)
git -C $WT apply $D/patch.diff || { echo "patch does not apply"; exit 2; }
R1=$(run_demo); L1=$(tail -1 $D/.demo.out)
rm -f $WT/src/radical/pilot/VERSION
BL=$(/tmp/mutkit/run_baseline.sh $WT | head -1)
echo "demo without change: exit $R0 | $L0"
echo "demo with change   : exit $R1 | $L1"
echo "baseline with change: $BL"
rm -rf $WT/src/radical/pilot/VERSION $D/.demo.out $WT/_mutant
for C in "$@"; do
  OUT=$(cd /verif && RPVERIF_REPO=$WT ./check $C 2>&1 | grep "mechanism=\|^OK\|^FAIL\|^INCONC" | head -4)
  echo "check $C: $OUT" | cut -c1-700
  echo "$OUT" > $D/check_$C.txt
done
echo "{\"demo_without_change_exit\": $R0, \"demo_with_change_exit\": $R1, \"baseline_with_change\": \"$BL\"}" > $D/confirmed.json
git -C /repo worktree remove --force $WT
