#!/bin/sh
# run the repository's pinned baseline with the hook guard OFF and compare with /root/.vp/BASELINE.json
unset RADICAL_PILOT_VERIF
OUT=$(mktemp -d)
cd /repo && /venv/bin/python -m pytest -ra -q -p no:cacheprovider --timeout=900 --continue-on-collection-errors --junitxml=$OUT/j.xml >$OUT/log 2>&1
/venv/bin/python - "$OUT/j.xml" <<'PY'
import sys, json
import xml.etree.ElementTree as ET
base = json.load(open('/root/.vp/BASELINE.json'))['stable_pass']
passed = set()
for tc in ET.parse(sys.argv[1]).getroot().iter('testcase'):
    if not any(c.tag in ('failure', 'error', 'skipped') for c in tc):
        passed.add('%s::%s' % (tc.get('classname'), tc.get('name')))
missing = [b for b in base if b not in passed]
print('baseline: %d/%d stable tests pass' % (len(base) - len(missing), len(base)))
for m in missing: print('  MISSING', m)
sys.exit(1 if missing else 0)
PY
RC=$?
rm -f /repo/rm_info.json   # left behind by a test of the suite
rm -rf "$OUT"
exit $RC
