#!/opt/veriftools/pyvenv/bin/python
import json, sys, glob, os, jsonschema
H = os.path.dirname(os.path.dirname(os.path.abspath(__file__)))
jsonschema.validate(json.load(open(H + '/MANIFEST.json')), json.load(open('/root/.vp/MANIFEST.schema.json')))
es = json.load(open('/root/.vp/EVIDENCE.schema.json'))
for f in sorted(glob.glob(H + '/evidence/*.json')):
    jsonschema.validate(json.load(open(f)), es)
    print('valid', os.path.basename(f))
print('manifest valid')
