#!/venv/bin/python
'''regenerate the table of seeded changes (DESIGN.md section 7.4) from seeded/*/meta.json'''
import os, re, json, glob
H = os.path.dirname(os.path.dirname(os.path.abspath(__file__)))
rows = ['| change | breaks | what it is (short) | needs | caught by (mechanisms) | note |',
        '|---|---|---|---|---|---|']
for d in sorted(glob.glob(H + '/seeded/*/')):
    sid = os.path.basename(d.rstrip('/'))
    m = json.load(open(d + 'meta.json'))
    def short(t, n):
        t = re.sub(r'\s+', ' ', str(t or '')).replace('|', '/')
        return t if len(t) <= n else t[:n - 1].rsplit(' ', 1)[0] + ' ...'
    caught = []
    for cid, r in sorted((m.get('checks_run') or {}).items()):
        if r.get('verdict') == 'FAIL':
            caught.append('%s (%s)' % (cid, ', '.join(r.get('mechanisms', [])[:3])))
        else:
            caught.append('%s: %s' % (cid, r.get('verdict')))
    note = short(m.get('history'), 220) if m.get('history') else ''
    rows.append('| %s | %s | %s | %s | %s | %s |' % (sid, m.get('property', sid[:3]), short(m.get('summary'), 200),
                short(m.get('needs'), 160), '; '.join(caught).replace('|', '/'), note))
block = '<!-- seeded-table:begin -->\n' + '\n'.join(rows) + '\n<!-- seeded-table:end -->'
p = H + '/DESIGN.md'
s = open(p).read()
if '<!-- seeded-table:begin -->' in s:
    s = re.sub(r'<!-- seeded-table:begin -->.*?<!-- seeded-table:end -->', lambda _: block, s, flags=re.S)
else:
    s += '\n' + block + '\n'
open(p, 'w').write(s)
print(len(rows) - 2, 'seeded changes in table')
