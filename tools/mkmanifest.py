#!/venv/bin/python
'''regenerate /verif/MANIFEST.json from the property modules present'''
import os, sys, json, importlib
HERE = os.path.dirname(os.path.dirname(os.path.abspath(__file__)))
sys.path.insert(0, HERE)
os.environ.setdefault('RPVERIF_QUIET', '1')

props = [json.loads(l) for l in open(os.path.join(HERE, 'properties.jsonl'))]
READY = set(open(os.path.join(HERE, 'tools', 'ready.txt')).read().split())
checks, na = [], []
for p in props:
    pid = p['id']
    path = os.path.join(HERE, 'rpverif', 'props', pid.lower() + '.py')
    if not os.path.isfile(path) or pid not in READY:
        na.append({'property_id': pid, 'reason': 'check not built yet (work in progress; the design in DESIGN.md section 3 applies)'})
        continue
    src = open(path).read()
    meta = {}
    # read the MANIFEST dict literal from the module without importing the repo
    import ast
    tree = ast.parse(src)
    for node in tree.body:
        if isinstance(node, ast.Assign) and len(node.targets) == 1 and \
           getattr(node.targets[0], 'id', None) in ('ID', 'LEVEL', 'MANIFEST'):
            meta[node.targets[0].id] = ast.literal_eval(node.value)
    m = meta.get('MANIFEST', {})
    checks.append({
        'property_id'        : pid,
        'quick_cmd'          : './check %s --tier quick' % pid,
        'thorough_cmd'       : './check %s --tier thorough' % pid,
        'evidence_file'      : 'evidence/%s.json' % pid,
        'replay_cmd_template': './check %s --replay {path}' % pid,
        'engine'             : 'rpverif',
        'level_claimed'      : {'category'  : meta['LEVEL'],
                                'text'      : m.get('text', ''),
                                'design_ref': 'DESIGN.md section 3, %s' % pid},
        'level_note'         : m.get('note', ''),
        'technique'          : m.get('technique', 'runtime monitoring'),
    })

man = {
 'version'  : 1,
 'setup_cmd': './setup.sh',
 'hooks'    : {'guard'           : 'RADICAL_PILOT_VERIF',
               'enable'          : 'checks export RADICAL_PILOT_VERIF=1 and import /repo/src in fresh interpreters; no source hooks exist (all observation points are reached by instance wrapping, the in-memory transport seam and sys.monitoring)',
               'baseline_off_cmd': 'tools/baseline.sh',
               'source_commits'  : [],
               'add_only'        : True},
 'engines'  : [{'name': 'rpverif', 'path': 'rpverif/',
                'serves_properties': [c['property_id'] for c in checks],
                'kind_free_text': 'runtime monitoring: real radical.pilot classes run under generated/hostile workloads over an in-memory transport; boundary recorders, ledgers, reference models and contracts decide; sharded over fresh interpreters'}],
 'checks'   : checks,
 'not_applicable': na,
 'notes'    : 'exit 0 held on everything observed; exit 1 + VIOLATION line; exit 2 INCONCLUSIVE (monitor not reached / watchdog). Known findings: known_findings.json.',
}
json.dump(man, open(os.path.join(HERE, 'MANIFEST.json'), 'w'), indent=1)
print('checks:', [c['property_id'] for c in checks], 'n/a:', len(na))
