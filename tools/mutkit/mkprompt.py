#!/usr/bin/env python3
"""mkprompt.py <PROP-ID> <worktree> [focus text]

Compose the instructions for one seeded-change sub-agent: the brief, the
worktree path, the property (text from properties.jsonl only), the ideas that
already exist for that property (so it produces a different one) and an
optional focus (one of the property's own anchor mechanisms).  Nothing about
the checks in /verif goes in.
"""
import sys, json, os, glob

here = os.path.dirname(os.path.abspath(__file__))
verif = os.path.abspath(os.path.join(here, '..', '..'))
pid, wt = sys.argv[1], sys.argv[2]
focus = sys.argv[3] if len(sys.argv) > 3 else ''

prop = None
for line in open(os.path.join(verif, 'properties.jsonl')):
    d = json.loads(line)
    if d['id'] == pid:
        prop = d
assert prop, pid

known = []
for m in sorted(glob.glob(os.path.join(verif, 'seeded', pid + '-*', 'meta.json'))):
    try:
        known.append(json.load(open(m))['summary'][:400])
    except Exception:
        pass

out = open(os.path.join(here, 'BRIEF.md')).read()
out += '\n\n## Your worktree\n\n`%s` (a git worktree; `/tmp/mutkit/run_baseline.sh %s` runs the pinned tests)\n' % (wt, wt)
out += '\n## The property (id %s)\n\n' % pid
out += '**%s**\n\n%s\n\nQuantified: %s\n\nWhy the tests cannot settle it: %s\n\nAnchors (where it lives in the code):\n```json\n%s\n```\n' % (
    prop['title'], prop['statement'], prop['quantifier']['text'],
    prop['why_tests_cant'], json.dumps(prop['anchors'], indent=1))
if focus:
    out += '\n## Where to put the change\n\nPlace your change in (or around) this part of the anchored code, and break the part of the property that depends on it: **%s**\n' % focus
if known:
    out += '\n## Already-known ideas (do NOT reuse; make yours different in mechanism and location)\n\n'
    for k in known:
        out += '* %s ...\n' % k
print(out)
