#!/bin/sh
# run_baseline.sh <worktree>: run the pinned 95-test baseline of radical.pilot against the code in <worktree>
WT=${1:-.}
OUT=$(mktemp -d)
cd "$WT" || exit 2
PYTHONPATH="$WT/src" PATH="/venv/bin:$PATH" /venv/bin/python -m pytest -ra -q -p no:cacheprovider --timeout=900 --continue-on-collection-errors --junitxml=$OUT/j.xml >$OUT/log 2>&1
/venv/bin/python - "$OUT/j.xml" <<'PY'
import sys, json
import xml.etree.ElementTree as ET
base = json.load(open('/root/.vp/BASELINE.json'))['stable_pass']
passed = set()
for tc in ET.parse(sys.argv[1]).getroot().iter('testcase'):
    if not any(c.tag in ('failure', 'error', 'skipped') for c in tc):
        passed.add('%s::%s' % (tc.get('classname'), tc.get('name')))
missing = [b for b in base if b not in passed]
print('baseline: %d/%d pinned tests pass' % (len(base) - len(missing), len(base)))
for m in missing: print('  MISSING', m)
sys.exit(1 if missing else 0)
PY
RC=$?
rm -rf "$OUT" "$WT/rm_info.json" "$WT/foo.log"
exit $RC
