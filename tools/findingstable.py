#!/venv/bin/python
'''regenerate the fixed / known-finding lists in DESIGN.md (section 7.3) from known_findings.json'''
import os, re, json
H = os.path.dirname(os.path.dirname(os.path.abspath(__file__)))
k = json.load(open(H + '/known_findings.json'))
out = ['Repaired by `fix:` commits in /repo (`fixed` entries of known_findings.json; they suppress nothing):', '']
for f in k['fixed']:
    line = re.sub(r'^fixed: property=\S+ \S+ ', '', f['line'])
    out.append('* **%s** `%s` [%s] - %s' % (f['property'], f['commit'], f['mechanism'], line))
out += ['', 'Recorded as known findings (`findings` entries; matched by mechanism, printed as KNOWN-FINDING):', '']
for f in k['findings']:
    out.append('* **%s** [%s] - %s' % (f['property'], f['mechanism'], f['what']))
block = '<!-- findings:begin -->\n' + '\n'.join(out) + '\n<!-- findings:end -->'
p = H + '/DESIGN.md'
s = open(p).read()
if '<!-- findings:begin -->' in s:
    s = re.sub(r'<!-- findings:begin -->.*?<!-- findings:end -->', lambda _: block, s, flags=re.S)
else:
    raise SystemExit('marker missing')
open(p, 'w').write(s)
print(len(k['fixed']), 'fixed,', len(k['findings']), 'findings')
