#!/usr/bin/env python3
'''tools/regress.py [-j N] [ID-prefix ...]

Re-run, for every change kept under seeded/, the checks recorded as catching
it (checks_run verdict FAIL) against a fresh scratch worktree of /repo HEAD with
the change applied, and report every change which is no longer caught by a
check that caught it before.  Nothing is written under seeded/; /repo is not
touched (worktrees live under /tmp and are removed).
'''
import os, sys, json, glob, subprocess, re
from concurrent.futures import ThreadPoolExecutor

V = os.path.dirname(os.path.dirname(os.path.abspath(__file__)))
args = sys.argv[1:]
jobs = 3
if args[:1] == ['-j']:
    jobs = int(args[1]); args = args[2:]


def one(sid):
    d = os.path.join(V, 'seeded', sid)
    meta = json.load(open(d + '/meta.json'))
    if meta.get('obsolete'):
        return sid, 'obsolete', {}
    want = [c for c, r in (meta.get('checks_run') or {}).items()
            if r['verdict'] == 'FAIL']
    wt = '/tmp/regwt-%s' % sid
    subprocess.run(['git', '-C', '/repo', 'worktree', 'remove', '--force', wt],
                   capture_output=True)
    r = subprocess.run(['git', '-C', '/repo', 'worktree', 'add', '--detach',
                        wt, 'HEAD', '-q'], capture_output=True, text=True)
    if r.returncode:
        return sid, 'worktree failed: ' + r.stderr[:200], {}
    out = dict()
    try:
        r = subprocess.run(['git', '-C', wt, 'apply', d + '/patch.diff'],
                           capture_output=True, text=True)
        if r.returncode:
            return sid, 'patch does not apply', {}
        try: os.unlink(wt + '/src/radical/pilot/VERSION')
        except OSError: pass
        for c in want:
            env = dict(os.environ, RPVERIF_REPO=wt, RPVERIF_NO_EVIDENCE='1')
            r = subprocess.run(['./check', c], cwd=V, env=env,
                               capture_output=True, text=True)
            txt = r.stdout + r.stderr
            last = [l for l in txt.splitlines()
                    if re.match(r'^(OK|FAIL|INCONCLUSIVE) ', l)]
            out[c] = (last[-1].split()[0] if last else 'rc=%d' % r.returncode)
    finally:
        subprocess.run(['git', '-C', '/repo', 'worktree', 'remove', '--force',
                        wt], capture_output=True)
    lost = [c for c in want if out.get(c) != 'FAIL']
    return sid, ('LOST ' + ','.join(lost)) if lost else 'ok', out


ids = sorted(os.path.basename(os.path.dirname(p))
             for p in glob.glob(V + '/seeded/*/meta.json'))
if args:
    ids = [i for i in ids if any(i.startswith(a) for a in args)]
bad = 0
with ThreadPoolExecutor(jobs) as ex:
    for sid, verdict, out in ex.map(one, ids):
        print(sid, verdict, out, flush=True)
        bad += verdict.startswith('LOST') or verdict.startswith('patch')
print('changes: %d, no longer caught / not applicable: %d' % (len(ids), bad))
sys.exit(1 if bad else 0)
