#!/bin/sh
# run upstream unit tests that do not collect in this sandbox (missing VERSION file) by creating the
# git-ignored VERSION file temporarily; used only to vet fix: commits, never by a registered check
cd /repo || exit 2
cp VERSION src/radical/pilot/VERSION
PATH=/venv/bin:/repo/bin:$PATH /venv/bin/python -m pytest -q -p no:cacheprovider "$@" 2>&1 | tail -${TAIL:-15}
rm -f src/radical/pilot/VERSION foo.log
