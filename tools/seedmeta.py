#!/venv/bin/python
'''fold confirmed.json and check_*.txt of a seeded change into its meta.json'''
import sys, os, re, json, glob
D = '/verif/seeded/%s' % sys.argv[1]
mp = D + '/meta.json'
meta = json.load(open(mp)) if os.path.isfile(mp) else {}
if os.path.isfile(D + '/confirmed.json'):
    meta['confirmed_by_main'] = json.load(open(D + '/confirmed.json'))
runs = meta.get('checks_run') or {}
for f in sorted(glob.glob(D + '/check_*.txt')):
    cid = os.path.basename(f)[6:-4]
    txt = open(f).read()
    verdict = 'FAIL' if re.search(r'^FAIL', txt, re.M) or 'mechanism=' in txt else \
              'OK' if re.search(r'^OK', txt, re.M) else 'INCONCLUSIVE'
    runs[cid] = {'verdict': verdict,
                 'mechanisms': sorted(set(re.findall(r'mechanism=([^:\s]+)', txt)))}
meta['checks_run'] = runs
meta['what_was_run'] = ('tools/seed.sh: fresh scratch worktree of /repo HEAD, demo before/after applying '
                        'patch.diff, pinned baseline with the patch, then ./check with RPVERIF_REPO pointing '
                        'at the patched worktree (quick tier, seed 0)')
json.dump(meta, open(mp, 'w'), indent=1)
print('meta:', {k: v['verdict'] for k, v in runs.items()})
