'''
In-memory stand-ins for the five `radical.utils.zmq` classes all RP components
talk through (Putter, Getter, Publisher, Subscriber, RegistryClient).

Fidelity rules (so monitors check the system, not the shim):
  * every message passes through radical.utils' msgpack (de)serialisation, so
    receivers get private copies and a non-serialisable payload fails exactly
    like on the wire;
  * queues are FIFO per (url, qname); a pubsub url has one total order which
    every subscriber sees; all callbacks of one Subscriber instance get the
    *same* message object in registration order, under the lock they passed;
  * exceptions in subscriber callbacks are swallowed (and recorded), as the
    real listener thread does.

Two delivery modes: 'pumped' (nothing is delivered until the driver calls
`net.pump()/drain()`; the next (subscriber, message) pair is chosen by the
seeded rng) and 'threaded' (one delivery thread per Subscriber, as in
production).  Every put/publish/get/deliver is appended to `net.log`.
'''

import copy
import time
import random
import threading as mt
import traceback
import collections

import radical.utils           as ru
import radical.utils.serialize as rus

_NET = None


def current():
    return _NET


# ------------------------------------------------------------------------------
#
def _wire(data):
    '''what the receiver would see'''
    return ru.as_string(rus.from_msgpack(rus.to_msgpack(data)))


class Net(object):

    def __init__(self, seed=0, mode='pumped', bulk_size=1024,
                 random_bulk=False):

        self.mode        = mode
        self.rng         = random.Random(seed)
        self.bulk_size   = bulk_size
        self.random_bulk = random_bulk
        self.lock        = mt.RLock()
        self.cond        = mt.Condition(self.lock)
        self.seq         = 0
        self.log         = list()
        self.queues      = dict()     # url -> {qname: deque}
        self.subs        = dict()     # url -> [Subscriber]
        self.regs        = dict()     # url -> nested dict
        self.errors      = list()     # swallowed callback errors
        self.taps        = list()     # fn(event_dict)
        self.closed      = False
        self.threads     = list()

    # -- event log -------------------------------------------------------------
    def _event(self, kind, url, key, payload, who=None):
        with self.lock:
            self.seq += 1
            ev = {'seq': self.seq, 'kind': kind, 'url': url, 'key': key,
                  'payload': payload, 'who': who,
                  'thread': mt.current_thread().name}
            self.log.append(ev)
        for tap in self.taps:
            tap(ev)
        return ev

    def events(self, kind=None, chan=None):
        with self.lock:
            evs = list(self.log)
        return [e for e in evs
                if (kind is None or e['kind'] == kind) and
                   (chan is None or e['url'].endswith('/' + chan))]

    # -- registry helper -------------------------------------------------------
    def registry(self, url='mem://reg'):
        return self.regs.setdefault(url, dict())

    # -- queue side ------------------------------------------------------------
    def q_put(self, url, qname, msgs, who=None):
        data = _wire(msgs)
        with self.cond:
            q = self.queues.setdefault(url, dict()).setdefault(
                                               qname, collections.deque())
            q.extend(data)
            self._event('put', url, qname, copy.deepcopy(data), who)
            self.cond.notify_all()

    def q_len(self, url=None, qname=None):
        with self.lock:
            n = 0
            for u, qs in self.queues.items():
                if url and u != url: continue
                for qn, q in qs.items():
                    if qname and qn != qname: continue
                    n += len(q)
            return n

    def q_get(self, url, qname, timeout_ms=None, block=False, who=None):
        deadline = None
        if timeout_ms:
            deadline = time.time() + timeout_ms / 1000.0
        with self.cond:
            while True:
                q = self.queues.get(url, {}).get(qname)
                if q:
                    n = self.bulk_size
                    if self.random_bulk:
                        n = self.rng.randint(1, max(1, min(len(q), n)))
                    out = [q.popleft() for _ in range(min(n, len(q)))]
                    self._event('get', url, qname, copy.deepcopy(out), who)
                    return out
                if self.closed:
                    return None
                if self.mode == 'pumped' and not block:
                    return None
                if block:
                    self.cond.wait(0.05)
                    continue
                if deadline is None:
                    return None
                rem = deadline - time.time()
                if rem <= 0:
                    return None
                self.cond.wait(rem)

    # -- pubsub side -----------------------------------------------------------
    def publish(self, url, topic, msg, who=None):
        bmsg = rus.to_msgpack(msg)          # raises like the wire would
        with self.cond:
            if isinstance(msg, (list, tuple)) and not msg:
                # periodic empty publication (Popen watcher): not activity
                self._rpverif_idle_marks = \
                        getattr(self, '_rpverif_idle_marks', 0) + 1
            self._event('pub', url, topic,
                        ru.as_string(rus.from_msgpack(bmsg)), who)
            for sub in list(self.subs.get(url, [])):
                if sub._matches(topic):
                    sub._inbox.append((topic,
                                       ru.as_string(rus.from_msgpack(bmsg))))
            self.cond.notify_all()

    def pending(self):
        with self.lock:
            return [s for subs in self.subs.values() for s in subs
                      if s._inbox and s._callbacks]

    def pump(self, pick=None):
        '''deliver one message to one subscriber; False if nothing to do'''
        with self.lock:
            cands = self.pending()
            if not cands:
                return False
            sub = pick(cands) if pick else self.rng.choice(cands)
            topic, msg = sub._inbox.popleft()
        sub._deliver(topic, msg)
        return True

    def drain(self, limit=100000):
        n = 0
        while self.pump():
            n += 1
            if n > limit:
                raise RuntimeError('pubsub traffic does not settle')
        return n

    def quiet(self):
        with self.lock:
            return not self.pending()

    def settled(self):
        '''threaded mode: no publication waits for delivery and no subscriber
        callback is running'''
        with self.lock:
            return not self.pending() and \
                   not getattr(self, '_rpverif_in_delivery', 0)

    def close(self):
        with self.cond:
            self.closed = True
            self.cond.notify_all()
        for t in self.threads:
            t.join(timeout=2)


# ------------------------------------------------------------------------------
#
class Putter(object):

    def __init__(self, channel, url=None, log=None, prof=None, path=None):
        self._channel = channel
        self._url     = ru.as_string(url)
        self._net     = _NET
        self._uid     = '%s.put' % channel
        if not self._url:
            raise ValueError('no contact url specified, no config found')

    def __str__(self):
        return 'Putter(%s @ %s)' % (self._channel, self._url)

    @property
    def name(self): return self._uid
    @property
    def uid(self): return self._uid
    @property
    def channel(self): return self._channel

    def put(self, msgs, qname=None):
        msgs = ru.as_list(msgs)
        if not qname:
            qname = 'default'
        self._net.q_put(self._url, qname, msgs, who=self._uid)


# ------------------------------------------------------------------------------
#
class Getter(object):

    def __init__(self, channel, url=None, cb=None, log=None, prof=None,
                 path=None):
        self._channel = channel
        self._url     = ru.as_string(url)
        self._net     = _NET
        self._uid     = '%s.get' % channel
        self._term    = mt.Event()
        self._thread  = None
        self._cbs     = list()
        self._interactive = True
        if not self._url:
            raise ValueError('no contact url specified, no config found')
        if cb:
            self.subscribe(cb)

    def __str__(self):
        return 'Getter(%s @ %s)' % (self._channel, self._url)

    @property
    def name(self): return self._uid
    @property
    def uid(self): return self._uid
    @property
    def channel(self): return self._channel

    def get(self, qname=None):
        if not self._interactive:
            raise RuntimeError('invalid get(): callbacks are registered')
        return self._net.q_get(self._url, qname or 'default', block=True,
                               who=self._uid)

    def get_nowait(self, qname=None, timeout=None):
        if not self._interactive:
            raise RuntimeError('invalid get(): callbacks are registered')
        if timeout is None and isinstance(qname, int):
            timeout, qname = qname, None
        return self._net.q_get(self._url, qname or 'default',
                               timeout_ms=timeout, who=self._uid)

    def subscribe(self, cb, lock=None):
        if self._cbs:
            raise RuntimeError('multiple callbacks not supported')
        self._cbs.append([cb, lock])
        self._interactive = False
        if self._net.mode == 'threaded':
            self._thread = mt.Thread(target=self._listen, daemon=True)
            self._net.threads.append(self._thread)
            self._thread.start()

    def _listen(self):
        while not self._term.is_set() and not self._net.closed:
            msgs = self._net.q_get(self._url, 'default', timeout_ms=50,
                                   who=self._uid)
            if msgs:
                self.feed(msgs)

    def feed(self, msgs):
        for cb, lock in list(self._cbs):
            try:
                if lock:
                    with lock:
                        cb(msgs)
                else:
                    cb(msgs)
            except Exception as e:
                self._net.errors.append(('getter', self._uid, repr(e),
                                         traceback.format_exc()))

    def pump(self, qname=None):
        '''pumped mode: hand one bulk to the registered callback'''
        msgs = self._net.q_get(self._url, qname or 'default', who=self._uid)
        if msgs:
            self.feed(msgs)
            return True
        return False

    def unsubscribe(self, cb):
        self._cbs = [c for c in self._cbs if c[0] != cb]

    def stop(self):
        self._term.set()


# ------------------------------------------------------------------------------
#
class Publisher(object):

    def __init__(self, channel, url=None, log=None, prof=None, path=None):
        self._channel = channel
        self._url     = ru.as_string(url)
        self._net     = _NET
        self._uid     = '%s.pub' % channel

    @property
    def name(self): return self._uid
    @property
    def uid(self): return self._uid
    @property
    def url(self): return self._url
    @property
    def channel(self): return self._channel

    def put(self, topic, msg):
        assert isinstance(topic, str), 'invalid topic type'
        self._net.publish(self._url, topic.replace(' ', '_'), msg,
                          who=self._uid)


# ------------------------------------------------------------------------------
#
class Subscriber(object):

    _count = 0

    def __init__(self, channel, url=None, topic=None, cb=None, log=None,
                 prof=None, path=None):
        Subscriber._count += 1
        self._channel   = channel
        self._url       = ru.as_string(url)
        self._net       = _NET
        self._uid       = '%s.sub.%04d' % (channel, Subscriber._count)
        self._topics    = list()
        self._callbacks = list()
        self._inbox     = collections.deque()
        self._term      = mt.Event()
        self._thread    = None
        self._interactive = True
        if not self._url:
            raise ValueError('no contact url specified, no config found')
        with self._net.lock:
            self._net.subs.setdefault(self._url, list()).append(self)
        for t in ru.as_list(topic):
            self.subscribe(t, cb)

    @property
    def name(self): return self._uid
    @property
    def uid(self): return self._uid
    @property
    def url(self): return self._url
    @property
    def channel(self): return self._channel

    def _matches(self, topic):
        return any(topic.startswith(t) for t in self._topics)

    def subscribe(self, topic, cb=None, lock=None):
        if cb:
            self._interactive = False
            self._callbacks.append([cb, lock])
            if self._net.mode == 'threaded' and not self._thread:
                self._thread = mt.Thread(target=self._listen, daemon=True,
                                         name=self._uid)
                self._net.threads.append(self._thread)
                self._thread.start()
        topic = str(topic).replace(' ', '_')
        if topic not in self._topics:
            self._topics.append(topic)

    def _listen(self):
        net = self._net
        while not self._term.is_set() and not net.closed:
            with net.cond:
                if not self._inbox:
                    net.cond.wait(0.05)
                    continue
                topic, msg = self._inbox.popleft()
                net._rpverif_in_delivery = \
                        getattr(net, '_rpverif_in_delivery', 0) + 1
            try:
                self._deliver(topic, msg)
            finally:
                with net.lock:
                    net._rpverif_in_delivery -= 1

    def _deliver(self, topic, msg):
        if isinstance(msg, (list, tuple)) and not msg:
            # delivery of a periodic empty publication: not activity either
            with self._net.lock:
                self._net._rpverif_idle_marks = \
                        getattr(self._net, '_rpverif_idle_marks', 0) + 1
        self._net._event('deliver', self._url, topic, None, who=self._uid)
        for cb, lock in list(self._callbacks):
            try:
                if lock:
                    with lock:
                        cb(topic, msg)
                else:
                    cb(topic, msg)
            except SystemExit:
                self._term.set()
                break
            except Exception as e:
                self._net.errors.append(('subscriber', self._uid, repr(e),
                                         traceback.format_exc()))

    def unsubscribe(self, cb):
        self._callbacks = [c for c in self._callbacks if c[0] != cb]

    def stop(self):
        self._term.set()
        with self._net.lock:
            subs = self._net.subs.get(self._url, [])
            if self in subs:
                subs.remove(self)

    def get(self):
        raise RuntimeError('interactive subscriber get() not supported')

    def get_nowait(self, timeout=None):
        with self._net.lock:
            if self._inbox:
                return list(self._inbox.popleft())
        return [None, None]


# ------------------------------------------------------------------------------
#
class RegistryClient(object):

    def __init__(self, url=None, pwd=None):
        self._url  = url
        self._pwd  = pwd
        self._net  = _NET
        self._data = self._net.registry(url or 'mem://reg')

    def _key(self, key):
        if self._pwd:
            key = self._pwd + '.' + key
        return key

    def get(self, key, default=None):
        this  = self._data
        elems = self._key(key).split('.')
        with self._net.lock:
            for elem in elems[:-1]:
                this = this.get(elem)
                if not isinstance(this, dict):
                    return default
            val = this.get(elems[-1])
            if val is None:
                return default
            return _wire(val)

    def put(self, key, val):
        this  = self._data
        elems = self._key(key).split('.')
        val   = _wire(val)
        with self._net.lock:
            for elem in elems[:-1]:
                if not isinstance(this.get(elem), dict):
                    this[elem] = dict()
                this = this[elem]
            this[elems[-1]] = val

    def __getitem__(self, key):
        return self.get(key)

    def __setitem__(self, key, val):
        return self.put(key, val)

    def __delitem__(self, key):
        this  = self._data
        elems = self._key(key).split('.')
        with self._net.lock:
            for elem in elems[:-1]:
                this = this.get(elem, {})
            this.pop(elems[-1], None)

    def __contains__(self, key):
        return self.get(key) is not None

    def keys(self):
        this = self._data
        with self._net.lock:
            if self._pwd:
                for elem in self._pwd.split('.'):
                    this = this.get(elem, {})
            return list(this.keys())

    def dump(self, name=None):
        return None

    def close(self):
        pass


# ------------------------------------------------------------------------------
#
_saved = dict()


def install(net):
    '''replace the five ru.zmq attributes; returns the net'''
    global _NET
    _NET = net
    import radical.utils.zmq as ruz
    for name, cls in (('Putter', Putter), ('Getter', Getter),
                      ('Publisher', Publisher), ('Subscriber', Subscriber),
                      ('RegistryClient', RegistryClient)):
        if name not in _saved:
            _saved[name] = getattr(ruz, name)
        setattr(ruz, name, cls)
    return net


def uninstall():
    global _NET
    import radical.utils.zmq as ruz
    for name, cls in _saved.items():
        setattr(ruz, name, cls)
    _NET = None
    # radical.pilot keeps every component of the process in a module level
    # list (for its at-fork hook; a pilot process has a handful).  A shard
    # builds tens of thousands of them: without this the finished histories
    # (components, sessions, transport logs) stay reachable forever and a
    # thorough shard grows to several GB.
    try:
        import radical.pilot.utils.component as m_comp
        del m_comp._components[:]
    except Exception:
        pass
