'''
Agent-side environment over the in-memory transport: stub session, registry
pre-filled with bridge addresses, real ResourceManager (Fork/Debug "from
scratch" with fake resources, so blocked cores / agent nodes are produced by the
repository's own code), real launch methods, real scheduler / executor
components.

The agent scheduler forks a child process for the scheduling loop.  That fork is
emulated faithfully with two objects (parent: intake `work_cb()`/`work()`;
child: the real `_schedule_tasks()` loop in a thread) which share only what a
fork shares (`_queue_sched`, `_queue_unsched`, `_term`), so parent and child
have separate cancel lists, wait pools and node maps, as in production.

In *gated* mode the three steps of the real loop body are wrapped on the child
instance with a turnstile: the loop (including its `resources` flag logic) runs
unchanged, but every step waits for the driver, which injects arrivals,
completions and cancels at step boundaries.
'''

import os
import copy
import queue
import threading as mt

from .harness import rp, ru, rps, rpc, NullLog, NullProf
from .        import memzmq
from .        import boot

import radical.pilot.agent.scheduler.base        as m_sbase     # noqa
import radical.pilot.agent.resource_manager.base as m_rmbase    # noqa
import radical.pilot.utils.component             as m_comp      # noqa

QUEUES  = [rpc.AGENT_STAGING_INPUT_QUEUE, rpc.AGENT_SCHEDULING_QUEUE,
           rpc.AGENT_EXECUTING_QUEUE, rpc.AGENT_STAGING_OUTPUT_QUEUE,
           rpc.AGENT_COLLECTING_QUEUE, rpc.PROXY_TASK_QUEUE,
           rpc.RAPTOR_SCHEDULING_QUEUE,
           rpc.TMGR_SCHEDULING_QUEUE, rpc.TMGR_STAGING_INPUT_QUEUE,
           rpc.TMGR_STAGING_OUTPUT_QUEUE]
PUBSUBS = [rpc.CONTROL_PUBSUB, rpc.STATE_PUBSUB, rpc.AGENT_UNSCHEDULE_PUBSUB,
           rpc.AGENT_SCHEDULE_PUBSUB, rpc.AGENT_STAGING_INPUT_PUBSUB,
           rpc.TMGR_UNSCHEDULE_PUBSUB, rpc.TMGR_RESCHEDULE_PUBSUB]


# ------------------------------------------------------------------------------
#
class NoWaitQueue(object):
    '''mp.Queue stand-in for gated mode: `get` never waits'''

    def __init__(self):
        self._q = queue.Queue()

    def put(self, item):
        self._q.put(copy.deepcopy(item))     # a real mp.Queue pickles

    def get(self, timeout=None, block=True):
        return self._q.get_nowait()

    def get_nowait(self):
        return self._q.get_nowait()

    def qsize(self):
        return self._q.qsize()

    def empty(self):
        return self._q.empty()


class WaitQueue(NoWaitQueue):
    '''mp.Queue stand-in for threaded mode: honours the timeout'''

    def get(self, timeout=None, block=True):
        return self._q.get(block=block, timeout=timeout)


class _FakeProcess(object):
    daemon = True
    pid    = 0
    def __init__(self, target=None, **kw):
        self.target = target
    def start(self): pass
    def terminate(self): pass
    def join(self, *a): pass
    def is_alive(self): return True


class _FakePWatcher(object):
    def __init__(self, *a, **kw): pass
    def watch(self, *a, **kw): pass
    def unwatch(self, *a, **kw): pass
    def stop(self): pass


class _NoSleep(object):
    '''`time` shim for the scheduler module: logical steps, no waiting'''
    def sleep(self, dt):
        pass
    def __getattr__(self, name):
        import time as _t
        return getattr(_t, name)


class _FakeMP(object):
    def __init__(self, qcls):
        self._qcls = qcls
    def Queue(self, *a, **kw):
        return self._qcls()
    def Event(self):
        return mt.Event()
    def Process(self, *a, **kw):
        return _FakeProcess(*a, **kw)
    def __getattr__(self, name):
        import multiprocessing as _mp
        return getattr(_mp, name)


# ------------------------------------------------------------------------------
#
class Session(object):
    '''the part of rp.Session agent components use'''

    def __init__(self, uid, cfg, rcfg, reg):
        self.uid      = uid
        self._uid     = uid
        self.cfg      = cfg
        self._cfg     = cfg
        self.rcfg     = rcfg
        self._rcfg    = rcfg
        self._reg     = reg
        self.reg_addr = cfg.reg_addr
        self.path     = cfg.path
        self.logs     = list()

    def _get_logger(self, name, level=None, debug=None):
        log = NullLog()
        self.logs.append((name, log))
        return log

    def _get_profiler(self, name):
        return NullProf()

    def _get_reporter(self, name):
        return NullProf()


# ------------------------------------------------------------------------------
#
class AgentEnv(object):

    def __init__(self, workdir, layout, seed=0, mode='pumped',
                 scheduler='CONTINUOUS', spawner='POPEN', rm='FORK',
                 scattered=True, launch_methods=None, random_bulk=False,
                 rcfg_extra=None):
        '''
        layout: {'nodes', 'cores_per_node', 'gpus_per_node', 'lfs', 'mem',
                 'blocked_cores', 'blocked_gpus', 'agent_nodes', 'smt'}
        '''

        self.workdir = os.path.realpath(workdir)
        self.layout  = layout
        self.mode    = mode
        os.makedirs(os.path.join(self.workdir, 'env'), exist_ok=True)
        os.chdir(self.workdir)

        with open('env/bs0_orig.env', 'w') as fout:
            fout.write("export PATH='%s'\n" % os.environ.get('PATH', ''))
        with open('env/lm_fork.sh', 'w') as fout:
            fout.write('# launcher env\ntrue\n')
        for tool in ('prof', 'gtod'):
            with open(tool, 'w') as fout:
                fout.write('#!/bin/sh\nexit 0\n')
            os.chmod(tool, 0o755)

        self.net = memzmq.install(memzmq.Net(seed=seed, mode=mode,
                                             random_bulk=random_bulk))
        ru.PWatcher = _FakePWatcher

        # FastTypedDict does not copy mutable defaults: RMInfo.agent_node_list
        # etc. are one object per *process*.  Production initialises one RM from
        # scratch per process; the harness creates many, so give each the fresh
        # defaults a fresh interpreter would have.
        for key, val in list(m_rmbase.RMInfo._defaults.items()):
            if isinstance(val, (list, dict)):
                m_rmbase.RMInfo._defaults[key] = type(val)()

        reg_url  = 'mem://reg'
        self.reg = memzmq.RegistryClient(url=reg_url)
        for q in QUEUES:
            self.reg['bridges.%s' % q] = {'addr_put': 'mem://agent/%s' % q,
                                          'addr_get': 'mem://agent/%s' % q}
        for p in PUBSUBS:
            self.reg['bridges.%s' % p] = {'addr_pub': 'mem://agent/%s' % p,
                                          'addr_sub': 'mem://agent/%s' % p}

        n_agents = layout.get('agent_nodes', 0)
        n_svc    = 1 if layout.get('service_nodes') else 0
        if n_svc:
            # a ./services file in the agent sandbox makes the RM set one node
            # aside for services (ResourceManager._filter_nodes)
            with open('services', 'w') as fout:
                fout.write('# services\n')
        elif os.path.exists('services'):
            os.unlink('services')
        agents   = {'agent.%d' % (i + 1): {'target': 'node'}
                    for i in range(n_agents)}

        sid = 'rp.session.verif'
        cfg = ru.Config(from_dict={
            'sid'              : sid,
            'uid'              : 'agent.0',
            'pid'              : 'pilot.0000',
            'pmgr'             : 'pmgr.0000',
            'owner'            : 'agent.0',
            'reg_addr'         : reg_url,
            'path'             : self.workdir,
            'resource'         : 'local.localhost',
            'resource_sandbox' : os.path.dirname(self.workdir),
            'session_sandbox'  : self.workdir,
            'pilot_sandbox'    : self.workdir,
            'nodes'            : layout['nodes'] + n_agents + n_svc,
            'cores'            : (layout['nodes'] + n_agents + n_svc) *
                                 layout['cores_per_node'],
            'gpus'             : (layout['nodes'] + n_agents + n_svc) *
                                 layout.get('gpus_per_node', 0),
            'backup_nodes'     : 0 if layout.get('dropped_node') is None else 1,
            'cores_per_node'   : layout['cores_per_node'],
            'gpus_per_node'    : layout.get('gpus_per_node', 0),
            'lfs_size_per_node': layout.get('lfs', 0),
            'lfs_path_per_node': '/tmp',
            'agents'           : agents,
            'heartbeat'        : {},
        })

        sys_arch = {'smt': layout.get('smt', 1)}
        if layout.get('blocked_cores'):
            sys_arch['blocked_cores'] = list(layout['blocked_cores'])
        if layout.get('blocked_gpus'):
            sys_arch['blocked_gpus'] = list(layout['blocked_gpus'])

        lms = launch_methods or {'order': ['FORK'], 'FORK': {}}
        rc  = {'resource_manager'    : rm,
               'agent_scheduler'     : scheduler,
               'agent_spawner'       : spawner,
               'launch_methods'      : lms,
               'mem_per_node'        : layout.get('mem', 0),
               'cores_per_node'      : layout['cores_per_node'],
               'gpus_per_node'       : layout.get('gpus_per_node', 0),
               'system_architecture' : sys_arch,
               'fake_resources'      : True,
               'scattered'           : scattered,
               'new_session_per_task': True,
               'numa_domain_map'     : dict(),
               'task_pre_exec'       : list(),
               'pre_bootstrap_0'     : list(),
               'pre_bootstrap_1'     : list()}
        if rcfg_extra:
            rc.update(rcfg_extra)
        rcfg = rp.ResourceConfig(from_dict=rc)

        self.cfg     = cfg
        self.rcfg    = rcfg
        self.session = Session(sid, cfg, rcfg, self.reg)

        # the first RM instance initialises "from scratch" (agent_0's role) and
        # leaves rm.<name> in the registry for the components
        # layout['dropped_node'] = k: the pilot has one backup node and the k-th
        # node of the allocation does not answer the RM's accessibility check
        # (`ssh <node> hostname`): the real _filter_nodes leaves it out, the
        # node indexes the scheduler sees have a gap
        drop = layout.get('dropped_node')
        if drop is not None:
            calls = [0]
            class _NodeCheck(object):
                stdout = stderr = ''
                def __init__(self, cmd):
                    self.retcode = 1 if calls[0] == drop else 0
                    calls[0] += 1
                def start(self): pass
                def wait(self, timeout=None): pass
                def cancel(self): pass
            saved_proc, m_rmbase.Process = m_rmbase.Process, _NodeCheck
        try:
            self.rm = rp.agent.ResourceManager.create(rm, cfg, rcfg, NullLog(),
                                                      NullProf())
        finally:
            if drop is not None:
                m_rmbase.Process = saved_proc
        self.rm_info = self.rm.info
        boot.reap_env_children()

    # --------------------------------------------------------------------------
    def ccfg(self, uid, kind):
        return ru.Config(from_dict={'uid': uid, 'sid': self.session.uid,
                                    'kind': kind, 'owner': 'agent.0',
                                    'pid': self.cfg.pid,
                                    'reg_addr': self.cfg.reg_addr})

    def url(self, channel):
        return 'mem://agent/%s' % channel

    def publish(self, channel, msg):
        self.net.publish(self.url(channel), channel, msg, who='driver')

    def put(self, channel, things, qname='default'):
        self.net.q_put(self.url(channel), qname, ru.as_list(things),
                       who='driver')

    def take(self, channel, qname='default'):
        '''driver consumes everything currently in a queue'''
        out = list()
        while True:
            got = self.net.q_get(self.url(channel), qname, who='driver')
            if not got:
                return out
            out.extend(got)

    def close(self):
        self.net.close()
        memzmq.uninstall()
        boot.reap_env_children()


# ------------------------------------------------------------------------------
#
class Turnstile(object):

    def __init__(self):
        self.go       = mt.Semaphore(0)
        self.done     = mt.Semaphore(0)
        self.stopping = False
        self.last     = None
        self.error    = None

    def wrap(self, name, fn, neutral):
        def wrapped(*args, **kwargs):
            self.go.acquire()
            self.thread = mt.current_thread()
            if self.stopping:
                self.last = (name, 'skipped')
                self.done.release()
                return neutral
            try:
                ret = fn(*args, **kwargs)
                self.last = (name, ret)
                return ret
            except BaseException as e:
                self.error = e
                self.last  = (name, 'raised %r' % e)
                raise
            finally:
                self.done.release()
        return wrapped

    def step(self, timeout=20):
        '''One gated step.  A step which does not return within `timeout` is
        judged by what its thread is doing, not by the time alone: if the
        thread sits at the very same place in two samples it is stuck
        (RuntimeError: a verdict); if it moves, the machine is slow and more
        time is given (up to 10 x timeout, then TimeoutError: no verdict).'''
        import sys
        import time
        import traceback
        self.go.release()
        for _ in range(10):
            if self.done.acquire(timeout=timeout):
                return self.last
            t = getattr(self, 'thread', None)

            def where():
                f = sys._current_frames().get(t.ident) if t else None
                return [(x.filename, x.lineno) for x in
                        traceback.extract_stack(f)] if f else None
            a = where(); time.sleep(1.0); b = where()
            if a is not None and a == b:
                raise RuntimeError('scheduler step does not move: %s'
                                   % ['%s:%d' % (os.path.basename(fn), ln)
                                      for fn, ln in a[-4:]])
        raise TimeoutError('scheduler step did not return')


# ------------------------------------------------------------------------------
#
_RLOCK = type(mt.RLock())
_LOCK  = type(mt.Lock())


class SchedulerPair(object):
    '''
    the real agent scheduler component as the (parent, child) pair a fork
    creates
    '''

    SHARED = ('_queue_sched', '_queue_unsched', '_term', '_session', '_log',
              '_prof', '_cfg', '_rm', '_uid', '_sid', '_owner', '_ctype',
              '_reg', '_p', '_pwatcher')

    def __init__(self, env, gated=True):

        self.env   = env
        self.gated = gated

        # module-level substitutions (harness process only)
        m_sbase.mp = _FakeMP(NoWaitQueue if gated else WaitQueue)
        if gated:
            m_sbase.time = _NoSleep()

        env.session.rcfg.agent_scheduler = env.rcfg.agent_scheduler
        comp_cfg = env.ccfg('agent_scheduling.0000', 'agent_scheduling')
        self.parent = rp.agent.Scheduler.create(comp_cfg, env.session)
        self.parent._initialize()          # real: publishers, control sub,
                                           # initialize() incl. RM from registry
        self.child  = self._fork(self.parent)
        self.gate   = Turnstile()
        self.thread = None
        self.child_error = None

        if gated:
            c = self.child
            c._schedule_waitpool    = self.gate.wrap('waitpool',
                                       c._schedule_waitpool,    (True, False))
            c._schedule_incoming    = self.gate.wrap('incoming',
                                       c._schedule_incoming,    (None, False))
            c._unschedule_completed = self.gate.wrap('completed',
                                       c._unschedule_completed, (False, False))

        # completed passes of the scheduling loop (each pass starts with
        # `_schedule_incoming`): idleness of the loop is decided in passes
        self.passes = 0
        inner = self.child._schedule_incoming
        def counted(*a, **k):
            try:
                return inner(*a, **k)
            finally:
                self.passes += 1
        self.child._schedule_incoming = counted

    def _fork(self, parent):
        child = copy.copy(parent)
        for k, v in list(parent.__dict__.items()):
            if k in self.SHARED:
                continue
            if isinstance(v, _RLOCK):
                child.__dict__[k] = mt.RLock()
                continue
            if isinstance(v, _LOCK):
                child.__dict__[k] = mt.Lock()
                continue
            if k in ('_inputs', '_outputs', '_workers', '_publishers',
                     '_subscribers', '_threads', '_rpc_reqs', '_rpc_handlers'):
                child.__dict__[k] = dict(v)     # handles are inherited
                continue
            try:
                child.__dict__[k] = copy.deepcopy(v)
            except Exception:
                child.__dict__[k] = v
        return child

    def start(self):
        def loop():
            try:
                self.child._schedule_tasks()
            except BaseException as e:
                self.child_error = e
        # the child starts with copies of the parent's handles (as after a
        # fork) and replaces them during its own set-up: wait for *its*
        # publisher dict, not for the inherited one
        inherited = self.child.__dict__.get('_publishers')
        self.thread = mt.Thread(target=loop, daemon=True, name='sched-child')
        self.thread.start()
        # wait until the child's set-up (outputs, control subscriber,
        # publisher) is done: it then blocks in the first gated step
        import time as _t
        t0 = _t.time()
        while not getattr(self.child, '_raptor_lock', None) or \
              rps.AGENT_EXECUTING_PENDING not in self.child._outputs or \
              self.child._publishers is inherited or \
              rpc.STATE_PUBSUB not in self.child._publishers or \
              rpc.CONTROL_PUBSUB not in self.child._subscribers:
            if self.child_error:
                raise self.child_error
            if _t.time() - t0 > 10:
                raise TimeoutError('scheduler child did not start')
            _t.sleep(0.0005)

    def step(self):
        if self.child_error:
            raise self.child_error
        return self.gate.step()

    def intake(self):
        '''one iteration of the parent's work loop'''
        return self.parent.work_cb()

    def stop(self):
        self.gate.stopping = True
        self.child._term.set()
        for _ in range(6):
            self.gate.go.release()
        if self.thread:
            self.thread.join(timeout=5)


# ------------------------------------------------------------------------------
#
class Executor(object):
    '''the real executing component (Popen / NOOP) over the in-memory net'''

    def __init__(self, env, start=True):
        self.env  = env
        comp_cfg  = env.ccfg('agent_executing.0000', 'agent_executing')
        self.comp = rp.agent.Executing.create(comp_cfg, env.session)
        if start:
            self.comp.start()              # real work loop thread
        else:
            self.comp._initialize()

    def intake(self):
        return self.comp.work_cb()

    def stop(self):
        self.comp._term.set()
        t = getattr(self.comp, '_terminate', None)
        if t is not None:
            t.set()


def exec_task(uid, sandbox, slots=None, origin='client', **kw):
    '''a task dict as the scheduler hands it to the executor'''
    from .harness import make_td
    td = make_td(uid=uid, **kw)
    td.verify()
    if slots is None:
        slots = [{'node_name': 'localhost', 'node_index': 0,
                  'cores': [{'index': 0, 'occupation': 1.0}], 'gpus': [],
                  'lfs': 0, 'mem': 0}]
    return {'uid'              : uid,
            'type'             : 'task',
            'name'             : uid,
            'state'            : rps.AGENT_EXECUTING_PENDING,
            'origin'           : origin,
            'pilot'            : 'pilot.0000',
            'description'      : td.as_dict(),
            'slots'            : slots,
            'partition'        : None,
            'resources'        : {'cpu': 1, 'gpu': 0},
            'task_sandbox'     : 'file://localhost/%s/%s' % (sandbox, uid),
            'task_sandbox_path': '%s/%s' % (sandbox, uid)}
