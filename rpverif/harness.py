'''
Object construction helpers: null logger/profiler/reporter, stub session,
client-side facades created with `__new__` (the idiom the upstream tests use)
so that only *real* methods run afterwards.
'''

import os
import threading as mt
import collections

from .boot import boot

rp, ru = boot()

import radical.pilot.states    as rps          # noqa
import radical.pilot.constants as rpc          # noqa


# ------------------------------------------------------------------------------
#
class NullLog(object):
    '''accepts any logging call; optionally records exceptions logged'''

    _debug_level = 0

    def __init__(self):
        self.exceptions = list()
        self.errors     = list()

    def exception(self, *args, **kwargs):
        import sys
        self.exceptions.append((args, repr(sys.exc_info()[1])))

    def error(self, *args, **kwargs):
        self.errors.append(args)

    def __getattr__(self, name):
        if name.startswith('__'):
            raise AttributeError(name)
        return self._noop

    def _noop(self, *args, **kwargs):
        return None


class NullProf(object):

    enabled = False

    def __getattr__(self, name):
        if name.startswith('__'):
            raise AttributeError(name)
        return self._noop

    def _noop(self, *args, **kwargs):
        return None


NullRep = NullProf


# ------------------------------------------------------------------------------
#
class RecPublisher(object):
    '''stands in for ru.zmq.Publisher on facades: records what is published'''

    def __init__(self, channel, sink=None):
        self.channel = channel
        self.msgs    = list()
        self.sink    = sink

    def put(self, topic, msg):
        import radical.utils.serialize as rus
        msg = rus.from_msgpack(rus.to_msgpack(msg))
        self.msgs.append(msg)
        if self.sink:
            self.sink(topic, msg)


# ------------------------------------------------------------------------------
#
class StubSession(object):

    def __init__(self, uid='rp.session.verif', path=None):
        self.uid   = uid
        self._uid  = uid
        self.path  = path or os.getcwd()
        self._log  = NullLog()
        self._prof = NullProf()
        self._rep  = NullRep()
        self._reg  = dict()
        self._tmgrs = dict()
        self._pmgrs = dict()

    def _get_logger(self, name, level=None, debug=None):
        return NullLog()

    def _get_profiler(self, name):
        return NullProf()

    def _get_reporter(self, name):
        return NullRep()


# ------------------------------------------------------------------------------
#
def make_tmgr(session=None, uid='tmgr.0000'):
    '''
    TaskManager facade: created with __new__, given exactly the attributes the
    constructor would have set; `advance`/`publish` are the real methods and
    write into recording publishers.
    '''

    tm = rp.TaskManager.__new__(rp.TaskManager)

    tm._uid         = uid
    tm._session     = session or StubSession()
    tm._log         = NullLog()
    tm._prof        = NullProf()
    tm._rep         = NullRep()
    tm._cfg         = ru.Config(from_dict={'uid': uid})
    tm._known_uids  = set()
    tm._pilots      = dict()
    tm._pilots_lock = mt.RLock()
    tm._tasks       = dict()
    tm._tasks_lock  = mt.RLock()
    tm._callbacks   = {m: dict() for m in rpc.TMGR_METRICS}
    tm._tcb_lock    = mt.RLock()
    tm._terminate   = mt.Event()
    tm._closed      = False
    tm._task_info   = collections.defaultdict(dict)
    tm._has_sout    = True

    tm._outputs     = dict()
    tm._inputs      = dict()
    tm._workers     = dict()
    tm._publishers  = {rpc.STATE_PUBSUB  : RecPublisher(rpc.STATE_PUBSUB),
                       rpc.CONTROL_PUBSUB: RecPublisher(rpc.CONTROL_PUBSUB)}
    tm._cancel_list = list()
    tm._cancel_lock = mt.RLock()
    tm._cb_lock     = mt.RLock()

    return tm


def make_td(**kwargs):
    '''task description with fresh containers for every mutable attribute'''
    d = {'executable'    : '/bin/true',
         'arguments'     : list(),
         'environment'   : dict(),
         'pre_exec'      : list(),
         'post_exec'     : list(),
         'pre_launch'    : list(),
         'post_launch'   : list(),
         'input_staging' : list(),
         'output_staging': list(),
         'tags'          : dict(),
         'metadata'      : dict()}
    d.update(kwargs)
    return rp.TaskDescription(from_dict=d)


def make_task(tm, uid, **kwargs):
    '''real Task registered with the facade the way submit_tasks does it'''
    td   = make_td(uid=uid, **kwargs)
    task = rp.Task(tmgr=tm, descr=td, origin='client')
    tm._known_uids.add(uid)
    tm._tasks[uid] = task
    return task


# ------------------------------------------------------------------------------
#
class _StubSub(object):
    def stop(self):
        pass


def make_pmgr(session=None, uid='pmgr.0000'):

    pm = rp.PilotManager.__new__(rp.PilotManager)

    pm._uid         = uid
    pm._session     = session or StubSession()
    pm._log         = NullLog()
    pm._prof        = NullProf()
    pm._rep         = NullRep()
    pm._cfg         = ru.Config(from_dict={'uid': uid})
    pm._uids        = list()
    pm._pilots      = dict()
    pm._pilots_lock = mt.RLock()
    pm._callbacks   = {m: dict() for m in rpc.PMGR_METRICS}
    pm._pcb_lock    = mt.RLock()
    pm._terminate   = mt.Event()
    pm._closed      = False

    pm._outputs     = dict()
    pm._inputs      = dict()
    pm._workers     = dict()
    pm._publishers  = {rpc.STATE_PUBSUB  : RecPublisher(rpc.STATE_PUBSUB),
                       rpc.CONTROL_PUBSUB: RecPublisher(rpc.CONTROL_PUBSUB)}
    pm._cancel_list = list()
    pm._cancel_lock = mt.RLock()
    pm._cb_lock     = mt.RLock()

    return pm


def make_pilot(pm, uid, resource='local.localhost'):
    '''real Pilot facade registered with the pmgr facade'''

    p = rp.Pilot.__new__(rp.Pilot)

    p._descr      = {'uid': uid, 'resource': resource, 'runtime': 10,
                     'cores': 4, 'gpus': 0, 'nodes': 1,
                     'exit_on_error': False}
    p._pmgr       = pm
    p._session    = pm._session
    p._prof       = NullProf()
    p._uid        = uid
    p._state      = rps.NEW
    p._log        = pm._log
    p._sub        = _StubSub()
    p._pilot_dict = dict()
    p._callbacks  = {m: dict() for m in rpc.PMGR_METRICS}
    p._cb_lock    = ru.RLock()
    p._tmgr       = None
    p._nodelist   = None
    p._exit_on_error = False
    p._callbacks[rpc.PILOT_STATE][p._default_state_cb.__name__] = {
            'cb': p._default_state_cb, 'cb_data': None}

    base = 'file://localhost/tmp/rpverif/%s' % uid
    p._pilot_jsurl      = ru.Url('fork://localhost/')
    p._pilot_jshop      = ru.Url()
    p._endpoint_fs      = ru.Url('file://localhost/')
    p._resource_sandbox = ru.Url('file://localhost/tmp/rpverif')
    p._session_sandbox  = ru.Url('file://localhost/tmp/rpverif/sess')
    p._pilot_sandbox    = ru.Url(base)
    p._client_sandbox   = ru.Url('file://localhost/tmp/rpverif/client')
    p._rpc_reqs         = dict()

    pm._uids.append(uid)
    pm._pilots[uid] = p
    return p


# the documented final states, by value: oracles must not read the repository's
# module-level (mutable) `rps.FINAL` list, which code under test can change
FINAL_STATES = (rps.DONE, rps.FAILED, rps.CANCELED)


# ------------------------------------------------------------------------------
#
# a real Session without its constructor: the sandbox and resource config
# methods which client components call are the repository's
#
_RCFGS = None


def _rcfgs():
    '''resource configs, loaded the way Session._init_cfg_from_scratch does'''
    global _RCFGS
    if _RCFGS is None:
        from radical.pilot.resource_config import ResourceConfig
        raw    = ru.Config('radical.pilot.resource', name='*', expand=False)
        _RCFGS = ru.Config()
        for site in raw:
            _RCFGS[site] = ru.Config()
            for res, rcfg in raw[site].items():
                _RCFGS[site][res] = ResourceConfig(rcfg)
    return _RCFGS


class RealSession(rp.Session):
    '''
    rp.Session with only the constructor replaced: the sandbox and resource
    config methods which the tmgr scheduler and the stagers call are the real
    ones.
    '''

    def __init__(self, uid, client_sandbox, reg, path):          # noqa
        self._uid   = uid
        self._role  = self._DEFAULT
        self._reg   = reg
        self._cfg   = ru.Config(from_dict={'sid'           : uid,
                                           'path'          : path,
                                           'reg_addr'      : 'mem://reg',
                                           'client_sandbox': client_sandbox})
        self._rcfgs = _rcfgs()
        self._rcfg  = ru.Config()
        self._log   = NullLog()
        self._prof  = NullProf()
        self._rep   = NullProf()
        self._tmgrs = dict()
        self._pmgrs = dict()
        self._closed = False
        self.logs   = list()

        # as in Session.__init__
        self._cache_lock = ru.RLock()
        self._cache      = {'endpoint_fs'      : dict(),
                            'resource_sandbox' : dict(),
                            'session_sandbox'  : dict(),
                            'pilot_sandbox'    : dict(),
                            'client_sandbox'   : self._cfg.client_sandbox,
                            'js_shells'        : dict(),
                            'fs_dirs'          : dict()}

    def _get_logger(self, name, level=None, debug=None):
        log = NullLog()
        self.logs.append((name, log))
        return log

    def _get_profiler(self, name):
        return NullProf()

    def _get_reporter(self, name):
        return NullProf()

    def close(self, *args, **kwargs):
        pass
