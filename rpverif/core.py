'''
Verdict plumbing shared by all checks: per-shard results, merging, known
findings, evidence files, replay files.

A property module (rpverif/props/cXX.py) provides

    ID, LEVEL, RULE, ASSUMPTIONS, REQUIRED (counter -> minimum)
    run(ctx)            -> Result     (one shard)
    replay(case, ctx)   -> Result     (optional)

Verdicts are three valued: exit 0 (held on what was observed), exit 1 with a
VIOLATION line (oracle refuted), exit 2 (inconclusive: a deciding monitor was
not reached, a watchdog fired, a fixture is missing).
'''

import os
import json
import time
import random
import hashlib

VERIF = os.path.dirname(os.path.dirname(os.path.abspath(__file__)))


# ------------------------------------------------------------------------------
#
def digest(obj):
    return hashlib.sha1(json.dumps(obj, sort_keys=True, default=repr)
                            .encode()).hexdigest()[:16]


def jsonable(obj, depth=0):
    '''best effort conversion to something json can write'''
    if depth > 12:
        return repr(obj)
    if obj is None or isinstance(obj, (bool, int, float, str)):
        return obj
    if isinstance(obj, bytes):
        try:
            return obj.decode()
        except Exception:
            return repr(obj)
    if hasattr(obj, 'as_dict') and callable(obj.as_dict):
        try:
            return jsonable(obj.as_dict(), depth + 1)
        except Exception:
            pass
    if isinstance(obj, dict):
        return {str(k): jsonable(v, depth + 1) for k, v in obj.items()}
    if isinstance(obj, (list, tuple, set, frozenset)):
        return [jsonable(v, depth + 1) for v in obj]
    return repr(obj)


# ------------------------------------------------------------------------------
#
class Ctx(object):

    def __init__(self, pid, tier, seed, shard=0, nshards=1, workdir=None,
                 opts=None):
        self.pid     = pid
        self.tier    = tier
        self.seed    = seed
        self.shard   = shard
        self.nshards = nshards
        self.workdir = workdir
        self.opts    = opts or dict()
        self.t0      = time.time()

    @property
    def quick(self):
        return self.tier == 'quick'

    def rng(self, *salt):
        key = '%s/%s/%s/%s' % (self.pid, self.seed, self.shard,
                               '/'.join(str(s) for s in salt))
        return random.Random(int(hashlib.sha1(key.encode()).hexdigest()[:12],
                                 16))

    def n(self, quick, thorough):
        '''per-shard share of a tier budget'''
        total = quick if self.quick else thorough
        if 'scale' in self.opts:
            total = max(1, int(total * float(self.opts['scale'])))
        share = total // self.nshards
        if self.shard < total % self.nshards:
            share += 1
        return share

    def elapsed(self):
        return time.time() - self.t0


# ------------------------------------------------------------------------------
#
class Result(object):

    MAX_SAMPLES    = 3
    MAX_VIOLATIONS = 40

    def __init__(self):
        self.evaluations  = 0
        self.digests      = set()     # distinct non-trivial cases
        self.samples      = list()
        self.violations   = list()    # {mechanism, message, case}
        self.counters     = dict()
        self.sets         = dict()    # name -> set of small hashables
        self.inconclusive = list()
        self.notes        = list()
        self.exhaustive   = None

    # -- recording -------------------------------------------------------------
    def case(self, case_repr=None, nontrivial=True, sig=None):
        self.evaluations += 1
        if self.evaluations % 8 == 0:
            try:
                from . import boot as _boot
                _boot.reap_env_children()
            except Exception:
                pass
        if nontrivial:
            self.digests.add(sig if sig is not None else digest(case_repr))
        if case_repr is not None and len(self.samples) < self.MAX_SAMPLES:
            self.samples.append(jsonable(case_repr))

    def count(self, name, n=1):
        self.counters[name] = self.counters.get(name, 0) + n

    def see(self, name, value):
        self.sets.setdefault(name, set()).add(value)

    def violation(self, mechanism, message, case=None):
        self.count('violations_raw')
        if len(self.violations) < self.MAX_VIOLATIONS or \
           mechanism not in {v['mechanism'] for v in self.violations}:
            self.violations.append({'mechanism': mechanism,
                                    'message'  : str(message)[:2000],
                                    'case'     : jsonable(case)})

    def inconc(self, reason):
        if reason not in self.inconclusive:
            self.inconclusive.append(reason)

    def note(self, text):
        if text not in self.notes:
            self.notes.append(text)

    # -- (de)serialisation for shard hand-over ---------------------------------
    def dump(self):
        return {'evaluations' : self.evaluations,
                'digests'     : sorted(self.digests),
                'samples'     : self.samples,
                'violations'  : self.violations,
                'counters'    : self.counters,
                'sets'        : {k: sorted(jsonable(list(v)), key=repr)
                                 for k, v in self.sets.items()},
                'inconclusive': self.inconclusive,
                'notes'       : self.notes,
                'exhaustive'  : self.exhaustive}

    @staticmethod
    def load(d):
        r = Result()
        r.evaluations  = d['evaluations']
        r.digests      = set(d['digests'])
        r.samples      = d['samples']
        r.violations   = d['violations']
        r.counters     = d['counters']
        r.sets         = {k: set(_hashable(x) for x in v)
                          for k, v in d['sets'].items()}
        r.inconclusive = d['inconclusive']
        r.notes        = d['notes']
        r.exhaustive   = d['exhaustive']
        return r

    def merge(self, other):
        self.evaluations += other.evaluations
        self.digests     |= other.digests
        for s in other.samples:
            if len(self.samples) < self.MAX_SAMPLES:
                self.samples.append(s)
        self.violations  += other.violations
        for k, v in other.counters.items():
            self.counters[k] = self.counters.get(k, 0) + v
        for k, v in other.sets.items():
            self.sets.setdefault(k, set()).update(v)
        for i in other.inconclusive:
            self.inconc(i)
        for n in other.notes:
            self.note(n)
        if other.exhaustive is False:
            self.exhaustive = False
        elif other.exhaustive and self.exhaustive is None:
            self.exhaustive = True


def _hashable(x):
    if isinstance(x, list):
        return tuple(_hashable(y) for y in x)
    if isinstance(x, dict):
        return tuple(sorted((k, _hashable(v)) for k, v in x.items()))
    return x


# ------------------------------------------------------------------------------
#
def load_known(pid):
    path = os.path.join(VERIF, 'known_findings.json')
    if not os.path.isfile(path):
        return list(), list()
    with open(path) as fin:
        data = json.load(fin)
    known = [f for f in data.get('findings', []) if f['property'] == pid]
    fixed = [f for f in data.get('fixed',    []) if f['property'] == pid]
    return known, fixed


def write_replay(pid, violation, ctx):
    rdir = os.path.join(VERIF, 'replays')
    os.makedirs(rdir, exist_ok=True)
    name = '%s-%s-%s.json' % (pid, violation['mechanism'].replace('/', '_'),
                              digest(violation)[:10])
    path = os.path.join(rdir, name)
    with open(path, 'w') as fout:
        json.dump({'property' : pid,
                   'tier'     : ctx.tier,
                   'seed'     : ctx.seed,
                   'mechanism': violation['mechanism'],
                   'message'  : violation['message'],
                   'case'     : violation['case']}, fout, indent=1,
                  default=repr)
    return path


def write_evidence(mod, ctx, res, n_viol, known_hit, wall):

    cov = {'evaluations'        : res.evaluations,
           'distinct_nontrivial': len(res.digests),
           'rule'               : mod.RULE,
           'samples'            : res.samples[:Result.MAX_SAMPLES],
           'monitor_counters'   : dict(sorted(res.counters.items())),
           'observed'           : {k: (sorted(jsonable(list(v)), key=repr)
                                       if len(v) <= 60 else
                                       {'n': len(v),
                                        'first': sorted(jsonable(list(v)),
                                                        key=repr)[:20]})
                                   for k, v in sorted(res.sets.items())},
           'known_findings_matched': known_hit,
           'inconclusive'       : res.inconclusive,
           'notes'              : res.notes,
           'shards'             : ctx.nshards}
    if res.exhaustive is not None:
        cov['exhaustive'] = bool(res.exhaustive)

    ev = {'property_id': mod.ID,
          'tier'       : ctx.tier,
          'seed'       : ctx.seed,
          'level'      : mod.LEVEL,
          'coverage'   : cov,
          'assumptions': list(getattr(mod, 'ASSUMPTIONS', [])),
          'wall_s'     : round(wall, 2),
          'violations' : n_viol}

    edir = os.path.join(VERIF, 'evidence')
    os.makedirs(edir, exist_ok=True)
    path = os.path.join(edir, '%s.json' % mod.ID)
    tmp  = path + '.tmp'
    with open(tmp, 'w') as fout:
        json.dump(ev, fout, indent=1, sort_keys=True, default=repr)
        fout.write('\n')
    os.replace(tmp, path)
    return path


def pid_space_small():
    '''
    True when pids are recycled quickly (default pid_max and it could not be
    raised, see setup.sh): RP's kill sequence (SIGTERM, 0.1 s, SIGKILL to a
    process group id) can then hit an unrelated fresh task, so an unscripted
    death by SIGTERM/SIGKILL of a task nobody named cannot be judged.
    '''
    try:
        with open('/proc/sys/kernel/pid_max') as fin:
            return int(fin.read().strip()) < 1000000
    except Exception:
        return False


class YieldLock(object):
    '''
    proxy around a lock of the code under test: a short seeded sleep just
    before the lock is acquired (an existing suspension point) widens the
    window between whatever was read or done before and the critical section
    '''

    def __init__(self, lock, seed, name='lock', sleeps=None, gate=None):
        self._lock, self._seed, self._name = lock, seed, name
        self._sleeps = sleeps or [0, 0, 0.0002, 0.0005, 0.001, 0.002]
        self._rngs   = dict()
        self._gate   = gate      # called before every acquisition: may let
                                 # another thread run to a chosen point first
                                 # (a preemption here can be arbitrarily long)

    def _rng(self):
        import random
        import threading as mt
        tn = mt.current_thread().name
        if tn not in self._rngs:
            self._rngs[tn] = random.Random('%s/%s/%s' % (self._seed,
                                                         self._name, tn))
        return self._rngs[tn]

    def _nap(self):
        import time
        if self._gate:
            self._gate()
        time.sleep(self._rng().choice(self._sleeps))

    def __enter__(self):
        self._nap()
        return self._lock.__enter__()

    def __exit__(self, *a):
        return self._lock.__exit__(*a)

    def acquire(self, *a, **k):
        self._nap()
        return self._lock.acquire(*a, **k)

    def release(self):
        return self._lock.release()
