'''
A mini pilot in one process: the real client-side pipeline (TaskManager facade
with its real submit/cancel/state-callback methods, tmgr scheduler, tmgr
stage-in, tmgr stage-out) and the real agent-side pipeline (Agent_0's two relay
callbacks, agent stage-in, scheduler parent/child pair, Popen executor with
real child processes, agent stage-out) over the threaded in-memory transport,
with the client and the agent side wired through shared proxy channels by the
real `Session._crosswire_proxy` closures.

Nothing above the `ru.zmq` seam is replaced; faults are injected by wrapping
per-task routines on the component *instances* (poison uids), by real missing
files, real non-zero exits and real launcher refusals.
'''

import os
import time
import threading as mt

from .harness  import rp, ru, rps, rpc, NullLog, NullProf, make_tmgr, make_td
from .         import memzmq
from .agentkit import AgentEnv, SchedulerPair, Executor, m_sbase

import radical.pilot.utils.component  as m_comp              # noqa
import radical.pilot.agent.agent_0    as m_agent0            # noqa
import radical.pilot.agent.executing.base as m_ebase         # noqa

PID = 'pilot.0000'
SID = 'rp.session.verif'
PROXY_QUEUES  = [rpc.PROXY_TASK_QUEUE]
PROXY_PUBSUBS = [rpc.PROXY_CONTROL_PUBSUB, rpc.PROXY_STATE_PUBSUB]


class Poison(Exception):
    pass


# All components share one process here, while in a pilot the executor is a
# process of its own.  A fork from another component's thread (a stager running
# `cp`) while the executor has a task script open for writing lets the child
# inherit that descriptor, and exec'ing the script then fails with ETXTBSY.
# Make script writing and process creation mutually exclusive *in the harness
# process* to restore the separation processes give.
import subprocess as _sp
_FORK_LOCK = mt.RLock()
if not getattr(_sp.Popen, '_rpverif_locked', False):
    _orig_popen_init = _sp.Popen.__init__
    def _locked_popen_init(self, *a, **k):
        with _FORK_LOCK:
            return _orig_popen_init(self, *a, **k)
    _sp.Popen.__init__ = _locked_popen_init
    _sp.Popen._rpverif_locked = True


# ------------------------------------------------------------------------------
#
class _Wire(rp.Session):
    '''an rp.Session used only for its real crosswire methods'''

    def __init__(self, module, reg, role):          # no base __init__
        self._cfg     = ru.Config(from_dict={'path': os.getcwd()})
        self._reg     = reg
        self._module  = module
        self._log     = NullLog()
        self._prof    = NullProf()
        self._role    = role
        self._to_stop = list()


class ClientSession(object):

    def __init__(self, reg, root):
        self.uid   = SID
        self._uid  = SID
        self._reg  = reg
        self.root  = root
        self.path  = root
        self.cfg   = ru.Config(from_dict={'heartbeat': {}})
        self.reg_addr = 'mem://reg/client'

    def _get_logger(self, name, level=None, debug=None): return NullLog()
    def _get_profiler(self, name): return NullProf()
    def _get_reporter(self, name): return NullProf()

    def _url(self, path): return 'file://localhost%s' % path
    def _get_client_sandbox(self):          return self._url(self.root + '/client')
    def _get_endpoint_fs(self, pilot):      return 'file://localhost/'
    def _get_resource_sandbox(self, pilot): return self._url(self.root)
    def _get_session_sandbox(self, pilot):  return self._url(self.root + '/agent')
    def _get_pilot_sandbox(self, pilot):    return self._url(self.root + '/agent')
    def _get_task_sandbox(self, task, pilot):
        return self._url('%s/agent/%s/' % (self.root, task['uid']))


# ------------------------------------------------------------------------------
#
class MiniPilot(object):

    def __init__(self, workdir, seed=0, cores=8, poison=None, pilots=1):

        # `pilots` > 1: the task manager knows several pilots; all of them are
        # served by the one agent pipeline (the agent relay listens on each
        # pilot's proxy queue name), so client side multi-pilot paths run while
        # every task still has a live pilot
        self.pids   = [PID] + ['pilot.%04d' % i for i in range(1, pilots)]
        self.root   = os.path.realpath(workdir)
        self.poison = poison or dict()        # uid -> fault point
        self.hits   = set()
        os.makedirs(self.root + '/client', exist_ok=True)
        os.makedirs(self.root + '/agent',  exist_ok=True)

        # --- agent side (also installs the net) -------------------------------
        self.env = AgentEnv(self.root + '/agent',
                            {'nodes': 1, 'cores_per_node': cores,
                             'gpus_per_node': 0}, seed=seed, mode='threaded',
                            random_bulk=True)
        self.net = self.env.net
        areg = self.env.reg
        for q in PROXY_QUEUES:
            areg['bridges.%s' % q] = {'addr_put': 'mem://proxy/%s' % q,
                                      'addr_get': 'mem://proxy/%s' % q}
        for p in PROXY_PUBSUBS:
            areg['bridges.%s' % p] = {'addr_pub': 'mem://proxy/%s' % p,
                                      'addr_sub': 'mem://proxy/%s' % p}

        # --- client side registry ---------------------------------------------
        creg = memzmq.RegistryClient(url='mem://reg/client')
        for q in (rpc.TMGR_SCHEDULING_QUEUE, rpc.TMGR_STAGING_INPUT_QUEUE,
                  rpc.TMGR_STAGING_OUTPUT_QUEUE):
            creg['bridges.%s' % q] = {'addr_put': 'mem://client/%s' % q,
                                      'addr_get': 'mem://client/%s' % q}
        for p in (rpc.CONTROL_PUBSUB, rpc.STATE_PUBSUB):
            creg['bridges.%s' % p] = {'addr_pub': 'mem://client/%s' % p,
                                      'addr_sub': 'mem://client/%s' % p}
        for q in PROXY_QUEUES:
            creg['bridges.%s' % q] = {'addr_put': 'mem://proxy/%s' % q,
                                      'addr_get': 'mem://proxy/%s' % q}
        for p in PROXY_PUBSUBS:
            creg['bridges.%s' % p] = {'addr_pub': 'mem://proxy/%s' % p,
                                      'addr_sub': 'mem://proxy/%s' % p}
        self.csession = ClientSession(creg, self.root)
        creg['cfg.session_sandbox'] = self.csession._get_session_sandbox(None)

        # --- crosswire both sides with the real closures ----------------------
        self.wires = [_Wire('client', creg, rp.Session._PRIMARY),
                      _Wire(PID,      areg, rp.Session._AGENT_0)]
        for w in self.wires:
            w._crosswire_proxy()

        self.components = dict()
        self._build_agent()
        self._build_client()
        self._install_poison()

    # --------------------------------------------------------------------------
    def _ccfg(self, uid, kind, owner, **kw):
        d = {'uid': uid, 'sid': SID, 'kind': kind, 'owner': owner, 'pid': PID}
        d.update(kw)
        return ru.Config(from_dict=d)

    def _build_agent(self):
        env = self.env
        # time.sleep shims: logical behaviour unchanged, idle waits shortened
        self.pair = SchedulerPair(env, gated=False)
        m_sbase.time = _Scaled(0.02)
        m_ebase.time = _Scaled(0.02)

        self.stagein  = rp.agent.Input.create(
                 env.ccfg('agent_staging_input.0000', 'agent_staging_input'),
                 env.session)
        self.stageout = rp.agent.Output.create(
                 env.ccfg('agent_staging_output.0000', 'agent_staging_output'),
                 env.session)
        self.executor = Executor(env, start=False)

        # Agent_0: only its two relay callbacks (and what initialize() registers
        # for them); RPC/env preparation/services need a real pilot
        a0 = m_agent0.Agent_0.__new__(m_agent0.Agent_0)
        m_comp.AgentComponent.__init__(a0, env.ccfg('agent.0', 'agent_0'),
                                       env.session)
        a0._pid, a0._sid, a0._pmgr = PID, SID, 'pmgr.0000'
        a0.register_publisher(rpc.STATE_PUBSUB)
        a0.register_publisher(rpc.CONTROL_PUBSUB)
        a0._cancel_list, a0._cancel_lock = list(), mt.RLock()
        a0.register_output(rps.AGENT_STAGING_INPUT_PENDING,
                           rpc.AGENT_STAGING_INPUT_QUEUE)
        a0.register_output(rps.TMGR_STAGING_OUTPUT_PENDING,
                           rpc.PROXY_TASK_QUEUE)
        a0.register_input(rps.AGENT_STAGING_INPUT_PENDING,
                          rpc.PROXY_TASK_QUEUE, qname=PID,
                          cb=a0._proxy_input_cb)
        a0.register_input(rps.TMGR_STAGING_OUTPUT_PENDING,
                          rpc.AGENT_COLLECTING_QUEUE, cb=a0._proxy_output_cb)
        for alias in self.pids[1:]:
            # same real relay callback, other proxy queue name
            def relay(tasks, _cb=a0._proxy_input_cb):
                return _cb(tasks)
            relay.__name__ = '_proxy_input_cb_%s' % alias.replace('.', '_')
            a0.register_input(rps.AGENT_STAGING_INPUT_PENDING,
                              rpc.PROXY_TASK_QUEUE, qname=alias, cb=relay)
        self.agent0 = a0

        for name, comp in (('agent_stagein', self.stagein),
                           ('agent_stageout', self.stageout),
                           ('executor', self.executor.comp),
                           ('agent_sched', self.pair.parent)):
            if name not in ('agent_sched', 'executor'):
                comp._initialize()
            self.components[name] = comp
        self.components['agent0'] = a0

    def _build_client(self):
        s  = self.csession
        tm = make_tmgr(session=s, uid='tmgr.0000')
        tm._reg         = s._reg
        tm._publishers  = dict()
        tm._subscribers = dict()
        tm._threads     = dict()
        tm.register_publisher(rpc.STATE_PUBSUB)
        tm.register_publisher(rpc.CONTROL_PUBSUB)
        tm.register_output(rps.TMGR_SCHEDULING_PENDING,
                           rpc.TMGR_SCHEDULING_QUEUE)
        tm.register_subscriber(rpc.STATE_PUBSUB, tm._state_sub_cb)
        self.tmgr = tm

        self.tsched = rp.tmgr.Scheduler.create(
                self._ccfg('tmgr_scheduling.0000', 'tmgr_scheduling',
                           'tmgr.0000', scheduler='round_robin'), s)
        self.tin    = rp.tmgr.Input.create(
                self._ccfg('tmgr_staging_input.0000', 'tmgr_staging_input',
                           'tmgr.0000'), s)
        self.tout   = rp.tmgr.Output.create(
                self._ccfg('tmgr_staging_output.0000', 'tmgr_staging_output',
                           'tmgr.0000'), s)
        for name, comp in (('tmgr_sched', self.tsched),
                           ('tmgr_stagein', self.tin),
                           ('tmgr_stageout', self.tout)):
            comp._initialize()
            self.components[name] = comp

        self.pilot_docs = [{'uid': pid, 'type': 'pilot',
                            'state': rps.PMGR_ACTIVE,
                            'description': {'resource': 'local.localhost',
                                            'cores': 8,
                                            'access_schema': 'local'},
                            'js_hop': 'fork://localhost/'}
                           for pid in self.pids]
        self.pilot_doc = self.pilot_docs[0]

    # --------------------------------------------------------------------------
    def _install_poison(self):
        mp = self

        def wrap(obj, name, point, uid_of):
            orig = getattr(obj, name)
            def wrapped(*a, **k):
                uid = uid_of(*a, **k)
                if mp.poison.get(uid) == point:
                    mp.hits.add('poison:' + point)
                    raise Poison('%s failed for %s' % (point, uid))
                return orig(*a, **k)
            setattr(obj, name, wrapped)

        wrap(self.tsched,   '_assign_pilot',        'tmgr_sched',
             lambda task, pilot: task['uid'])
        wrap(self.stagein,  '_handle_task_staging', 'agent_stagein',
             lambda task, act: task['uid'])
        wrap(self.pair.child, 'schedule_task',      'agent_sched',
             lambda task: task['uid'])
        ex = self.executor.comp
        wrap(ex._rm,        'find_launcher',        'exec_find_launcher',
             lambda task: task['uid'])
        wrap(ex,            '_create_exec_script',  'exec_script',
             lambda launcher, task: task['uid'])
        wrap(self.stageout, '_handle_task_stdio',   'agent_stageout',
             lambda task: task['uid'])
        wrap(self.tout,     '_handle_task',         'tmgr_stageout',
             lambda task, act: task['uid'])
        wrap(self.tin,      '_handle_task',         'tmgr_stagein',
             lambda task, act: task['uid'])

        # see _FORK_LOCK above
        for name in ('_create_exec_script', '_create_launch_script'):
            def locked(*a, _f=getattr(ex, name), **k):
                with _FORK_LOCK:
                    return _f(*a, **k)
            setattr(ex, name, locked)

        # a whole work routine failing for the bulk which contains the uid
        for name, comp in (('agent_stagein', self.stagein),
                           ('agent_stageout', self.stageout),
                           ('tmgr_stagein', self.tin)):
            for state, worker in list(comp._workers.items()):
                def bulk(things, _w=worker, _n=name):
                    for t in things:
                        if mp.poison.get(t['uid']) == 'work:' + _n:
                            mp.hits.add('poison:work:' + _n)
                            raise Poison('work routine of %s failed' % _n)
                    return _w(things)
                comp._workers[state] = bulk

    # --------------------------------------------------------------------------
    def start(self, announce=True):
        self.loops = dict()
        self.loop_errors = list()

        def loop(name, comp):
            while not comp._term.is_set() and not self.net.closed:
                try:
                    comp.work_cb()
                except BaseException as e:
                    self.loop_errors.append((name, repr(e)))
                time.sleep(0.001)

        for name, comp in self.components.items():
            t = mt.Thread(target=loop, args=[name, comp], daemon=True,
                          name='loop.' + name)
            self.loops[name] = t
            t.start()
        self.pair.start()           # the scheduler's child loop

        if announce:
            self.announce_pilots()

    def announce_pilots(self):
        # the task manager learns about the pilot
        self.tmgr.publish(rpc.CONTROL_PUBSUB,
                          {'cmd': 'add_pilots',
                           'arg': {'pilots': self.pilot_docs,
                                   'tmgr': 'tmgr.0000'}})

    def alive(self):
        dead = [n for n, t in self.loops.items() if not t.is_alive()]
        if self.pair.thread and not self.pair.thread.is_alive():
            dead.append('agent_sched_child')
        ex = self.executor.comp
        for attr in ('_watcher', '_to_thread'):
            t = getattr(ex, attr, None)
            if t is not None and not t.is_alive():
                dead.append('executor.' + attr)
        return dead

    def stop(self):
        for comp in self.components.values():
            comp._term.set()
        self.pair.child._term.set()
        self.executor.stop()
        for t in self.loops.values():
            t.join(timeout=2)
        if self.pair.thread:
            self.pair.thread.join(timeout=2)
        import signal
        for t in list(getattr(self.executor.comp, '_tasks', {}).values()):
            p = t.get('proc')
            if p:
                try: os.killpg(p.pid, signal.SIGKILL)
                except OSError: pass
        m_ebase.time = time
        m_sbase.time = time
        self.env.close()


class _Scaled(object):
    def __init__(self, cap):
        self.cap = cap
    def sleep(self, dt):
        time.sleep(min(dt, self.cap))
    def __getattr__(self, name):
        return getattr(time, name)
