'''
Executor histories: the real Popen / NOOP executing component with real child
processes over the threaded in-memory transport, hostile timing, and a
per-uid event record extracted from the transport log (boundary events only).

Reach: scripted endings (exit 0 / exit k / killed by a signal / long runner), cancel requests at
every point of a task's life (before intake, during spawn - before and after
the process exists -, while running, racing the exit), run-time limits racing
the exit, launch failures at every step of `_handle_task`, several tasks per
bulk, plus thread-schedule perturbation (tiny switch interval, sys.monitoring
LINE callbacks in the executor's functions with seeded sleeps, and targeted
delay points located by source pattern).
'''

import os
import sys
import time
import signal
import inspect
import random
import threading as mt

from .harness  import rp, ru, rps, rpc
from .agentkit import AgentEnv, Executor, exec_task

import radical.pilot.agent.executing.popen as m_popen      # noqa
import radical.pilot.agent.executing.base  as m_ebase      # noqa
import radical.pilot.agent.executing.noop  as m_noop       # noqa

_real_sp    = m_popen.sp
_real_sleep = time.sleep

POISON_POINTS = ['find_launcher', 'exec_script', 'launch_script', 'popen',
                 'handle_timeout']      # the last one: after the spawn
TARGETS = {
    # name: (function, source pattern of the line to delay *before*)
    'cancel_after_poll'  : ('cancel_task',    'if exit_code is not None'),
    'cancel_before_lock' : ('cancel_task',    'with self._check_lock'),
    'cancel_before_kill' : ('cancel_task',    'launcher = self._rm.get_launcher'),
    'check_before_lock'  : ('_check_running', 'with self._check_lock'),
    'check_after_poll'   : ('_check_running', 'if exit_code is not None'),
    'launch_before_watch': ('_launch_task',   'self._watch_queue.put'),
    'launch_before_late' : ('_launch_task',   'no cancellation request sneaked'),
    'work_before_handle' : ('work',           'self._handle_task(task)'),
}


class Poison(Exception):
    pass


# ------------------------------------------------------------------------------
#
class _ScaledTime(object):
    '''`time` shim for executing/base.py: its 1 s idle sleep becomes 20 ms'''
    def sleep(self, dt):
        _real_sleep(min(dt, 0.02))
    def __getattr__(self, name):
        return getattr(time, name)


class _CountingLock(object):
    '''proxy around a lock which one thread takes once per cycle of its loop:
    counts that thread's cycles (its own progress, whatever the machine load)'''

    def __init__(self, lock, fname):
        self._lock, self._fname, self.cycles = lock, fname, 0

    def __enter__(self):
        if sys._getframe(1).f_code.co_name == self._fname:
            self.cycles += 1
        return self._lock.__enter__()

    def __exit__(self, *a):
        return self._lock.__exit__(*a)

    def acquire(self, *a, **k): return self._lock.acquire(*a, **k)
    def release(self):          return self._lock.release()


class _SpProxy(object):
    '''`sp` shim for popen.py: hooks around the real subprocess.Popen'''

    def __init__(self, sim):
        self.sim = sim

    def Popen(self, *args, **kwargs):
        path = kwargs.get('args') or (args[0] if args else '')
        uid  = os.path.basename(str(path)).replace('.launch.sh', '')
        sim  = self.sim
        spec = sim.specs.get(uid, {})
        if spec.get('poison') == 'popen':
            sim.hits.add('poison:popen')
            if spec.get('cancel') == 'at_poison' and \
                    uid not in sim.cancel_requested:
                sim.cancel([uid], wait=True)
                sim.hits.add('cancel:at_poison')
            raise Poison('spawn failed for %s' % uid)
        if spec.get('cancel') == 'in_spawn_before':
            sim.cancel([uid], wait=True)
            sim.hits.add('cancel:in_spawn_before')
        proc = _real_sp.Popen(*args, **kwargs)
        sim.pids[uid] = proc.pid
        sim.spawned_at[uid] = time.time()
        if spec.get('cancel') == 'in_spawn_after':
            sim.cancel([uid], wait=True)
            sim.hits.add('cancel:in_spawn_after')
        return proc

    def __getattr__(self, name):
        return getattr(_real_sp, name)


# ------------------------------------------------------------------------------
#
class Perturb(object):
    '''seeded sleeps at statement starts of the executor's functions'''

    TOOL = 3

    def __init__(self, seed, prob, target=None, target_delay=0.0,
                 on_target=None, funcs=None, on_line=None):
        self.on_target = on_target
        self.on_line   = on_line     # called at every statement start
        self.rngs   = dict()
        self.seed   = seed
        self.prob   = prob
        self.target = None
        self.delay  = target_delay
        self.hit    = 0
        self.events = 0
        self.active = False
        self.codes  = list()
        self.note   = None
        mon = getattr(sys, 'monitoring', None)
        if mon is None:
            self.note = 'sys.monitoring unavailable: no LINE injection'
            return
        funcs = funcs or [m_popen.Popen.cancel_task,
                          m_popen.Popen._check_running,
                          m_popen.Popen._launch_task, m_popen.Popen.work,
                          m_popen.Popen._handle_task]
        if target:
            fname, pattern = TARGETS[target]
            fn = getattr(m_popen.Popen, fname)
            try:
                lines, start = inspect.getsourcelines(fn)
                for i, line in enumerate(lines):
                    if pattern in line:
                        ln = start + i
                        # a comment line never fires: use the next statement
                        while lines[ln - start].lstrip().startswith('#'):
                            ln += 1
                        self.target = (fn.__code__, ln)
                        break
            except (OSError, TypeError):
                pass
            if self.target is None:
                self.note = 'target pattern %r not found: random injection ' \
                            'only' % pattern
        try:
            mon.use_tool_id(self.TOOL, 'rpverif')
        except ValueError:
            pass
        mon.register_callback(self.TOOL, mon.events.LINE, self._line)
        for fn in funcs:
            code = fn.__code__
            mon.set_local_events(self.TOOL, code, mon.events.LINE)
            self.codes.append(code)
        self.active = True

    def _rng(self):
        name = mt.current_thread().name
        if name not in self.rngs:
            self.rngs[name] = random.Random('%s/%s' % (self.seed, name))
        return self.rngs[name]

    def _line(self, code, line):
        self.events += 1
        if self.on_line:
            try:
                self.on_line(code, line)
            except Exception:
                pass
        if self.target and self.target == (code, line):
            self.hit += 1
            if self.on_target:
                try:
                    loc = sys._getframe(1).f_locals
                    uid = loc.get('tid') or (loc.get('task') or {}).get('uid')
                    self.on_target(uid)
                except Exception:
                    pass
            _real_sleep(self.delay)
            return
        r = self._rng()
        if r.random() < self.prob:
            _real_sleep(r.choice([0, 0, 0.0003, 0.001, 0.003]))

    def stop(self):
        mon = getattr(sys, 'monitoring', None)
        if mon is None or not self.active:
            return
        for code in self.codes:
            mon.set_local_events(self.TOOL, code, 0)
        mon.register_callback(self.TOOL, mon.events.LINE, None)
        try:
            mon.free_tool_id(self.TOOL)
        except ValueError:
            pass
        self.active = False


# ------------------------------------------------------------------------------
#
def gen_case(rng, spawner='POPEN'):

    n = rng.randint(1, 6)
    tasks = list()
    for i in range(n):
        ending = rng.choice(['ok', 'ok', 'exit', 'long', 'long', 'ok_slow',
                             'signal'])
        dur    = rng.choice([0, 0, 0.05, 0.1, 0.2, 0.3])
        spec   = {'uid': 't.%d' % i, 'ending': ending, 'dur': dur,
                  'code': rng.choice([1, 2, 3, 42]) if ending == 'exit' else 0,
                  'sig': rng.choice(['TERM', 'KILL', 'HUP', 'SEGV']),
                  'cancel': None, 'cancel_at': None, 'timeout': 0.0,
                  'poison': None, 'bulk': rng.randint(0, 1)}
        r = rng.random()
        if r < 0.14:
            spec['poison'] = rng.choice(POISON_POINTS)
            if rng.random() < 0.35:
                # a cancel request for the task is delivered right before the
                # launch step fails: it is pending when the error is handled
                # (or, for a step after the spawn, served completely already)
                spec['cancel'] = 'at_poison'
                spec['served'] = rng.random() < 0.5
        elif r < 0.60 or ending == 'long':
            k = rng.choice(['before_intake', 'in_spawn_before',
                            'in_spawn_after', 'running', 'running',
                            'race_exit', 'timeout', 'timeout_race',
                            'after_exit'])
            if ending == 'long' and k in ('race_exit', 'after_exit',
                                          'timeout_race'):
                k = 'running'
            if k in ('timeout', 'timeout_race'):
                spec['timeout'] = 0.25 if k == 'timeout' else \
                                  max(0.12, dur + rng.choice([-0.03, 0, 0.03]))
                if ending != 'long' and k == 'timeout':
                    spec['ending'], spec['dur'] = 'long', 0
            else:
                spec['cancel'] = k
                if k in ('in_spawn_before', 'in_spawn_after') and \
                        rng.random() < 0.3:
                    # the kill command of the launch method fails when the
                    # late cancel check of the work routine uses it
                    spec['cancel_fault'] = True
                if k == 'running':
                    spec['cancel_at'] = rng.choice([0.02, 0.08, 0.2])
                    if rng.random() < 0.25:
                        spec['kill_fault'] = True
                elif k == 'race_exit':
                    spec['cancel_at'] = max(0.0, dur + rng.choice(
                                            [-0.03, -0.01, 0, 0.01, 0.03]) + 0.04)
                elif k == 'after_exit':
                    spec['cancel_at'] = dur + 0.4
        tasks.append(spec)

    target = rng.choice([None, None] + sorted(TARGETS))
    if target and not target.startswith('cancel_') and rng.random() < 0.7:
        # one task gets its cancel request exactly when the targeted line of
        # the executor is about to run for it
        cands = [t for t in tasks if not t['poison']]
        if cands:
            t = rng.choice(cands)
            t.update({'cancel': 'at_target', 'cancel_at': None, 'timeout': 0.0})
            if t['ending'] == 'long' and target.startswith('check_'):
                t.update({'ending': 'ok', 'dur': 0.05})
    if spawner == 'NOOP':
        # the intake and the collector thread of the NOOP executor share the
        # pending list: many small bulks while earlier tasks are collected
        n = rng.randint(4, 10)
        while len(tasks) < n:
            tasks.append({'uid': 't.%d' % len(tasks), 'ending': 'ok',
                          'dur': rng.choice([0, 0.02, 0.05, 0.1]), 'code': 0,
                          'sig': 'TERM', 'cancel': None, 'cancel_at': None,
                          'timeout': 0.0, 'poison': None, 'bulk': 0})
        for t in tasks:
            t['bulk'] = rng.randint(0, 7)
    target_delay = rng.choice([0.02, 0.06, 0.15])
    if target and target.startswith('cancel_') and rng.random() < 0.7:
        # the cancel handler is delayed at the targeted line: make the
        # process of one task exit (and be collected by the watcher) right
        # inside that window, or let its run-time limit fire there too
        cands = [t for t in tasks if not t['poison']]
        if cands:
            t   = rng.choice(cands)
            dur = rng.choice([0.1, 0.2, 0.3])
            t.update({'ending': rng.choice(['ok', 'exit']), 'dur': dur,
                      'cancel': 'race_exit', 'timeout': 0.0,
                      'cancel_at': max(0.0, dur + 0.04 - target_delay *
                                            rng.choice([0.3, 0.5, 0.8]))})
            t['code'] = 3 if t['ending'] == 'exit' else 0
            t.pop('cancel_fault', None)
            if rng.random() < 0.3:
                # ... and its run-time limit expires in the same window
                t['timeout'] = max(0.12, t['cancel_at'])
    if spawner == 'POPEN' and rng.random() < 0.2:
        # tasks with a start-up limit: their launch scripts report "started"
        # over the control channel (here: the harness does, at the scripted
        # time, for all of them in one burst - as the ranks of one bulk do);
        # the limit then ends, unless a run-time limit takes over
        cands = [t for t in tasks if not t['poison'] and not t['cancel']
                 and not t['timeout'] and t['ending'] != 'long']
        if len(cands) < 2:
            for _ in range(2):
                tasks.append({'uid': 't.%d' % len(tasks), 'ending': 'ok',
                              'dur': rng.choice([0.2, 0.3]), 'code': 0,
                              'sig': 'TERM', 'cancel': None, 'cancel_at': None,
                              'timeout': 0.0, 'poison': None, 'bulk': 0})
            cands = tasks[-2:]
        b = cands[0]['bulk']
        for t in cands[:3]:
            t.update({'startup': 'reported', 'bulk': b,
                      'dur': max(t['dur'], 0.2)})
        if rng.random() < 0.5:
            # a start-up limit AND a (generous) run-time limit: the process
            # outlives the start-up limit, which ended when it reported
            t = cands[0]
            # (limits in seconds are wall clock inside the executor: wide
            # enough that a loaded machine does not deliver the report late)
            t.update({'ending': 'ok', 'code': 0, 'dur': 4.0,
                      'startup_limit': 3.0, 'timeout': 15.0,
                      'timeout_generous': True})
        # a later task with a run-time limit which does not end on its own
        tasks.append({'uid': 't.%d' % len(tasks), 'ending': 'hang', 'dur': 0,
                      'code': 0, 'sig': 'TERM', 'cancel': None,
                      'cancel_at': None, 'timeout': 0.25, 'poison': None,
                      'bulk': b + 2})
    return {'seed'   : rng.randint(0, 2 ** 30),
            'spawner': spawner,
            'tasks'  : tasks,
            'perturb': rng.choice([0.0, 0.02, 0.1]),
            'target' : target,
            'target_delay': target_delay,
            'switch' : rng.choice([None, 1e-5, 1e-4])}


# ------------------------------------------------------------------------------
#
class ExecSim(object):

    WATCHDOG = 120.0     # hard wall-clock limit: firing is inconclusive, never
                         # a verdict.  "Left behind" is decided by idleness:
                         # no process of the history alive, nothing queued and
                         # no transport event for IDLE_POLLS x 50 ms
    IDLE_POLLS = 100

    def __init__(self, workdir, case):

        self.case  = case
        self.specs = {t['uid']: t for t in case['tasks']}
        self.pids  = dict()
        self.spawned_at = dict()
        self.hits  = set()
        self.cancel_requested = dict()     # uid -> seq of the request
        self.startup_late     = set()      # 'started' reported (too) late
        self.cancel_faults    = set()      # uids whose late-cancel kill raised
        self.notes = list()

        self.env = AgentEnv(workdir, {'nodes': 1, 'cores_per_node': 8,
                                      'gpus_per_node': 0},
                            seed=case['seed'], mode='threaded',
                            spawner=case['spawner'])
        self._old_switch = sys.getswitchinterval()
        if case.get('switch'):
            sys.setswitchinterval(case['switch'])

        m_popen.sp   = _SpProxy(self)
        m_ebase.time = _ScaledTime()

        self.perturb = None
        if case['spawner'] == 'NOOP' and case.get('perturb'):
            # the NOOP executor's intake (work) and its collector thread share
            # the list of pending tasks: perturb both.  The collector is ONE
            # long-running frame started by the constructor: instrument its
            # code before that (a running frame picks instrumentation up late)
            import radical.pilot.agent.executing.noop as m_noop
            self.perturb = Perturb(case['seed'], 0.5,
                                   funcs=[m_noop.NOOP._collect,
                                          m_noop.NOOP.work])
            if self.perturb.note:
                self.notes.append(self.perturb.note)

        # exceptions which end a thread of the executor
        self.thread_errors = list()
        self._old_hook = mt.excepthook

        def hook(args, _self=self):
            _self.thread_errors.append((getattr(args.thread, 'name', '?'),
                                        repr(args.exc_value)))
        mt.excepthook = hook

        self.ex   = Executor(self.env, start=False)
        comp      = self.ex.comp
        self.comp = comp
        comp.rp_ctrl = '/bin/true'     # the harness reports task start-up
        if hasattr(comp, '_to_lock'):
            comp._to_lock = _CountingLock(comp._to_lock, '_to_watcher')
        if case['spawner'] == 'NOOP':
            comp._delay = 0.02
        self._install_poison(comp)

        if case['spawner'] == 'POPEN' and \
                (case.get('perturb') or case.get('target')):
            self.perturb = Perturb(case['seed'], case.get('perturb', 0.0),
                                   case.get('target'),
                                   case.get('target_delay', 0.05),
                                   on_target=self._on_target)
            if self.perturb.note:
                self.notes.append(self.perturb.note)

        # work loop thread (what `start()` does, minus its fixed sleeps)
        self.loop = mt.Thread(target=self._work_loop, daemon=True,
                              name='exec-work')
        self.loop_errors = list()
        self.loop.start()

    def _work_loop(self):
        comp = self.comp
        while not comp._term.is_set():
            try:
                comp.work_cb()
            except BaseException as e:       # `_work_loop` ignores these too
                self.loop_errors.append(repr(e))
            _real_sleep(0.001)

    def _on_target(self, uid):
        '''the targeted line is about to run for `uid`'''
        self.hits.add('target:%s' % self.case.get('target'))
        spec = self.specs.get(uid)
        if spec and spec.get('cancel') == 'at_target' and \
                uid not in self.cancel_requested:
            self.hits.add('cancel:at_target:%s' % self.case.get('target'))
            self.cancel([uid], wait=True)

    # -- launch failures -------------------------------------------------------
    def _install_poison(self, comp):
        sim = self

        def wrap(obj, name, point, uid_of):
            orig = getattr(obj, name)
            def wrapped(*a, **k):
                uid = uid_of(*a, **k)
                if sim.specs.get(uid, {}).get('poison') == point:
                    sim.hits.add('poison:' + point)
                    if sim.specs[uid].get('cancel') == 'at_poison' and \
                            uid not in sim.cancel_requested:
                        sim.cancel([uid], wait=True)
                        sim.hits.add('cancel:at_poison')
                        if point == 'handle_timeout' and \
                                sim.specs[uid].get('served'):
                            # the process exists already: in these histories
                            # the request is served completely (the task is
                            # killed and handed over by the control thread)
                            # before the launch step fails
                            end = time.time() + 3.0
                            while time.time() < end and \
                                    not sim.records()[uid]['handovers']:
                                _real_sleep(0.005)
                            sim.hits.add('cancel:served_before_launch_fault')
                    raise Poison('%s failed for %s' % (point, uid))
                return orig(*a, **k)
            setattr(obj, name, wrapped)

        if sim.case['spawner'] == 'POPEN':
            wrap(comp._rm, 'find_launcher', 'find_launcher',
                 lambda task: task['uid'])
            wrap(comp, '_create_exec_script', 'exec_script',
                 lambda launcher, task: task['uid'])
            wrap(comp, '_create_launch_script', 'launch_script',
                 lambda launcher, task, exec_path: task['uid'])
            wrap(comp, 'handle_timeout', 'handle_timeout',
                 lambda task: task['uid'])

            # a fault in the cancel path, only where it is part of the work
            # routine (the late cancel check of `_launch_task`): the launch
            # method's kill command raises.  Calls from the control thread
            # are passed through unharmed.
            for lm in list(getattr(comp._rm, '_launchers', {}).values()):
                def faulty(task, pid, _orig=lm.cancel_task):
                    uid = task['uid']
                    if sim.specs.get(uid, {}).get('cancel_fault') and \
                            mt.current_thread().name == 'exec-work':
                        sim.hits.add('poison:late_cancel_kill')
                        sim.cancel_faults.add(uid)
                        raise Poison('kill command failed for %s' % uid)
                    if sim.specs.get(uid, {}).get('kill_fault') and \
                            mt.current_thread().name != 'exec-work':
                        # the kill command fails for a running task (cancel
                        # request or run-time limit): the executor has its own
                        # fallback, the task is canceled all the same
                        sim.hits.add('fault:kill_command')
                        raise Poison('kill command failed for %s' % uid)
                    return _orig(task, pid)
                lm.cancel_task = faulty
        else:
            orig = comp._handle_task
            def handle(task):
                orig(task)
                if sim.specs.get(task['uid'], {}).get('poison'):
                    sim.hits.add('poison:noop_handle')
                    raise Poison('handling failed for %s' % task['uid'])
            comp._handle_task = handle

    # -- driver ----------------------------------------------------------------
    def cancel(self, uids, wait=False, until_gone=False):
        ev = None
        for u in uids:
            self.cancel_requested.setdefault(u, self.env.net.seq)
        # a cancel request is addressed to all pilots: in a third of the
        # histories it also names - first - a task this executor does not hold
        # (it runs elsewhere, or it is done and collected already)
        names = list(uids)
        if self.case.get('seed', 0) % 3 == 0:
            names = ['task.not_here.%04d' % (self.case['seed'] % 97)] + names
            self.hits.add('cancel_names_foreign_uid_first')
        self.env.publish(rpc.CONTROL_PUBSUB, {'cmd': 'cancel_tasks',
                                              'arg': {'uids': names}})
        if not wait:
            return
        t0 = time.time()
        while time.time() - t0 < 5:
            with self.comp._cancel_lock:
                seen = all(u in self.comp._cancel_list for u in uids)
            gone = all(u not in self.comp._tasks for u in uids) \
                   if until_gone and hasattr(self.comp._tasks, 'keys') else True
            if (seen or until_gone) and gone:
                return
            _real_sleep(0.002)

    def run(self):

        case  = self.case
        sbox  = self.env.workdir
        tds   = dict()
        for t in case['tasks']:
            if t['ending'] in ('ok', 'ok_slow'):
                args = ['-c', 'sleep %s; exit 0' % t['dur']]
            elif t['ending'] == 'exit':
                args = ['-c', 'sleep %s; exit %d' % (t['dur'], t['code'])]
            elif t['ending'] == 'signal':
                # the whole process group of the task (launch script incl.)
                # is killed by a signal RP did not send
                args = ['-c', 'sleep %s; kill -%s 0; sleep 5; exit 0'
                              % (t['dur'], t.get('sig', 'TERM'))]
            elif t['ending'] == 'hang':
                # does not end on its own: only its run-time limit ends it
                args = ['-c', 'sleep 600; exit 0']
            else:
                args = ['-c', 'sleep 6; exit 0']
            exe = '/bin/sh'
            if case['spawner'] == 'NOOP':
                exe, args = '/bin/sleep', [str(min(t['dur'], 0.3))]
            kw = dict()
            if t.get('startup'):
                kw['startup_timeout'] = t.get('startup_limit', 3.0)
            tds[t['uid']] = exec_task(t['uid'], sbox, executable=exe,
                                      arguments=args, timeout=t['timeout'],
                                      **kw)

        early = [t['uid'] for t in case['tasks']
                 if t['cancel'] == 'before_intake']
        if early:
            self.cancel(early, wait=True)
            self.hits.add('cancel:before_intake')

        t0     = time.time()
        events = list()
        for b in sorted({t['bulk'] for t in case['tasks']}):
            uids = [t['uid'] for t in case['tasks'] if t['bulk'] == b]
            gap = 0.15 if case['spawner'] != 'NOOP' else 0.037
            events.append((gap * b, 'bulk', uids))
            for t in case['tasks']:
                if t['bulk'] == b and t['cancel_at'] is not None:
                    events.append((0.15 * b + t['cancel_at'], 'cancel',
                                   [t['uid']]))
            started = [t['uid'] for t in case['tasks']
                       if t['bulk'] == b and t.get('startup') == 'reported']
            if started:
                events.append((gap * b + 0.12, 'startup', started))
        for when, what, uids in sorted(events, key=lambda e: e[0]):
            dt = when - (time.time() - t0)
            if dt > 0:
                _real_sleep(dt)
            if what == 'bulk':
                if case.get('hold_watcher') and \
                        hasattr(self.comp, '_check_running'):
                    # the watcher is held up in its pass (as by a slow
                    # hand-over downstream) until the whole bulk is spawned:
                    # everything the intake started waits for one take-over
                    hold  = mt.Event()
                    inner = self.comp._check_running
                    def held(to_watch, inner=inner, hold=hold):
                        hold.wait(timeout=30)
                        return inner(to_watch)
                    self.comp._check_running = held
                    def release(uids=uids, hold=hold):
                        end = time.time() + 30
                        while time.time() < end and \
                                not all(u in self.pids for u in uids):
                            _real_sleep(0.005)
                        _real_sleep(0.05)
                        hold.set()
                    mt.Thread(target=release, daemon=True,
                              name='watcher-release').start()
                    self.hits.add('watcher_held')
                self.env.put(rpc.AGENT_EXECUTING_QUEUE, [tds[u] for u in uids])
            elif what == 'startup':
                # what `$RP_CTRL <sid> task_startup_done uid=<uid>` of the
                # tasks' scripts sends - i.e. not before their processes exist
                def report(uids=uids):
                    end = time.time() + 10
                    while time.time() < end and \
                            not all(u in self.pids for u in uids):
                        _real_sleep(0.002)
                    _real_sleep(0.03)     # the script reaches its report line
                    for u in uids:
                        # on a loaded machine the report may come too late:
                        # the executor then enforces the limit, rightly
                        lim = self.specs[u].get('startup_limit', 3.0)
                        if time.time() - self.spawned_at.get(u, 0) > 0.3 * lim:
                            self.startup_late.add(u)
                        self.env.publish(rpc.CONTROL_PUBSUB,
                                         {'cmd': 'task_startup_done',
                                          'arg': {'uid': u}})
                    self.hits.add('startup_reported')
                mt.Thread(target=report, daemon=True,
                          name='startup-report').start()
            else:
                self.cancel(uids)
                for u in uids:
                    self.hits.add('cancel:' + self.specs[u]['cancel'])

        # settle: every uid handed over (or dropped at intake), or watchdog
        deadline = time.time() + self.WATCHDOG
        stable   = 0
        idle     = 0
        last_seq = -1
        marks = dict()      # uid -> watcher cycles when its limit had passed
        while time.time() < deadline:
            rec = self.records()
            # a process which does not end on its own is ended by its run-time
            # limit: decided in cycles of the timeout watcher, not in seconds
            tol = getattr(self.comp, '_to_lock', None)
            for t in case['tasks']:
                u = t['uid']
                if t['ending'] != 'hang' or not t['timeout'] or \
                        u not in self.spawned_at or rec[u]['handovers'] or \
                        not isinstance(tol, _CountingLock) or \
                        'limit-not-enforced:%s' % u in self.notes:
                    continue
                if time.time() > self.spawned_at[u] + t['timeout'] + 0.3:
                    if u not in marks:
                        marks[u] = tol.cycles
                    elif tol.cycles > marks[u] + 500:
                        self.notes.append('limit-not-enforced:%s' % u)
                        try:
                            os.killpg(self.pids[u], signal.SIGKILL)
                        except OSError:
                            pass
            if all(r['handovers'] or r['dropped'] for r in rec.values()):
                stable += 1
                if stable >= 8:          # let stragglers (double hand-overs) show
                    break
            # nothing runs any more and nothing moved for 3 s: whatever has
            # not been handed over by now never will be
            busy = any(self.alive(p) for p in list(self.pids.values())) or \
                   self.env.net.q_len(self.env.url(rpc.AGENT_EXECUTING_QUEUE))
            seq  = self.env.net.seq - self._idle_noise()
            if busy or seq != last_seq:
                idle, last_seq = 0, seq
            else:
                idle += 1
                if idle >= self.IDLE_POLLS:
                    self.notes.append('idle-exit')
                    break
            _real_sleep(0.05)
        else:
            self.notes.append('watchdog')
        return self.records()

    def dead_threads(self):
        '''threads of the executor which are not running any more although
        the component was not stopped'''
        dead = list()
        for attr in ('_watcher', '_to_thread', '_collector'):
            t = getattr(self.comp, attr, None)
            if isinstance(t, mt.Thread) and not t.is_alive() and \
                    not self.comp._term.is_set():
                dead.append(attr)
        return dead

    def _idle_noise(self):
        '''the watcher publishes an empty unschedule list every 50 ms'''
        with self.env.net.lock:
            return sum(1 for e in self.env.net.log
                       if e['kind'] in ('pub', 'deliver') and
                          e['url'].endswith(rpc.AGENT_UNSCHEDULE_PUBSUB) and
                          not e['payload'])

    # -- per uid event record from the transport log ---------------------------
    def records(self):

        net = self.env.net
        rec = {u: {'uid': u, 'accepted': False, 'dropped': False,
                   'starts': 0, 'handovers': [], 'unschedules': 0,
                   'order': []} for u in self.specs}
        with net.lock:
            log = list(net.log)
        for ev in log:
            chan = ev['url'].rsplit('/', 1)[-1]
            if ev['kind'] == 'get' and chan == rpc.AGENT_EXECUTING_QUEUE \
                    and ev['who'] != 'driver':
                for t in ev['payload']:
                    rec[t['uid']]['accepted'] = True
            elif ev['kind'] == 'pub' and chan == rpc.STATE_PUBSUB:
                msg = ev['payload']
                if msg.get('cmd') != 'update':
                    continue
                for t in ru.as_list(msg.get('arg')):
                    r = rec.get(t.get('uid'))
                    if not r:
                        continue
                    st = t.get('state')
                    if st == rps.AGENT_EXECUTING:
                        r['starts'] += 1
                        r['order'].append('start')
                    elif st in (rps.FAILED, rps.CANCELED):
                        kind = 'advance:%s' % st
                        r['handovers'].append({'kind': kind, 'seq': ev['seq'],
                                               'exception': t.get('exception')})
                        r['order'].append(kind)
            elif ev['kind'] == 'put' and chan == rpc.AGENT_STAGING_OUTPUT_QUEUE:
                for t in ev['payload']:
                    r = rec.get(t['uid'])
                    if r:
                        r['handovers'].append(
                                {'kind': 'staging', 'seq': ev['seq'],
                                 'target_state': t.get('target_state'),
                                 'exit_code': t.get('exit_code')})
                        r['order'].append('staging')
            elif ev['kind'] == 'pub' and chan == rpc.AGENT_UNSCHEDULE_PUBSUB:
                for t in ru.as_list(ev['payload']):
                    r = rec.get(t.get('uid'))
                    if r:
                        r['unschedules'] += 1
                        r['order'].append('unschedule')
        for u, r in rec.items():
            # a task canceled by the intake filter never reaches `work()`
            if r['accepted'] and not r['starts'] and \
               [h['kind'] for h in r['handovers']] == ['advance:CANCELED'] \
               and u in self.cancel_requested:
                r['dropped'] = True
            r['pid']       = self.pids.get(u)
            r['cancel_req'] = u in self.cancel_requested or \
                              u in self.startup_late or \
                              (bool(self.specs[u]['timeout']) and
                               not self.specs[u].get('timeout_generous'))
        return rec

    def alive(self, pid, grace=0.0):
        '''
        is any non-zombie process of the launch process' group (the launch
        script runs in its own session) still around
        '''
        if pid is None:
            return False
        t0 = time.time()
        while True:
            live = False
            try:
                os.killpg(pid, 0)
                for d in os.listdir('/proc'):
                    if not d.isdigit():
                        continue
                    try:
                        with open('/proc/%s/stat' % d) as fin:
                            f = fin.read().rsplit(')', 1)[-1].split()
                        if int(f[2]) == pid and f[0] != 'Z':
                            live = True
                            break
                    except (OSError, ValueError, IndexError):
                        continue
            except OSError:
                live = False
            if not live or time.time() - t0 >= grace:
                return live
            _real_sleep(0.02)

    def close(self):
        try:
            if self.perturb:
                self.perturb.stop()
            self.ex.stop()
            self.loop.join(timeout=3)
            for pid in list(self.pids.values()):
                try:
                    os.killpg(pid, signal.SIGKILL)
                except OSError:
                    pass
        finally:
            mt.excepthook = self._old_hook
            sys.setswitchinterval(self._old_switch)
            m_popen.sp   = _real_sp
            m_ebase.time = time
            self.env.close()
