'''
C05 - Every submitted task ends in one final state that tells the truth.

Monitor: scripted truth per task against what the application observes
(Task.state / exit_code / exception and the TASK_STATE callback sequence) at
the end of histories run through the mini pilot (rpverif/minipilot.py): the
real client and agent pipelines with real processes, real files, the real
crosswire between the sides, and faults placed in every component.
'''

import os
import time
import shutil
import threading as mt

from ..core      import Result, digest
from ..harness   import rp, ru, rps, rpc, make_td
from ..harness import FINAL_STATES
from ..minipilot import MiniPilot

ID     = 'C05'
LEVEL  = 'fault_enumeration'
MANIFEST = {
    'technique': 'runtime monitoring: scripted-truth oracle on Task objects and '
                 'callback sequences at the end of mini-pilot histories (real '
                 'client + agent pipelines, real processes/files) with faults '
                 'enumerated per component',
    'text': 'Each history submits 3-8 tasks whose fate is scripted (exit 0, '
            'exit k, poison in the per-task routine of tmgr scheduler / tmgr '
            'stage-in / agent stage-in / agent scheduler / executor (launcher '
            'lookup, script creation) / agent stage-out / tmgr stage-out, a '
            'whole work routine raising, no usable launcher, request that '
            'cannot fit the pilot, cancel at several times, run-time limit) '
            'and a second wave of healthy tasks afterwards.  Oracle: every '
            'task reaches exactly one final state; DONE iff exit 0 and no '
            'fault; FAILED with exit code / exception otherwise; CANCELED only '
            'if requested; all component threads alive; the second wave '
            'completes.'
            '  Second session: endings include a process group killed by a signal RP did not send (must end FAILED with a non-zero exit code); waits are activity based (no transport event for 12 s after the budget = stuck, busy at 240 s = inconclusive).'
            '  Third session: fate cancel_exit sends the cancel request when the task process is just ending (its last action is a marker file; the request follows 4-45 ms later), i.e. between exit and collection by the executor; deliveries of the executor\'s periodic empty publication do not count as activity.'
            '  A third of the histories submit before / while the task manager learns about its pilots, with tasks which name their pilot (early binding).',
    'note': 'threads and processes are real (statistical reproduction); '
            '"eventually final" is restated as: final before a generous '
            'watchdog while nothing is running any more; the PMGR/bootstrap '
            'side, raptor masters and remote staging are outside the mini '
            'pilot; Agent_0 contributes its two relay callbacks only.'}
RULE   = ('seeded histories: fates drawn per task from 20 kinds, faults cover '
          'all 8 components; non-trivial = at least one fault/cancel actually '
          'hit; distinct = digest of (fates, final states).')
ASSUMPTIONS = ['when a whole work routine raises, the base class fails every '
               'task of that bulk (documented in BaseComponent.work_cb): '
               'bystanders of the same bulk may then end FAILED with the '
               'exception recorded',
               'a cancel/timeout may lose the race against completion: then '
               'the truthful outcome is accepted']
SHARDS   = {'quick': 16, 'thorough': 16}
TIMEOUT  = {'quick': 600, 'thorough': 5400}
REQUIRED = {'tasks_judged': 400, 'set:fault_hits': 8, 'second_wave_ok': 50,
            'set:final_states': 3}

REAL_FAULTS = ['missing_input', 'missing_output']
POINTS = ['tmgr_sched', 'tmgr_stagein', 'agent_stagein', 'agent_sched',
          'exec_find_launcher', 'exec_script', 'agent_stageout',
          'tmgr_stageout']
BULKS  = ['work:agent_stagein', 'work:agent_stageout', 'work:tmgr_stagein']
FATES  = ['ok', 'ok', 'ok', 'exit', 'exit', 'signal', 'no_launcher',
          'unfittable',
          'cancel_early', 'cancel_run', 'cancel_exit', 'timeout',
          'ok_staged', 'ok_staged',
          'missing_input', 'missing_output'] + \
         ['poison:' + p for p in POINTS] + BULKS


def gen_case(rng):
    n = rng.randint(3, 8)
    tasks = list()
    for i in range(n):
        fate = rng.choice(FATES)
        tasks.append({'uid': 't.%02d' % i, 'fate': fate,
                      'code': rng.choice([1, 2, 7, 42]),
                      'sig': rng.choice(['TERM', 'KILL', 'HUP', 'SEGV']),
                      'dur': rng.choice([0, 0, 0.05, 0.2]),
                      'at': rng.choice([0.0, 0.05, 0.2, 0.5]),
                      'jit': rng.choice([0.004, 0.008, 0.012, 0.016, 0.02,
                                         0.03, 0.045])})
    # cancel requests which are pending in some component's list when the
    # whole bulk it pulls fails there: a quarter of the histories are built
    # for that coincidence (one failing work routine, several requests at
    # closely spaced times, so that one of them meets the tasks right there)
    if rng.random() < 0.25:
        n = max(n, 5)
        while len(tasks) < n:
            tasks.append({'uid': 't.%02d' % len(tasks), 'fate': 'ok',
                          'code': 1, 'sig': 'TERM', 'dur': 0, 'at': 0.0})
        tasks[0]['fate'] = rng.choice(BULKS)
        for t, at in zip(tasks[1:], [0.0, 0.004, 0.01, 0.02, 0.04, 0.08]):
            if rng.random() < 0.8:
                t['fate'], t['at'] = 'cancel_early', at
        rng.shuffle(tasks)
    case = {'seed': rng.randint(0, 2 ** 30), 'tasks': tasks,
            'submit': rng.choice(['bulk', 'bulk', 'split']),
            'pilots': rng.choice([1, 1, 2, 3])}
    # a third of the histories: the application submits before / while the
    # task manager learns about its pilots, and some tasks name their pilot
    case['late_pilots'] = rng.random() < 0.33
    if case['late_pilots']:
        case['announce_after'] = rng.choice([0, 0, 0.001, 0.005, 0.02])
        for t in tasks:
            if rng.random() < 0.5:
                t['bind'] = rng.randrange(case['pilots'])
    return case


def describe(t, root):
    fate = t['fate']
    kw = {'uid': t['uid'], 'executable': '/bin/sh',
          'arguments': ['-c', 'sleep %s; exit 0' % t['dur']]}
    if fate == 'exit':
        kw['arguments'] = ['-c', 'sleep %s; exit %d' % (t['dur'], t['code'])]
    elif fate == 'signal':
        # the task's whole process group (launch script included) is killed
        # by a signal nobody in RP sent (OOM killer, admin, the job itself)
        kw['arguments'] = ['-c', 'sleep %s; kill -%s 0; sleep 5; exit 0'
                                 % (t['dur'], t.get('sig', 'TERM'))]
    elif fate == 'cancel_exit':
        # the request is sent when the process is just ending (the marker is
        # its last action): it meets the executor between the exit and the
        # collection of the process
        kw['arguments'] = ['-c', 'sleep %s; : > %s/exitmark.%s; exit 0'
                                 % (t['dur'], root, t['uid'])]
    elif fate in ('cancel_run', 'timeout'):
        kw['arguments'] = ['-c', 'sleep 8; exit 0']
        if fate == 'timeout':
            kw['timeout'] = 0.3
    elif fate == 'no_launcher':
        kw['ranks'] = 2
    elif fate == 'unfittable':
        kw['cores_per_rank'] = 64
    elif fate == 'missing_input':
        # real fault: the client side file to transfer does not exist
        kw['input_staging'] = [{'source': 'client:///nope.%s' % t['uid'],
                                'target': 'task:///in.%s' % t['uid'],
                                'action': rp.TRANSFER}]
    elif fate == 'missing_output':
        # real fault: the task does not produce the file to fetch
        kw['output_staging'] = [{'source': 'task:///nope.%s' % t['uid'],
                                 'target': 'client:///out.%s' % t['uid'],
                                 'action': rp.TRANSFER}]
    elif fate in ('ok_staged', 'poison:tmgr_stagein', 'poison:agent_stagein',
                  'poison:tmgr_stageout', 'work:tmgr_stagein'):
        # staging directives make the staging routines run for this task
        kw['arguments'] = ['-c', 'cat in.%s > out.%s' % (t['uid'], t['uid'])]
        kw['input_staging']  = [
            {'source': 'client:///in.%s' % t['uid'],
             'target': 'task:///in.%s' % t['uid'],
             'action': rp.TRANSFER if fate != 'poison:agent_stagein'
                       else rp.COPY}]
        if fate == 'poison:agent_stagein':
            kw['input_staging'][0]['source'] = \
                    'file://localhost%s/client/in.%s' % (root, t['uid'])
        kw['output_staging'] = [{'source': 'task:///out.%s' % t['uid'],
                                 'target': 'client:///out.%s' % t['uid'],
                                 'action': rp.TRANSFER}]
        if fate == 'ok_staged' and t.get('at', 0) >= 0.2:
            # an agent-side directive with a relative (schema-less) source:
            # resolved against this task's sandbox by the agent's stager
            kw['output_staging'].append(
                                {'source': 'out.%s' % t['uid'],
                                 'target': 'pilot:///kept.%s' % t['uid'],
                                 'action': rp.COPY})
    return make_td(**kw)


# ------------------------------------------------------------------------------
#
def run_case(ctx, res, case, idx=0):

    wd = os.path.join(ctx.workdir or os.getcwd(), 'mp%04d' % idx)
    os.makedirs(wd, exist_ok=True)
    poison = dict()
    for t in case['tasks']:
        if t['fate'].startswith('poison:'):
            poison[t['uid']] = t['fate'].split(':', 1)[1]
        elif t['fate'].startswith('work:'):
            poison[t['uid']] = t['fate']

    mp = None
    try:
        mp = MiniPilot(wd, seed=case['seed'], poison=poison,
                       pilots=case.get('pilots', 1))
        for t in case['tasks']:
            with open('%s/client/in.%s' % (mp.root, t['uid']), 'w') as f:
                f.write('data of %s\n' % t['uid'])
        mp.start(announce=not case.get('late_pilots'))

        seen = list()
        mp.tmgr.register_callback(lambda task, state:
                                  seen.append((task.uid, state)))

        tds = [describe(t, mp.root) for t in case['tasks']]
        for t, td in zip(case['tasks'], tds):
            if t.get('bind') is not None:
                td.pilot = mp.pids[t['bind'] % len(mp.pids)]
        if case.get('late_pilots'):
            def announce():
                time.sleep(case.get('announce_after', 0))
                mp.announce_pilots()
                mp.hits.add('late_pilots')
            mt.Thread(target=announce, daemon=True).start()
        if case['submit'] == 'bulk':
            tasks = mp.tmgr.submit_tasks(tds)
        else:
            k = max(1, len(tds) // 2)
            tasks = mp.tmgr.submit_tasks(tds[:k])
            time.sleep(0.05)
            tasks += mp.tmgr.submit_tasks(tds[k:])
        by_uid = {t.uid: t for t in tasks}
        res.see('pilots_per_history', case.get('pilots', 1))

        # cancel requests at the end of the process
        def cancel_at_exit(uid, jitter):
            mark = '%s/exitmark.%s' % (mp.root, uid)
            end  = time.time() + 60
            while not os.path.exists(mark) and time.time() < end:
                time.sleep(0.001)
            time.sleep(jitter)
            mp.tmgr.cancel_tasks(uid)
            mp.hits.add('cancel_at_exit')
        for t in case['tasks']:
            if t['fate'] == 'cancel_exit':
                mt.Thread(target=cancel_at_exit, daemon=True,
                          args=[t['uid'], t.get('jit', 0.01)]).start()

        # cancel requests
        t0 = time.time()
        cancels = sorted([(t['at'], t['uid']) for t in case['tasks']
                          if t['fate'] in ('cancel_early', 'cancel_run')])
        for at, uid in cancels:
            if by_uid[uid].description['executable'] and \
               'cancel_run' == [t for t in case['tasks']
                                if t['uid'] == uid][0]['fate']:
                at = max(at, 0.6)        # let it reach the executor
            dt = at - (time.time() - t0)
            if dt > 0:
                time.sleep(dt)
            mp.tmgr.cancel_tasks(uid)
            mp.hits.add('cancel')

        def activity():
            # transport events which carry something (the Popen watcher's
            # periodic empty unschedule publication is not activity)
            with mp.net.lock:
                n = mp.net.seq
                k = getattr(mp.net, '_rpverif_idle_marks', 0)
            return n - k

        def wait_final(ts, limit, idle=12.0, hard=240.0):
            '''True: all final.  False: not final although nothing moved for
            `idle` seconds after `limit` (stuck).  None: still busy at the hard
            limit (inconclusive, a loaded machine)'''
            t_start = time.time()
            last_n, last_t = activity(), time.time()
            while True:
                if all(t.state in FINAL_STATES for t in ts):
                    return True
                now = time.time()
                n = activity()
                if n != last_n:
                    last_n, last_t = n, now
                if now - t_start > limit and now - last_t > idle:
                    return False
                if now - t_start > hard:
                    return None
                time.sleep(0.05)

        ok1 = wait_final(tasks, 45)
        time.sleep(0.3)                       # late duplicates would show now

        # second wave: the same components must still work
        tds2   = [make_td(uid='w2.%d' % i, executable='/bin/sh',
                          arguments=['-c', 'exit 0']) for i in range(2)]
        tasks2 = mp.tmgr.submit_tasks(tds2)
        ok2    = wait_final(tasks2, 30)

        judge(case, res, mp, by_uid, seen, ok1, tasks2, ok2)
        res.evaluations += 1
        for h in mp.hits:
            res.see('fault_hits', h)
        sig = digest([[t['fate'] for t in case['tasks']],
                      [by_uid[t['uid']].state for t in case['tasks']]])
        if mp.hits:
            res.digests.add(sig)
        if len(res.samples) < 2 and mp.hits:
            res.samples.append({'case': case,
                                'finals': {u: t.state
                                           for u, t in by_uid.items()}})
    finally:
        if mp:
            mp.stop()
        os.chdir(ctx.workdir or '/')
        shutil.rmtree(wd, ignore_errors=True)


def judge(case, res, mp, by_uid, seen, ok1, tasks2, ok2):

    ctx = {'case': case, 'hits': sorted(mp.hits),
           'states': {u: [t.state, t.exit_code, t.exception]
                      for u, t in by_uid.items()},
           'loop_errors': mp.loop_errors[:3],
           'callback_errors': [e[2] for e in mp.net.errors[:3]],
           'dead': mp.alive()}

    def viol(mech, msg):
        res.violation(mech, msg, ctx)

    bulk_hit = any(h.startswith('poison:work:') for h in mp.hits)

    for t in case['tasks']:
        uid, fate = t['uid'], t['fate']
        task = by_uid[uid]
        res.count('tasks_judged')
        res.see('final_states', task.state)
        finals = [s for u, s in seen if u == uid and s in FINAL_STATES]

        if task.state not in FINAL_STATES:
            if ok1 is None:
                res.count('busy_at_hard_limit_not_judged')
                continue
            viol('task-not-final/%s' % fate.split(':')[0],
                 '%s (%s) is %s' % (uid, fate, task.state))
            continue
        if len(set(finals)) > 1 and not (finals[0] == rps.CANCELED and
                                         set(finals) == {rps.CANCELED,
                                                         rps.DONE}):
            viol('two-final-states', '%s: %s' % (uid, finals))
        if len(finals) > 1 and len(set(finals)) == 1:
            viol('final-state-announced-twice', '%s: %s' % (uid, finals))

        st, ec, exc = task.state, task.exit_code, task.exception
        if fate in ('missing_input', 'missing_output'):
            mp.hits.add('real:' + fate)
        requested = fate in ('cancel_early', 'cancel_run', 'cancel_exit',
                             'timeout')

        if fate in ('ok', 'ok_staged'):
            truth = [(rps.DONE, 0)]
        elif fate == 'exit':
            truth = [(rps.FAILED, t['code'])]
        elif fate == 'signal':
            # killed by a signal: not a success; any non-zero code
            truth = [(rps.FAILED, None)]
            if st == rps.FAILED and ec in (0, None) and \
               'Poison' not in str(exc):
                viol('signal-exit-code-lost', '%s: FAILED with exit code %s '
                     'after signal %s' % (uid, ec, t.get('sig')))
            res.count('signal_endings_judged')
        elif fate in ('cancel_early', 'cancel_exit'):
            truth = [(rps.CANCELED, None), (rps.DONE, 0)]
        elif fate in ('cancel_run', 'timeout'):
            truth = [(rps.CANCELED, None)]
        else:
            truth = [(rps.FAILED, None)]

        bystander_of_bulk = bulk_hit and st == rps.FAILED and exc and \
                            'Poison' in str(exc) and \
                            not fate.startswith('work:')

        if (st, ec) not in truth and not (st == truth[0][0] and
                                          truth[0][1] is None):
            if 'Text file busy' in (task.stderr or '') + str(exc):
                # harness artifact: all components share one process here, so a
                # concurrent fork (stager running `cp`) can hold the freshly
                # written script open when it is exec'ed (ETXTBSY); in a pilot
                # the executor is a process of its own
                res.count('etxtbsy_artifacts_skipped')
                continue
            if bystander_of_bulk:
                res.count('bulk_bystanders_failed')
                continue
            mech = 'untruthful-final-state/%s' % fate.split(':')[0]
            if st == rps.CANCELED and not requested:
                mech = 'canceled-unrequested'
            viol(mech, '%s (%s): %s exit %s exc %s, truth %s'
                 % (uid, fate, st, ec, exc, truth))
            continue
        if st == rps.FAILED and fate not in ('exit', 'signal') and not exc:
            viol('failed-without-exception', '%s (%s)' % (uid, fate))
        if st == rps.FAILED and fate == 'exit' and ec != t['code']:
            viol('exit-code-lost', '%s: %s != %s' % (uid, ec, t['code']))

    # what the components published: at most one final state per task on the
    # state channels (the documented correction CANCELED -> DONE aside).  The
    # client facade hides a second, contradicting final state from the
    # application, the other components of a pilot see it.
    pubs = dict()
    for ev in mp.net.events('pub'):
        if not ev['url'].endswith('/' + rpc.STATE_PUBSUB):
            continue
        for thing in ru.as_list((ev['payload'] or {}).get('arg')):
            if isinstance(thing, dict) and thing.get('type') == 'task' and \
                    thing.get('state') in FINAL_STATES:
                pubs.setdefault(thing['uid'], list()).append(thing['state'])
    for uid, states in pubs.items():
        res.count('final_publications_checked')
        kinds = list(dict.fromkeys(states))
        if len(kinds) > 1 and kinds != [rps.CANCELED, rps.DONE]:
            viol('two-final-states-published', '%s was published as %s'
                 % (uid, states))
            break

    if ok1 is None:
        res.inconc('first wave still busy at the hard wall-clock limit')
    elif not ok1 and not any(v['mechanism'].startswith('task-not-final')
                             for v in res.violations):
        res.inconc('first wave not final, yet every task final at judgement')

    dead = mp.alive()
    if dead:
        viol('component-died', 'dead threads: %s' % dead)
    if ok2 and all(t.state == rps.DONE for t in tasks2):
        res.count('second_wave_ok')
    elif ok2 is None:
        res.inconc('second wave still busy at the hard wall-clock limit')
    else:
        viol('second-wave-does-not-complete',
             'later tasks: %s' % [(t.uid, t.state) for t in tasks2])


def run(ctx):
    res = Result()
    rng = ctx.rng('mp')
    for i in range(ctx.n(160, 3200)):
        case = gen_case(rng)
        run_case(ctx, res, case, i)
        if len(res.violations) > 30:
            break
    return res


def replay(case, ctx):
    res = Result()
    for i in range(3):
        run_case(ctx, res, case['case'], i)
        if res.violations:
            break
    return res
