'''
C17 - Every shipped platform resolves and pilots are sized to fit.

Part 1 (configuration matrix, exhaustive): every entry of every shipped
`configs/resource_*.json` x (default schema + each declared access schema) is
resolved with the real `Session.get_resource_config`; the names it carries are
then looked up through the real factories (`ResourceManager.get_manager`,
`LaunchMethod.create`, `AgentSchedulingComponent.create`,
`AgentExecutingComponent.create` - constructors neutralised, name -> class
lookup untouched) and `ru.Config('radical.pilot', category='agent', name=..)`;
finally the real `PMGRLaunchingComponent._prepare_pilot` has to turn a pilot
description naming the cell into a job description.

Part 2 (sizing): the real `_prepare_pilot` is driven with generated pilot
descriptions on platforms with known node size; `jd_dict`, `pilot['cfg']` and
the staged `agent_0.cfg` file are compared with independent integer/Fraction
arithmetic.
'''

import os
import glob
import json
import math

from fractions import Fraction

from ..core    import Result, digest
from ..harness import rp, ru, NullLog, NullProf
from ..boot    import REPO

import radical.pilot.pmgr.launching.base      as m_launch         # noqa
from radical.pilot.resource_config            import ResourceConfig
from radical.pilot.agent.resource_manager     import ResourceManager
from radical.pilot.agent.launch_method.base   import LaunchMethod
from radical.pilot.agent.scheduler.base       import AgentSchedulingComponent
from radical.pilot.agent.executing.base       import AgentExecutingComponent

ID     = 'C17'
LEVEL  = 'exploration'
MANIFEST = {
    'technique': 'runtime monitoring: exhaustive enumeration of the shipped '
                 'resource x schema matrix through the real resolver and '
                 'factories, plus an arithmetic reference oracle on the real '
                 'pilot job preparation',
    'text': 'Every entry of every shipped resource_*.json under its default '
            'and each declared access schema is resolved by the real '
            'Session.get_resource_config; resource manager, every launch '
            'method (incl. order), agent scheduler, executor and agent config '
            'named by the result are looked up with the real factory lookups '
            '(constructors neutralised) and a pilot description naming the '
            'cell is turned into a job description by the real '
            'PMGRLaunchingComponent._prepare_pilot.  For platforms with known '
            'node size generated pilot sizes (nodes, or cores/GPUs around node '
            'multiples, backup nodes, blocked cores/GPUs, SMT from config and '
            'RADICAL_SMT) are prepared by the same method and node_count / '
            'total_cpu_count / total_gpu_count and the figures written to '
            'agent_0.cfg are compared with Fraction/ceil arithmetic written '
            'independently.'
            '  Second session: the resolved config of every cell is compared value by value with the shipped entry overlaid with the schema (computed from the json files); a third of the sizing cases prepare 1-3 earlier pilots of the same bulk with the same resolved config object first, which must leave it unchanged.'
            '  After preparing a pilot the shared master configs must be unchanged (resolution-alters-shared-config).'
            '  Every cell whose job manager endpoint names one batch system for which a PSI/J executor is installed must be accepted by the real PSI/J pilot launcher (can_launch); the endpoint scheme is parsed independently, transports and batch system in either order.'
            '  For the cells the PSI/J launcher accepts, the real launch_pilots runs against a capturing executor: the job it submits asks for the node and process counts of the job description.',
    'note': 'Session and launcher objects are built with __new__ (no bridges, '
            'no job submission); the matrix part is exhaustive (flag in the '
            'evidence), the sizing part is sampled plus a fixed boundary sweep '
            'per platform; sandboxes are given in the pilot description so '
            'that no site specific shell variable is expanded locally.'}
RULE   = ('matrix: one case per (shipped resource entry, schema) with schema in '
          '{default} + declared schemas, enumerated from the json files '
          'independently of the loader.  sizing: (a) boundary sweep per '
          'resolvable cell with known cores_per_node: cores = n*avail+d, '
          'n in {1,2,5}, d in {-1,0,+1}, GPU-bound twin, nodes with/without '
          'backup; (b) seeded cases: platform cell, shipped or overridden '
          'system_architecture (smt 1/2/4, 0-8 blocked cores, blocked gpus, '
          'optionally small cores/gpus per node), RADICAL_SMT unset/1/2/4, '
          'size as nodes(+backup) or cores/GPUs at n*avail-1, n*avail, '
          'n*avail+1 with the GPU request below/at/above the core request.  '
          'Non-trivial sizing case = not an exact single-resource node '
          'multiple (remainder, GPU-bound, blocked, smt>1 or backup>0); '
          'distinct = case digest.')
ASSUMPTIONS = [
    'pilot descriptions are valid per PilotDescription.verify(): nodes '
    '(+backup_nodes) or cores(+gpus), never both',
    'node size known means cores_per_node > 0; GPUs take part in the node '
    'count only where gpus_per_node minus blocked GPUs is > 0, otherwise only '
    'agent == job is required for the GPU figure',
    'available cores per node = cores_per_node x smt - len(blocked_cores) with '
    'smt from RADICAL_SMT or system_architecture.smt (default 1), as the agent '
    'side ResourceManager computes it; blocked indices are generated inside '
    'the node and never block a whole node',
    'the pilot description names its sandbox, so default_remote_workdir '
    '(site specific $VARS, expanded by a local shell in the real client) is '
    'not part of the verdict',
    'string placeholders of the resource config are expanded with the pilot '
    'description the way _start_pilot_bulk does before it calls '
    '_prepare_pilot; `project` is always given',
    'constructors of launch methods, schedulers and executors are replaced by '
    'no-ops; only the name -> class lookup of the factories is judged',
    'radical.utils.write_json (site-packages, outside the repository) leaves '
    'one descriptor open per agent config written; the harness closes the '
    'descriptors of rp.agent_cfg.* files after every case (hygiene, no verdict)']
SHARDS   = {'quick': 8, 'thorough': 16}
TIMEOUT  = {'quick': 240, 'thorough': 3000}
REQUIRED = {'cells_enumerated'     : 150,
            'cells_resolved'       : 100,
            'rm_lookups'           : 100,
            'lm_lookups'           : 150,
            'scheduler_lookups'    : 100,
            'executor_lookups'     : 100,
            'agent_cfg_loads'      : 100,
            'cell_jobs_prepared'   : 100,
            'sizing_checked'       : 4000,
            'agent_files_read'     : 1000,
            'set:sizing_kinds'     : 10,
            'set:sizing_platforms' : 30}

CFG_DIR = os.path.join(REPO, 'src', 'radical', 'pilot', 'configs')


# ------------------------------------------------------------------------------
#
class _Log(NullLog):
    '''_prepare_pilot copies these two into the agent config'''
    level       = 'OFF'
    debug_level = 0


class _Stub(object):
    pass


# ------------------------------------------------------------------------------
#
def shipped_matrix():
    '''
    The matrix as shipped, read from the json files independently of the
    loader under test: [(resource, schema | None)], and the raw entries.
    '''

    cells = list()
    raw   = dict()
    for fname in sorted(glob.glob(os.path.join(CFG_DIR, 'resource_*.json'))):
        site = os.path.basename(fname)[len('resource_'):-len('.json')]
        data = ru.read_json(fname)
        for label in sorted(data):
            entry    = data[label]
            resource = '%s.%s' % (site, label)
            raw[resource] = entry
            cells.append((resource, None))
            schemas = entry.get('schemas')
            if isinstance(schemas, dict):
                for schema in sorted(schemas):
                    cells.append((resource, schema))
    return cells, raw


# ------------------------------------------------------------------------------
#
def make_session():
    '''
    Session via __new__ with what `get_resource_config`, the sandbox getters
    and `_prepare_pilot` read; `_rcfgs` is loaded as `_init_cfg_from_scratch`
    does it (entry by entry, so that one broken entry is attributable).
    '''

    s = rp.Session.__new__(rp.Session)

    s._uid  = 'rp.session.verif.c17'
    s._log  = _Log()
    s._prof = NullProf()
    s._rep  = NullProf()
    s._cfg  = ru.Config('radical.pilot.session', name='default',
                        cfg={'proxy_url': 'tcp://localhost:10001/'})
    s._cfg['sid'] = s._uid

    rcfgs    = ru.Config('radical.pilot.resource', name='*', expand=False)
    s._rcfgs = ru.Config()
    s._rcfg  = ru.Config()
    broken   = dict()

    for site in rcfgs:
        s._rcfgs[site] = ru.Config()
        for label, rcfg in rcfgs[site].items():
            try:
                s._rcfgs[site][label] = ResourceConfig(rcfg)
            except Exception as e:
                broken['%s.%s' % (site, label)] = repr(e)

    s._cache_lock = ru.RLock()
    reset_cache(s)
    return s, broken


def reset_cache(s):
    s._cache = {'endpoint_fs'      : dict(),
                'resource_sandbox' : dict(),
                'session_sandbox'  : dict(),
                'pilot_sandbox'    : dict(),
                'client_sandbox'   : os.getcwd(),
                'js_shells'        : dict(),
                'fs_dirs'          : dict()}


def make_launcher(session):

    lc = m_launch.PMGRLaunchingComponent.__new__(
                                               m_launch.PMGRLaunchingComponent)
    lc._uid        = 'pmgr.0000.launching.0000'
    lc._session    = session
    lc._log        = _Log()
    lc._prof       = NullProf()
    lc._pmgr       = 'pmgr.0000'
    lc._sandboxes  = dict()
    lc._mod_dir    = os.path.dirname(os.path.abspath(m_launch.__file__))
    lc._root_dir   = '%s/../../' % lc._mod_dir
    lc._rp_version = '0.0.0'
    return lc


# ------------------------------------------------------------------------------
#
_neutral = dict()


def _neutralise(base, probe):
    '''
    Let the real factory import its implementations (a lookup of a name which
    cannot exist runs the imports and then refuses the name), then replace the
    constructors of the base class and all subclasses by no-ops.  The factory
    body (name -> class) stays as it is.
    '''

    if base in _neutral:
        return _neutral[base]

    try:
        probe()
    except Exception:
        pass        # the bogus name is refused; a failing import shows up
                    # again, per cell, in the real lookups

    def noop(self, *args, **kwargs):
        return None

    names = list()

    def walk(cls):
        for sub in cls.__subclasses__():
            walk(sub)
            if '__init__' in sub.__dict__:
                sub.__init__ = noop
            names.append(sub.__name__)

    base.__init__ = noop
    walk(base)
    _neutral[base] = sorted(set(names))
    return _neutral[base]


def neutralise_all():

    bogus = '__RPVERIF_NO_SUCH_NAME__'
    stub  = _Stub()
    stub.rcfg = ru.Config(from_dict={'agent_scheduler': bogus,
                                     'agent_spawner'  : bogus,
                                     'launch_methods' : dict()})

    _neutralise(LaunchMethod,
                lambda: LaunchMethod.create(bogus, {}, None, None, None))
    _neutralise(AgentSchedulingComponent,
                lambda: AgentSchedulingComponent.create({}, stub))
    _neutralise(AgentExecutingComponent,
                lambda: AgentExecutingComponent.create({}, stub))


# ------------------------------------------------------------------------------
#
def make_pilot(session, resource, schema, size, uid='pilot.0000'):
    '''
    real PilotDescription -> pilot dict as Pilot.__init__/as_dict produce it
    '''

    d = {'uid'          : uid,
         'resource'     : resource,
         'access_schema': schema,
         'runtime'      : 10,
         'project'      : 'verif_proj',
         'queue'        : 'verifq',
         'sandbox'      : '/tmp/rpverif_c17',
         'app_comm'     : list(),
         'input_staging': list(),
         'output_staging': list(),
         'prepare_env'  : dict(),
         'services'     : list()}
    d.update(size)

    pd = rp.PilotDescription(from_dict=d)
    pd.verify()

    pilot = {'uid'             : uid,
             'type'            : 'pilot',
             'session'         : session.uid,
             'pmgr'            : 'pmgr.0000',
             'description'     : pd.as_dict(),
             'endpoint_fs'     : '',
             'resource_sandbox': '',
             'session_sandbox' : '',
             'pilot_sandbox'   : '',
             'client_sandbox'  : ''}
    return pilot


_EXPANDED = dict()


def expand_rcfg(rcfg, pilot):
    '''
    what `_start_pilot_bulk` does to the resolved config before it calls
    `_prepare_pilot` (input preparation, not under test)
    '''

    expand = dict()
    for k, v in pilot['description'].items():
        if v is None:
            v = ''
        expand['pd.%s' % k] = v
        if isinstance(v, str):
            expand['pd.%s' % k.upper()] = v.upper()
            expand['pd.%s' % k.lower()] = v.lower()
        else:
            expand['pd.%s' % k.upper()] = v
            expand['pd.%s' % k.lower()] = v

    # once per bulk, as in `_start_pilot_bulk` (all pilots of a bulk share the
    # resolved config; a second expansion of already expanded strings would be
    # the harness's doing, not the launcher's)
    if id(rcfg) not in _EXPANDED:
        for k in rcfg:
            if isinstance(rcfg[k], str):
                rcfg[k] = rcfg[k] % expand
        _EXPANDED.clear()               # one config object at a time is live
        _EXPANDED[id(rcfg)] = rcfg      # (the reference keeps the id unique)

    return expand


def _close_leaked_fds():
    '''
    `radical.utils.write_json` (site-packages, not part of the repository)
    keeps the descriptor of its `mkstemp` open, i.e. one per agent config
    written.  Harness hygiene only: close them so that long runs do not hit
    the descriptor limit.
    '''
    try:
        fds = os.listdir('/proc/self/fd')
    except OSError:
        return
    for fd in fds:
        try:
            if '/rp.agent_cfg.' in os.readlink('/proc/self/fd/%s' % fd):
                os.close(int(fd))
        except (OSError, ValueError):
            pass


def prepare(session, lc, resource, schema, rcfg, size, env_smt=None):
    '''
    run the real `_prepare_pilot`; returns (jd, agent_cfg, agent_file_dict)
    '''

    reset_cache(session)
    pilot  = make_pilot(session, resource, schema, size)
    expand = expand_rcfg(rcfg, pilot)

    os.environ.pop('RADICAL_SMT', None)
    if env_smt is not None:
        os.environ['RADICAL_SMT'] = str(env_smt)

    try:
        lc._prepare_pilot(resource, rcfg, pilot, expand, 'verif.tgz')
    finally:
        os.environ.pop('RADICAL_SMT', None)
        _close_leaked_fds()

    told = None
    for sd in pilot.get('sds') or []:
        if str(sd.get('target', '')).endswith('/agent_0.cfg'):
            src = sd['source']
            try:
                told = ru.read_json(src)
            finally:
                try:
                    os.unlink(src)
                except OSError:
                    pass

    return pilot['jd_dict'], pilot['cfg'], told


# ------------------------------------------------------------------------------
#
# Part 1: one cell of the matrix
#
ENDPOINT_KEYS = ('job_manager_endpoint', 'filesystem_endpoint',
                 'job_manager_hop')


def check_cell(session, lc, broken, raw, resource, schema, res):
    '''
    returns (summary string, resolved-ok flag)
    '''

    label = '%s/%s' % (resource, schema or '<default>')
    case  = {'part': 'matrix', 'resource': resource, 'schema': schema}
    res.count('cells_enumerated')
    n0 = len(res.violations)

    def bad(mech, msg, **extra):
        c = dict(case)
        c.update(extra)
        res.violation(mech, '%s: %s' % (label, msg), c)

    site, name = resource.split('.', 1)

    # -- the loader must have accepted the entry -------------------------------
    if resource in broken:
        bad('config-entry-not-loadable', 'ResourceConfig(entry) raised %s'
            % broken[resource])
        return 'UNLOADABLE', False

    if site not in session._rcfgs or name not in session._rcfgs[site]:
        bad('shipped-entry-not-loaded', 'entry is in the shipped json but not '
            'among the loaded resource configs')
        return 'NOT-LOADED', False

    # -- resolve the way a user does -------------------------------------------
    try:
        rcfg = session.get_resource_config(resource, schema)

    except Exception as e:
        schemas = raw[resource].get('schemas')
        aliases = {k: v for k, v in schemas.items()
                   if not isinstance(v, dict)} \
                  if isinstance(schemas, dict) else None
        if aliases:
            bad('schema-declared-as-string',
                'get_resource_config raised %r; schema(s) %s of this platform '
                'are declared as %s where a schema dictionary is required'
                % (e, sorted(aliases), sorted(repr(v)
                                              for v in aliases.values())),
                exception=repr(e), non_dict_schemas=aliases)
        else:
            bad('resource-config-unresolvable',
                'get_resource_config raised %r' % e, exception=repr(e))
        return 'UNRESOLVED %s' % type(e).__name__, False

    res.count('cells_resolved')
    out = list()

    # -- the resolved config is THIS platform's entry with THIS schema laid
    #    over it (computed here from the shipped json, independently of the
    #    session: a stale or shared cache would hand out another platform's
    #    settings, which all exist and would pass every lookup below)
    entry = raw[resource]
    used  = schema or entry.get('default_schema')
    exp   = json.loads(json.dumps({k: v for k, v in entry.items()
                                   if k != 'schemas'}))
    if used and isinstance((entry.get('schemas') or {}).get(used), dict):
        def overlay(a, b):
            for k, v in b.items():
                if isinstance(v, dict) and isinstance(a.get(k), dict):
                    overlay(a[k], v)
                else:
                    a[k] = json.loads(json.dumps(v))
        overlay(exp, entry['schemas'][used])
    got  = json.loads(json.dumps(rcfg.as_dict(), default=str))
    diff = dict()
    for k, v in exp.items():
        res.count('resolved_values_compared')
        if k in ENDPOINT_KEYS and got.get(k) != v:
            continue               # replaced when started inside a batch job
        if got.get(k) != v:
            diff[k] = {'shipped': v, 'resolved': got.get(k)}
    if got.get('label') != resource:
        diff['label'] = {'shipped': resource, 'resolved': got.get('label')}
    if diff:
        bad('resolved-config-differs-from-shipped',
            'get_resource_config returns values which are not those of the '
            'shipped entry + schema %r: %s' % (used, diff), diff=diff)

    # -- resource manager ------------------------------------------------------
    rm_name = rcfg.resource_manager
    res.count('rm_lookups')
    try:
        rm_cls = ResourceManager.get_manager(rm_name)
    except Exception as e:
        rm_cls = None
        bad('resource-manager-lookup-raised', '%r: %r' % (rm_name, e))
    if rm_cls is None or not (isinstance(rm_cls, type) and
                              issubclass(rm_cls, ResourceManager)):
        bad('resource-manager-unknown', 'resource_manager %r is not known to '
            'ResourceManager.get_manager' % (rm_name,), value=rm_name)
        out.append('rm=?%s' % rm_name)
    else:
        res.see('resource_managers', '%s->%s' % (rm_name, rm_cls.__name__))
        out.append('rm=%s' % rm_cls.__name__)

    # -- launch methods --------------------------------------------------------
    lms = rcfg.launch_methods
    if not isinstance(lms, dict) or not [k for k in lms if k != 'order']:
        bad('no-launch-methods', 'launch_methods is empty: %r' % (lms,))
        out.append('lm=?none')
    else:
        keys  = [k for k in lms if k != 'order']
        order = lms.get('order') or list(lms)
        if not isinstance(order, (list, tuple)):
            bad('launch-order-malformed', 'order is %r' % (order,))
            order = list()
        stray = [o for o in order if o not in keys]
        if stray:
            bad('launch-order-not-in-methods', 'order names %s which have no '
                'entry in launch_methods %s' % (stray, sorted(keys)),
                value=stray)
        found = list()
        for lm_name in list(keys) + [o for o in order if o not in keys]:
            res.count('lm_lookups')
            lm_cfg = lms.get(lm_name)
            try:
                lm = LaunchMethod.create(lm_name,
                                         ru.Config(from_dict=lm_cfg
                                              if isinstance(lm_cfg, dict)
                                              else {}),
                                         None, _Log(), NullProf())
                if not isinstance(lm, LaunchMethod):
                    raise ValueError('LaunchMethod.create returned %r' % lm)
                res.see('launch_methods',
                        '%s->%s' % (lm_name, type(lm).__name__))
                found.append(lm_name)
            except Exception as e:
                bad('launch-method-unknown', 'launch method %r: %r'
                    % (lm_name, e), value=lm_name)
                found.append('?%s' % lm_name)
        out.append('lm=%s' % ','.join(found))

    # -- scheduler and executor ------------------------------------------------
    stub = _Stub()
    stub.rcfg = rcfg

    res.count('scheduler_lookups')
    try:
        sched = AgentSchedulingComponent.create(dict(), stub)
        if not isinstance(sched, AgentSchedulingComponent):
            raise ValueError('create returned %r' % sched)
        res.see('schedulers', '%s->%s' % (rcfg.agent_scheduler,
                                          type(sched).__name__))
        out.append('sched=%s' % type(sched).__name__)
    except Exception as e:
        bad('agent-scheduler-unknown', 'agent_scheduler %r: %r'
            % (rcfg.agent_scheduler, e), value=rcfg.agent_scheduler)
        out.append('sched=?%s' % rcfg.agent_scheduler)

    res.count('executor_lookups')
    try:
        execu = AgentExecutingComponent.create(dict(), stub)
        if not isinstance(execu, AgentExecutingComponent):
            raise ValueError('create returned %r' % execu)
        res.see('executors', '%s->%s' % (rcfg.agent_spawner,
                                         type(execu).__name__))
        out.append('exec=%s' % type(execu).__name__)
    except Exception as e:
        bad('agent-spawner-unknown', 'agent_spawner %r: %r'
            % (rcfg.agent_spawner, e), value=rcfg.agent_spawner)
        out.append('exec=?%s' % rcfg.agent_spawner)

    # -- agent config ----------------------------------------------------------
    ac_name = rcfg.agent_config
    res.count('agent_cfg_loads')
    ac_ok = False
    if isinstance(ac_name, str) and ac_name:
        fname = os.path.join(CFG_DIR, 'agent_%s.json' % ac_name)
        try:
            acfg = ru.Config('radical.pilot', category='agent', name=ac_name)
            ac_ok = os.path.isfile(fname) and bool(acfg.as_dict())
        except Exception as e:
            bad('agent-config-load-raised', '%r: %r' % (ac_name, e))
    if ac_ok:
        res.see('agent_configs', ac_name)
        out.append('agent=%s' % ac_name)
    else:
        bad('agent-config-unknown', 'agent_config %r: no configs/agent_%s.json '
            'in the code base (ru.Config yields an empty config)'
            % (ac_name, ac_name), value=ac_name)
        out.append('agent=?%s' % ac_name)

    # -- a description naming the cell becomes a job description ---------------
    size = {'nodes': 1} if rcfg.cores_per_node else {'cores': 4}
    jd_cell = None
    try:
        jd, acfg, told = prepare(session, lc, resource, schema, rcfg, size)
        if jd is None or told is None:
            raise RuntimeError('no job description / agent config produced')
        jd_cell = jd
        res.count('cell_jobs_prepared')
        out.append('job=%sn/%sc/%sg' % (jd.node_count, jd.total_cpu_count,
                                        jd.total_gpu_count))
    except Exception as e:
        bad('job-description-not-derived', '_prepare_pilot(%s) raised %r'
            % (size, e), exception=repr(e))
        out.append('job=?')

    # -- the batch system the cell names is one a pilot launcher takes ----------
    #
    # The job manager endpoint is `<scheme>://host/`, the scheme a `+` joined
    # set of one batch system and optional transports (in either order, as the
    # shipped configs spell them).  Where the batch system has a PSI/J executor
    # in this installation, the PSI/J pilot launcher must accept the cell.
    ep = str(rcfg.get('job_manager_endpoint') or '')
    parts = [x for x in ep.split(':')[0].split('+')
             if x and x not in ('ssh', 'gsissh')]
    if len(parts) == 1 and _psij_launcher() is not None:
        batch = {'pbspro': 'pbs', 'fork': 'local'}.get(parts[0], parts[0])
        if batch in _PSIJ['names']:
            res.count('launcher_acceptance_checked')
            res.see('job_manager_schemes', ep.split(':')[0])
            try:
                acc = _psij_launcher().can_launch(rcfg, None)
            except Exception as e:
                acc = 'raised %r' % e
            if acc is not True:
                bad('batch-system-not-accepted-by-launcher',
                    'job_manager_endpoint %r names batch system %r, for which '
                    'a PSI/J executor exists, but the PSI/J pilot launcher '
                    'answers %r' % (ep, parts[0], acc), value=ep)
            out.append('launcher=%s' % acc)

            # ... and the batch job it submits asks for what the job
            # description says (node and process counts)
            if acc is True and jd_cell is not None:
                lch    = _psij_launcher()
                schema_ = lch._get_schema(rcfg)
                class _Capture(object):
                    job = None
                    def submit(self, job): _Capture.job = job
                saved = lch._jex.get(schema_)
                lch._jex[schema_] = _Capture()
                try:
                    lch.launch_pilots(rcfg, [{'uid': 'pilot.c17',
                                              'jd_dict': jd_cell}])
                    rs = _Capture.job.spec.resources
                    nodes = rs.node_count
                    procs = rs.process_count
                    if procs is None and rs.processes_per_node is not None:
                        procs = (nodes or 1) * rs.processes_per_node
                    res.count('batch_job_requests_checked')
                    if procs != jd_cell.total_cpu_count or \
                            (nodes or 0) != (jd_cell.node_count or 0):
                        bad('batch-job-request-differs',
                            'the PSI/J job asks for %s nodes / %s processes, '
                            'the job description (and the agent) say %s nodes '
                            '/ %s cores' % (nodes, procs, jd_cell.node_count,
                                            jd_cell.total_cpu_count))
                except Exception as e:
                    bad('batch-job-not-submitted', 'PSI/J launch_pilots '
                        'raised %r' % e, exception=repr(e))
                finally:
                    lch._jobs.clear(); lch._pilots.clear()
                    if saved is None:
                        lch._jex.pop(schema_, None)
                    else:
                        lch._jex[schema_] = saved

    ok = len(res.violations) == n0
    return ('ok ' if ok else 'BAD ') + ' '.join(out), True


_PSIJ = {'launcher': None, 'names': None, 'tried': False}

def _psij_launcher():
    '''the real PSI/J pilot launcher (None when psij is not installed)'''
    if not _PSIJ['tried']:
        _PSIJ['tried'] = True
        try:
            import psij
            import radical.pilot.pmgr.launching.psi_j as m_psij
            _PSIJ['names']    = set(psij.JobExecutor.get_executor_names())
            _PSIJ['launcher'] = m_psij.PilotLauncherPSIJ(
                                    'PSIJ', NullLog(), NullProf(),
                                    lambda *a, **k: None)
        except Exception:
            _PSIJ['launcher'] = None
    return _PSIJ['launcher']


# ------------------------------------------------------------------------------
#
# Part 2: sizing oracle (independent arithmetic)
#
def expected(case):
    '''
    Reference figures for a sizing case; everything is integer / Fraction
    arithmetic on the case, nothing is taken from the code under test.
    '''

    cpn     = case['cores_per_node']
    gpn     = case['gpus_per_node']
    sa      = case['system_architecture'] or dict()
    smt     = int(case['env_smt']) if case['env_smt'] is not None \
              else int(sa.get('smt', 1))
    avail_c = cpn * smt - len(sa.get('blocked_cores') or [])
    avail_g = gpn       - len(sa.get('blocked_gpus' ) or [])

    size    = case['size']
    backup  = size.get('backup_nodes', 0)
    cores   = size.get('cores', 0)
    gpus    = size.get('gpus',  0)

    assert avail_c > 0 and avail_g >= 0

    if size.get('nodes'):
        nodes   = size['nodes']
        bound   = 'nodes'
    else:
        by_c    = math.ceil(Fraction(cores, avail_c))
        by_g    = math.ceil(Fraction(gpus,  avail_g)) if avail_g else 0
        nodes   = max(by_c, by_g)
        bound   = 'gpu' if by_g > by_c else 'cpu'
        # definition check of "smallest number of whole nodes that covers"
        assert nodes * avail_c >= cores
        assert not avail_g or nodes * avail_g >= gpus
        assert nodes == 0 or (nodes - 1) * avail_c < cores or \
               (avail_g and (nodes - 1) * avail_g < gpus)

    total = nodes + backup
    return {'smt'    : smt,
            'avail_c': avail_c,
            'avail_g': avail_g,
            'nodes'  : nodes,
            'backup' : backup,
            'total'  : total,
            'cores'  : total * avail_c,
            'gpus'   : total * avail_g if avail_g else None,
            'bound'  : bound}


def _is_int(v):
    return isinstance(v, int) and not isinstance(v, bool)


def classify(case, exp):
    kinds = list()
    size  = case['size']
    if size.get('nodes'):
        kinds.append('nodes+backup' if exp['backup'] else 'nodes')
    else:
        r = size['cores'] % exp['avail_c']
        kinds.append('cores:exact'  if r == 0 else
                     'cores:just-above' if r == 1 else
                     'cores:just-below' if r == exp['avail_c'] - 1 else
                     'cores:remainder')
        if exp['bound'] == 'gpu':
            kinds.append('gpu-bound')
            rg = size['gpus'] % exp['avail_g']
            kinds.append('gpus:exact' if rg == 0 else
                         'gpus:just-above' if rg == 1 else
                         'gpus:just-below' if rg == exp['avail_g'] - 1 else
                         'gpus:remainder')
        elif size.get('gpus'):
            kinds.append('gpus-within-cpu-nodes' if exp['avail_g']
                         else 'gpus-on-node-without-gpu-size')
    sa = case['system_architecture'] or dict()
    if sa.get('blocked_cores'): kinds.append('blocked-cores')
    if sa.get('blocked_gpus') : kinds.append('blocked-gpus')
    if exp['smt'] > 1         : kinds.append('smt>1')
    if case['env_smt'] is not None:
        kinds.append('RADICAL_SMT-overrides' if int(sa.get('smt', 1)) !=
                     int(case['env_smt']) else 'RADICAL_SMT-same')
    if case['override']:
        kinds.append('overridden-node-layout')
    return kinds


def run_sizing(session, lc, case, res):
    '''
    case: resource, schema, override (dict | None), env_smt, size
    fills in the node layout actually used and judges the outcome
    '''

    resource, schema = case['resource'], case['schema']

    try:
        rcfg = session.get_resource_config(resource, schema)
    except Exception as e:
        res.inconc('sizing: platform %s/%s did not resolve: %r'
                   % (resource, schema, e))
        return None

    # overrides are assigned as fresh objects, nothing shared is mutated
    ov = case.get('override') or dict()
    if 'cores_per_node' in ov: rcfg['cores_per_node'] = ov['cores_per_node']
    if 'gpus_per_node'  in ov: rcfg['gpus_per_node' ] = ov['gpus_per_node']
    if 'system_architecture' in ov:
        rcfg['system_architecture'] = json.loads(
                                      json.dumps(ov['system_architecture']))

    case['cores_per_node']      = rcfg.cores_per_node
    case['gpus_per_node']       = rcfg.gpus_per_node
    case['system_architecture'] = json.loads(json.dumps(
                                  dict(rcfg.system_architecture or {})))

    exp   = expected(case)
    kinds = classify(case, exp)
    ctx   = {'part': 'sizing', 'case': case, 'expected': exp}

    def rcfg_view():
        return json.loads(json.dumps(
               {'cores_per_node'     : rcfg.cores_per_node,
                'gpus_per_node'      : rcfg.gpus_per_node,
                'system_architecture': dict(rcfg.system_architecture or {}),
                'agent_config'       : rcfg.get('agent_config'),
                'resource_manager'   : rcfg.get('resource_manager')},
               default=str))

    # earlier pilots of the same bulk: prepared with the very same resolved
    # config object, as `_start_pilot_bulk` does
    view0 = rcfg_view()
    for bsize in case.get('bulk_before') or []:
        res.count('bulk_predecessors_prepared')
        try:
            prepare(session, lc, resource, schema, rcfg, dict(bsize),
                    case['env_smt'])
        except Exception:
            pass
    if case.get('bulk_before'):
        res.count('sizing_in_bulk_checked')
        view1 = rcfg_view()
        if view1 != view0:
            diff = {k: (view0[k], view1[k]) for k in view0
                    if view0[k] != view1[k]}
            res.violation('resource-config-changed-by-earlier-pilot',
                          '%s/%s: preparing %d earlier pilot(s) of the bulk '
                          'changed the resolved config the next pilot is '
                          'sized with: %s' % (resource, schema,
                                              len(case['bulk_before']), diff),
                          ctx)
            return kinds

    try:
        jd, acfg, told = prepare(session, lc, resource, schema, rcfg,
                                 dict(case['size']), case['env_smt'])
    except Exception as e:
        ctx['exception'] = repr(e)
        res.violation('prepare-pilot-raised', '%s/%s size %s: _prepare_pilot '
                      'raised %r' % (resource, schema, case['size'], e), ctx)
        return kinds

    res.count('sizing_checked')
    for k in kinds:
        res.see('sizing_kinds', k)
    res.see('sizing_platforms', resource)

    got = {'node_count'     : jd.node_count,
           'total_cpu_count': jd.total_cpu_count,
           'total_gpu_count': jd.total_gpu_count,
           'agent'          : {k: acfg.get(k) for k in
                               ['nodes', 'backup_nodes', 'cores', 'gpus']},
           'agent_file'     : {k: told.get(k) for k in
                               ['nodes', 'backup_nodes', 'cores', 'gpus']}
                              if told is not None else None}
    ctx['observed'] = got
    where = '%s/%s %s smt=%d avail=%dc/%dg' % (resource, schema or '<default>',
            case['size'], exp['smt'], exp['avail_c'], exp['avail_g'])

    # -- the job ---------------------------------------------------------------
    nc = jd.node_count
    if not _is_int(nc):
        res.violation('node-count-not-integer', '%s: node_count %r'
                      % (where, nc), ctx)
    elif nc < exp['total']:
        res.violation('node-count-too-small', '%s: job asks %d nodes, %d + %d '
                      'backup are needed to cover the request'
                      % (where, nc, exp['nodes'], exp['backup']), ctx)
    elif nc > exp['total']:
        res.violation('node-count-not-smallest', '%s: job asks %d nodes, '
                      '%d + %d backup cover the request'
                      % (where, nc, exp['nodes'], exp['backup']), ctx)

    if jd.total_cpu_count != exp['cores'] or not _is_int(jd.total_cpu_count):
        res.violation('job-cores-not-whole-nodes', '%s: total_cpu_count %r, '
                      '%d nodes x %d usable cores = %d' % (where,
                      jd.total_cpu_count, exp['total'], exp['avail_c'],
                      exp['cores']), ctx)

    if exp['gpus'] is not None and (jd.total_gpu_count != exp['gpus'] or
                                    not _is_int(jd.total_gpu_count)):
        res.violation('job-gpus-not-whole-nodes', '%s: total_gpu_count %r, '
                      '%d nodes x %d usable gpus = %d' % (where,
                      jd.total_gpu_count, exp['total'], exp['avail_g'],
                      exp['gpus']), ctx)

    # a platform whose GPU node size is not configured cannot round GPUs to
    # whole nodes - but the job still has to cover the GPUs that were asked
    # for (nodes-sized pilots ask for none)
    asked_g = case['size'].get('gpus', 0)
    if exp['gpus'] is None and asked_g:
        res.count('gpu_requests_without_gpu_node_size')
        if not _is_int(jd.total_gpu_count) or jd.total_gpu_count < asked_g:
            res.violation('job-gpus-below-request', '%s: total_gpu_count %r, '
                          '%d gpus were requested' % (where, jd.total_gpu_count,
                                                      asked_g), ctx)

    # -- what the agent is told ------------------------------------------------
    views = [('agent config', got['agent'])]
    if got['agent_file'] is not None:
        res.count('agent_files_read')
        views.append(('agent_0.cfg file', got['agent_file']))
    else:
        res.violation('agent-config-not-staged', '%s: no agent_0.cfg among '
                      'the staging directives' % where, ctx)

    for name, a in views:
        try:
            a_nodes = a['nodes'] + a['backup_nodes']
        except TypeError:
            a_nodes = None
        if a_nodes != nc or a['backup_nodes'] != exp['backup']:
            res.violation('agent-nodes-differ-from-job', '%s: %s has nodes=%r '
                          'backup_nodes=%r, job asks %r nodes (%d backup)'
                          % (where, name, a['nodes'], a['backup_nodes'], nc,
                             exp['backup']), ctx)
        if a['cores'] != jd.total_cpu_count:
            res.violation('agent-cores-differ-from-job', '%s: %s has cores=%r, '
                          'job asks total_cpu_count=%r' % (where, name,
                          a['cores'], jd.total_cpu_count), ctx)
        if a['gpus'] != jd.total_gpu_count:
            res.violation('agent-gpus-differ-from-job', '%s: %s has gpus=%r, '
                          'job asks total_gpu_count=%r' % (where, name,
                          a['gpus'], jd.total_gpu_count), ctx)

    return kinds


# ------------------------------------------------------------------------------
#
def nontrivial(kinds):
    return bool(set(kinds) - {'cores:exact', 'nodes', 'RADICAL_SMT-same'})


def sweep_cases(resource, schema, layout):
    '''fixed boundary sweep for one resolvable cell with known node size'''

    cpn, gpn, sa = layout
    smt     = int((sa or {}).get('smt', 1))
    avail_c = cpn * smt - len((sa or {}).get('blocked_cores') or [])
    avail_g = gpn       - len((sa or {}).get('blocked_gpus')  or [])

    sizes = list()
    for n in (1, 2, 5):
        for d in (-1, 0, 1):
            c = n * avail_c + d
            if c >= 1:
                sizes.append({'cores': c})
                if avail_g:
                    # GPU-bound twin: one node fewer by cores, n by GPUs
                    g = n * avail_g + d
                    if g >= 1:
                        sizes.append({'cores': max(1, c - avail_c), 'gpus': g})
    sizes.append({'nodes': 1})
    sizes.append({'nodes': 3, 'backup_nodes': 2})

    for size in sizes:
        yield {'resource': resource, 'schema': schema, 'override': None,
               'env_smt': None, 'size': size}


def gen_case(rng, platforms):

    resource, schema, (cpn, gpn, sa) = rng.choice(platforms)
    sa = dict(sa or {})

    override = None
    if rng.random() < 0.6:
        override = dict()
        if rng.random() < 0.35:
            cpn = rng.choice([1, 2, 3, 4, 7, 8, 16])
            gpn = rng.choice([0, 1, 2, 3, 4])
            override['cores_per_node'] = cpn
            override['gpus_per_node']  = gpn
        nsa = {k: v for k, v in sa.items()
               if k not in ('smt', 'blocked_cores', 'blocked_gpus')}
        smt_cfg = rng.choice([None, 1, 2, 2, 4])
        if smt_cfg is not None:
            nsa['smt'] = smt_cfg
        sa = nsa
        override['system_architecture'] = nsa

    smt_cfg = int(sa.get('smt', 1))
    env_smt = rng.choice([None, None, None, 1, 2, 4])

    # blocked indices of the shipped config must stay inside the node
    if env_smt is not None and sa.get('blocked_cores') and \
            max(sa['blocked_cores']) >= cpn * env_smt:
        env_smt = None
    smt = env_smt if env_smt is not None else smt_cfg

    if override is not None:
        threads = cpn * smt
        nb = min(rng.choice([0, 0, 1, 2, 3, 8]), threads - 1)
        if nb:
            sa['blocked_cores'] = sorted(rng.sample(range(threads), nb))
        elif rng.random() < 0.5:
            sa['blocked_cores'] = list()
        if gpn:
            ng = min(rng.choice([0, 0, 1, 2]), gpn - 1)
            if ng:
                sa['blocked_gpus'] = sorted(rng.sample(range(gpn), ng))
            elif rng.random() < 0.5:
                sa['blocked_gpus'] = list()

    avail_c = cpn * smt - len(sa.get('blocked_cores') or [])
    avail_g = gpn       - len(sa.get('blocked_gpus')  or [])

    mode = rng.choice(['nodes', 'cores', 'cores', 'cores'])
    if mode == 'nodes':
        size = {'nodes': rng.choice([1, 1, 2, 3, 7, 64, rng.randint(1, 9000)])}
        b = rng.choice([0, 0, 1, 2, 5])
        if b:
            size['backup_nodes'] = b
    else:
        n = rng.choice([1, 1, 2, 3, 4, rng.randint(1, 60),
                        rng.randint(1, 9000)])
        d = rng.choice([-1, 0, 1, -1, 0, 1, rng.randint(-avail_c, avail_c)])
        size = {'cores': max(1, n * avail_c + d)}
        if avail_g:
            m = max(0, n + rng.choice([-2, -1, 0, 0, 1, 1, 2, 5]))
            e = rng.choice([-1, 0, 1, -1, 0, 1, rng.randint(-avail_g, avail_g)])
            g = rng.choice([0, max(0, m * avail_g + e), max(0, m * avail_g + e)])
            if g:
                size['gpus'] = g
        elif rng.random() < 0.15:
            size['gpus'] = rng.randint(1, 8)

    # the launcher prepares all pilots of a bulk (same platform, same schema)
    # with ONE resolved resource config: some pilots come first
    bulk_before = list()
    if rng.random() < 0.35:
        for _ in range(rng.randint(1, 3)):
            if rng.random() < 0.5:
                bulk_before.append({'nodes': rng.choice([1, 2, 5])})
            else:
                bulk_before.append({'cores': max(1, rng.randint(1, 4) * avail_c
                                                 + rng.choice([-1, 0, 1]))})

    return {'resource': resource, 'schema': schema, 'override': override,
            'env_smt': env_smt, 'size': size, 'bulk_before': bulk_before}


# ------------------------------------------------------------------------------
#
def master_intact(session, raw):
    '''The loaded master configs are what every later pilot of the process is
    sized from: neither the harness nor resolving / preparing one pilot may
    alter them.  Returns None if intact, else a description of the change.'''
    for resource, entry in raw.items():
        site, name = resource.split('.', 1)
        try:
            m = session._rcfgs[site][name]
        except Exception:
            continue
        for key in ('cores_per_node', 'gpus_per_node'):
            if (m.get(key) or 0) != (entry.get(key) or 0):
                return '%s: %s is %r, the shipped file says %r' \
                       % (resource, key, m.get(key), entry.get(key))
        a = json.loads(json.dumps(dict(m.get('system_architecture') or {})))
        b = entry.get('system_architecture') or {}
        if a != b:
            return '%s: system_architecture is %r, the shipped file says %r' \
                   % (resource, a, b)
    return None


# ------------------------------------------------------------------------------
#
def run(ctx):

    res = Result()

    cells, raw      = shipped_matrix()
    session, broken = make_session()
    lc              = make_launcher(session)
    neutralise_all()

    res.see('matrix_size', len(cells))
    res.see('matrix_resources', len(raw))
    res.note('matrix = %d shipped resource entries x (default schema + '
             'declared schemas) = %d cells, read from %s/resource_*.json'
             % (len(raw), len(cells), CFG_DIR))
    res.note('constructors neutralised: launch methods %s; schedulers %s; '
             'executors %s' % (_neutral[LaunchMethod],
                               _neutral[AgentSchedulingComponent],
                               _neutral[AgentExecutingComponent]))

    # --- part 1: this shard's share of the matrix -----------------------------
    done = 0
    mine = [c for i, c in enumerate(cells) if i % ctx.nshards == ctx.shard]
    for resource, schema in mine:
        summary, _ = check_cell(session, lc, broken, raw, resource, schema, res)
        site = resource.split('.', 1)[0]
        res.see('cells/%s' % site, '%s/%s: %s' % (resource.split('.', 1)[1],
                                                   schema or '<default>',
                                                   summary))
        case = {'part': 'matrix', 'resource': resource, 'schema': schema}
        res.evaluations += 1
        res.digests.add(digest(case))
        if len(res.samples) < 1:
            res.samples.append({'case': case, 'result': summary})
        done += 1

    # every cell of this shard's share was really looked at (the shares of
    # all shards partition the matrix; a shard which dies is INCONCLUSIVE)
    res.exhaustive = (done == len(mine) and
                      res.counters.get('cells_enumerated', 0) == len(mine))

    # --- platforms with known node size (all shards see the same list) --------
    platforms = list()
    for resource, schema in cells:
        try:
            rcfg = session.get_resource_config(resource, schema)
        except Exception:
            continue                      # reported by the owner of the cell
        if rcfg.cores_per_node and rcfg.cores_per_node > 0:
            sa = json.loads(json.dumps(dict(rcfg.system_architecture or {})))
            platforms.append((resource, schema,
                              (rcfg.cores_per_node, rcfg.gpus_per_node or 0,
                               sa)))
    res.see('platforms_with_node_size', len(platforms))

    if not platforms:
        res.inconc('no platform with known node size resolved')
        return res

    # --- part 2a: boundary sweep, sharded over the platform cells -------------
    for i, (resource, schema, layout) in enumerate(platforms):
        if i % ctx.nshards != ctx.shard:
            continue
        for case in sweep_cases(resource, schema, layout):
            _sizing_case(session, lc, case, res, max_samples=2)
            res.count('sweep_cases')

    # --- part 2b: seeded cases ------------------------------------------------
    rng = ctx.rng('sizing')
    altered = master_intact(session, raw)
    if altered:
        res.inconc('harness altered the loaded master resource configs '
                   'before the seeded cases: %s' % altered)
        return res
    for i in range(ctx.n(16000, 900000)):
        case = gen_case(rng, platforms)
        _sizing_case(session, lc, case, res)
        if res.counters.get('violations_raw', 0) > 400:
            break
        if i % 50 == 49 or case.get('env_smt'):
            # the harness only calls get_resource_config / _prepare_pilot
            # here: a change of the shared configs is the repository's doing
            res.count('shared_config_checks')
            altered = master_intact(session, raw)
            if altered:
                res.violation('resolution-alters-shared-config',
                              'after preparing a pilot (%s, RADICAL_SMT=%s) '
                              'the configs every later pilot is sized from '
                              'have changed: %s' % (case.get('resource'),
                              case.get('env_smt'), altered), {'case': case})
                break

    return res


def _sizing_case(session, lc, case, res, max_samples=3):
    res.evaluations += 1
    kinds = run_sizing(session, lc, case, res)
    if kinds is not None and nontrivial(kinds):
        res.digests.add(digest(case))
        if len(res.samples) < max_samples:
            res.samples.append({k: case[k] for k in
                                ['resource', 'schema', 'override', 'env_smt',
                                 'size', 'cores_per_node', 'gpus_per_node',
                                 'system_architecture']})


# ------------------------------------------------------------------------------
#
def replay(case, ctx):

    res = Result()
    res.evaluations = 1

    cells, raw      = shipped_matrix()
    session, broken = make_session()
    lc              = make_launcher(session)
    neutralise_all()

    if case.get('part') == 'matrix':
        check_cell(session, lc, broken, raw, case['resource'], case['schema'],
                   res)
    else:
        c = case['case']
        c = {'resource': c['resource'], 'schema': c['schema'],
             'override': c.get('override'), 'env_smt': c.get('env_smt'),
             'size': dict(c['size'])}
        run_sizing(session, lc, c, res)

    return res
