'''
C13 - A dying pilot fails its own tasks and only those.

Monitor: snapshot (state, exception, exception_detail, pilot) of every task
before and after each pilot-final notification delivered through the real
PilotManager._state_sub_cb -> Pilot._update -> TaskManager._pilot_state_cb.
'''

from ..core    import Result, digest
from ..harness import rp, rps, rpc, make_tmgr, make_task, make_pmgr, make_pilot

ID     = 'C13'
from ..harness import FINAL_STATES
LEVEL  = 'exploration'
MANIFEST = {
    'technique': 'runtime monitoring: before/after snapshot oracle on the real '
                 'pilot-state callback chain',
    'text': 'Real Task/Pilot/TaskManager/PilotManager facades; generated '
            'assignments of tasks (in every state of the model, bound by '
            'description, bound by the scheduler, unbound) to 2-4 pilots, '
            'pilots ending in every order and final state (also pilots not '
            'ending, and pilots of another task manager).  After every pilot '
            'notification all tasks are compared with the expected effect.'
            '  Second session: 30% of the bound non-final tasks already carry an error record (non-zero exit on its way through output staging) when their pilot dies: the explanation must still name the pilot.'
            '  A third of the tasks carry an optional description attribute (restartable, stage_on_error, metadata, tags, priority, cleanup, name): none exempts a task from the rule.'
            '  Waiting tasks are bound to a living pilot between the pilot events (late binding, no submission in between).'
            '  Pilots may be taken out of the task manager (remove_pilots) shortly before they end.'
            '  Third workload: the application closes the pilot manager (real PilotManager.close(terminate=True)); a launcher stand-in answers cancel_pilots / kill_pilots with the CANCELED notifications on a second thread; the same own-task / bystander oracle is applied after close() returns.',
    'note': 'facades are built with __new__ (upstream test idiom); the '
            'callback is registered by the real add_pilots; sampled, not '
            'enumerated.'}
RULE   = ('seeded cases: 2-4 pilots, 1-8 tasks each in a random state of the '
          'state model (incl. final), bound to a pilot via description or '
          'update, or unbound; pilots receive state notifications in random '
          'order ending in random final states.  Non-trivial = at least two '
          'pilots have tasks or there is an unbound/final task when a pilot '
          'dies; distinct = case digest.')
ASSUMPTIONS = ['a task is bound to a pilot when Task.pilot equals the pilot uid']
SHARDS   = {'quick': 8, 'thorough': 16}
REQUIRED = {'pilot_deaths': 500, 'own_tasks_checked': 300,
            'bystanders_checked': 1000, 'own_tasks_checked_at_close': 5}

_V     = rps._task_state_values
_ORDER = [None] * 16
for _k, _v in _V.items():
    if _k not in (None, rps.FAILED, rps.CANCELED):
        _ORDER[_v] = _k
_PORDER = [rps.NEW, rps.PMGR_LAUNCHING_PENDING, rps.PMGR_LAUNCHING,
           rps.PMGR_ACTIVE_PENDING, rps.PMGR_ACTIVE]


# ------------------------------------------------------------------------------
#
def gen_case(rng):

    n_p  = rng.randint(2, 4)
    pids = ['pilot.%04d' % i for i in range(n_p)]
    tasks = list()
    for i in range(rng.randint(1, 8)):
        bind = rng.choice(['descr', 'update', 'none', 'update'])
        pid  = rng.choice(pids) if bind != 'none' else None
        st   = rng.choice(_ORDER + [rps.FAILED, rps.CANCELED])
        if bind == 'none':
            # unbound tasks cannot be past the client side scheduler
            st = rng.choice([rps.NEW, rps.TMGR_SCHEDULING_PENDING,
                             rps.TMGR_SCHEDULING, rps.CANCELED, rps.FAILED])
        # a task can carry an error record before it is final: a process
        # which exited non-zero travels through output staging with its
        # exception attached (and so do tasks with a failed staging step)
        pre_exc = bind != 'none' and st not in FINAL_STATES and \
                  st != rps.DONE and rng.random() < 0.3
        tasks.append({'uid': 't.%d' % i, 'bind': bind, 'pilot': pid,
                      'state': st, 'pre_exc': pre_exc})

    # pilot trajectories: interleaved notifications
    events = list()
    for pid in pids:
        reach = rng.randint(0, 4)
        ends  = rng.choice([rps.DONE, rps.FAILED, rps.CANCELED, None])
        evs   = [[pid, s] for s in _PORDER[1:reach + 1]]
        if rng.random() < 0.3 and evs:
            evs = evs[-1:]            # skipping notification
        if ends:
            evs.append([pid, ends])
            if rng.random() < 0.2:
                evs.append([pid, ends])     # duplicated final
        events.append(evs)
    order = list()
    while any(events):
        evs = rng.choice([e for e in events if e])
        order.append(evs.pop(0))

    waited = list()
    if rng.random() < 0.3:
        for t in rng.sample(tasks, min(len(tasks), rng.randint(1, 2))):
            waited.append([t['uid'], rng.choice(_ORDER[1:-1])])

    # late binding: a task which waits in the client scheduler is bound to a
    # (still living) pilot somewhere between the pilot events - with no
    # submission in between
    late = list()
    if rng.random() < 0.5:
        ends_at = {pid: max([i for i, e in enumerate(order)
                             if e[0] == pid and e[1] in FINAL_STATES] or
                            [len(order)]) for pid in pids}
        for t in tasks:
            if t['bind'] == 'none' and t['state'] not in FINAL_STATES and \
                    order and rng.random() < 0.7:
                k   = rng.randrange(len(order))
                ok  = [p for p in pids if ends_at[p] > k]
                if ok:
                    late.append({'uid': t['uid'], 'after': k,
                                 'pilot': rng.choice(ok),
                                 'state': rng.choice([
                                            rps.TMGR_STAGING_INPUT_PENDING,
                                            rps.AGENT_EXECUTING])})
    # the application takes a pilot out of the task manager (remove_pilots)
    # shortly before it ends: its tasks are still its tasks
    removed = [p for p in pids if rng.random() < 0.2]
    return {'pids': pids, 'tasks': tasks, 'events': order,
            'waited': waited, 'late_binds': late, 'removed': removed,
            'foreign': rng.random() < 0.3,
            'resubmit': rng.random() < 0.4}


# ------------------------------------------------------------------------------
#
def snap(task):
    return {'state': task.state, 'exception': task.exception,
            'exception_detail': task.exception_detail, 'pilot': task.pilot}


_DESCR_OPTIONS = [{}, {}, {}, {}, {}, {}, {}, {},
                  {'restartable': True}, {'restartable': True},
                  {'stage_on_error': True}, {'name': 'named task'},
                  {'metadata': {'k': [1, 2]}}, {'tags': {'colocate': 'a'}},
                  {'priority': 3}, {'cleanup': True}]


def run_case(case, res):

    pm = make_pmgr()
    tm = make_tmgr()
    pilots = {pid: make_pilot(pm, pid) for pid in case['pids']}

    # a pilot which belongs to another task manager: its death must not
    # touch our tasks at all
    foreign = None
    if case['foreign']:
        tm2     = make_tmgr(uid='tmgr.0001')
        foreign = make_pilot(pm, 'pilot.9999')
        tm2.add_pilots(foreign)

    tm.add_pilots(list(pilots.values()))

    tasks = dict()
    for t in case['tasks']:
        kw = {}
        if t['bind'] == 'descr':
            kw['pilot'] = t['pilot']
        # optional description attributes (a third of the tasks carry one):
        # none of them exempts a task from the rule
        import zlib
        opt = _DESCR_OPTIONS[zlib.crc32(('%s/%d' % (t['uid'],
                             len(case['events']))).encode()) % len(_DESCR_OPTIONS)]
        kw.update(opt)
        for k in opt:
            res.see('description_options', k)
        task = make_task(tm, t['uid'], **kw)
        tasks[t['uid']] = task

        # drive the task to its state through the real update path
        st = t['state']
        d  = {'uid': t['uid'], 'type': 'task', 'state': st}
        if t['bind'] == 'update':
            d['pilot'] = t['pilot']
        if st in (rps.FAILED, rps.CANCELED):
            d['exception'] = 'orig(%s)' % t['uid'] if st == rps.FAILED else None
        elif t.get('pre_exc'):
            d['exception']        = 'RuntimeError("task failed")'
            d['exception_detail'] = 'exit code: 3'
            d['exit_code']        = 3
            res.count('nonfinal_tasks_with_error_record')
        tm._update_tasks([d])
        if task.state != st:
            res.inconc('could not drive %s to %s' % (t['uid'], st))
            return

    # an application which resubmits: its task state callback submits a new
    # task whenever one fails (the task manager's registry grows while the
    # manager is busy failing the tasks of a dead pilot)
    if case.get('resubmit'):
        res.count('histories_with_resubmitting_callback')
        counter = [0]
        def resubmit(task, state):
            if state == rps.FAILED:
                counter[0] += 1
                res.count('resubmissions')
                make_task(tm, 'resub.%d' % counter[0])
        tm.register_callback(resubmit)

    # the application has been waiting on tasks earlier on (for a non-final
    # state, with a timeout): whatever that call did must not change who is
    # failed when a pilot ends later
    if case.get('waited'):
        import radical.pilot.task as m_task
        class _VT(object):
            now = 1000.0
            def time(self): return self.now
            def sleep(self, dt): self.now += dt
            def __getattr__(self, name):
                import time as _t
                return getattr(_t, name)
        saved, m_task.time = m_task.time, _VT()
        try:
            for uid, st in case['waited']:
                if uid in tasks:
                    res.count('earlier_wait_calls')
                    try:
                        tasks[uid].wait(state=st, timeout=0.3)
                    except Exception:
                        pass
        finally:
            m_task.time = saved

    seq = list(case['events'])
    if foreign:
        seq.insert(len(seq) // 2, ['pilot.9999', rps.FAILED])

    dead = set()
    late = {}
    for lb in case.get('late_binds') or []:
        # positions refer to the pilots' own events
        late.setdefault(tuple(case['events'][lb['after']]), []).append(lb)
    for pid, pstate in seq:

        for lb in late.pop((pid, pstate), []):
            if pm._pilots[lb['pilot']].state in FINAL_STATES:
                continue            # (a duplicated final event came first)
            tm._update_tasks([{'uid': lb['uid'], 'type': 'task',
                               'state': lb['state'], 'pilot': lb['pilot']}])
            res.count('late_binds_applied')

        if pstate in FINAL_STATES and pid in (case.get('removed') or []) \
                and pid not in dead and pid in pilots:
            try:
                tm.remove_pilots(pid)
                res.count('pilots_removed_before_their_end')
            except Exception as e:
                res.inconc('remove_pilots raised in the harness: %r' % e)
                return
            dead.add(pid)

        before = {u: snap(t) for u, t in tasks.items()}
        exc = None
        try:
            pm._state_sub_cb(rpc.STATE_PUBSUB, {'cmd': 'update', 'arg': [
                        {'uid': pid, 'type': 'pilot', 'state': pstate}]})
        except Exception as e:
            exc = e
        after = {u: snap(t) for u, t in tasks.items()}

        pilot = pm._pilots[pid]
        final = pilot.state in FINAL_STATES
        if final:
            res.count('pilot_deaths')
            res.see('pilot_final_states', pilot.state)

        ctx = {'case': case, 'event': [pid, pstate], 'exception': repr(exc)
                                                      if exc else None}
        if exc:
            res.violation('callback-raised', 'pilot cb raised %r' % exc, ctx)
            return

        for u in tasks:
            b, a = before[u], after[u]
            own  = final and b['pilot'] == pid and pid != 'pilot.9999'
            if own and b['state'] not in FINAL_STATES:
                res.count('own_tasks_checked')
                res.see('own_states_at_death', b['state'])
                if a['state'] != rps.FAILED:
                    res.violation('own-task-not-failed',
                                  '%s on dead %s: %s' % (u, pid, a['state']),
                                  ctx)
                elif pid not in (str(a['exception']) +
                                 str(a['exception_detail'])):
                    res.violation('no-explanation',
                                  '%s failed without naming %s: %r / %r'
                                  % (u, pid, a['exception'],
                                     a['exception_detail']), ctx)
            else:
                res.count('bystanders_checked')
                kind = 'final' if b['state'] in FINAL_STATES else \
                       'unbound' if b['pilot'] is None else \
                       'other-pilot' if b['pilot'] != pid else 'own-nonfinal-pilot-alive'
                res.see('bystander_kinds', kind)
                if a != b:
                    res.violation('bystander-changed/%s' % kind,
                                  '%s (%s, pilot %s) changed when %s -> %s: '
                                  '%s -> %s' % (u, kind, b['pilot'], pid,
                                                pilot.state, b, a), ctx)
        if res.violations:
            return


# ------------------------------------------------------------------------------
# (b) a pilot ends while the application is submitting
#
# `submit_tasks` (application thread) registers new tasks under the manager's
# task lock while the pilot manager's thread walks the registry to fail the
# tasks of a final pilot.  Every non-final task the pilot had at that moment
# must end FAILED, whatever the interleaving.
#
def run_submit_race(case, res):
    import sys
    import time
    import threading as mt

    pm = make_pmgr()
    tm = make_tmgr()
    p  = make_pilot(pm, 'pilot.0000')
    tm.add_pilots(p)
    own = list()
    for i in range(case['n_own']):
        uid = 'own.%04d' % i
        own.append(make_task(tm, uid))
        tm._update_tasks([{'uid': uid, 'type': 'task',
                           'state': rps.AGENT_EXECUTING_PENDING,
                           'pilot': 'pilot.0000'}])
    stop = mt.Event()
    errs = list()

    def submitter():
        i = 0
        try:
            while not stop.is_set() and i < case['n_new']:
                with tm._tasks_lock:          # as TaskManager.submit_tasks
                    make_task(tm, 'new.%05d' % i)
                i += 1
        except Exception as e:
            errs.append('submit: %r' % e)

    def death():
        time.sleep(case['delay'])
        try:
            pm._state_sub_cb(rpc.STATE_PUBSUB, {'cmd': 'update', 'arg': [
                {'uid': 'pilot.0000', 'type': 'pilot',
                 'state': case['final']}]})
        except Exception as e:
            errs.append('pilot: %r' % e)

    old = sys.getswitchinterval()
    sys.setswitchinterval(1e-5)
    try:
        a = mt.Thread(target=submitter, name='app-submit')
        b = mt.Thread(target=death,     name='pmgr-cb')
        a.start(); b.start()
        b.join(timeout=60)
        stop.set()
        a.join(timeout=60)
    finally:
        sys.setswitchinterval(old)

    res.count('submit_race_histories')
    ctx = {'case': case, 'errors': errs}
    if a.is_alive() or b.is_alive():
        res.violation('submit-race/deadlock', 'threads did not finish', ctx)
        return
    for e in errs:
        res.violation('submit-race/raised', e, ctx)
        return
    bad = [t.uid for t in own if t.state != rps.FAILED]
    res.count('own_tasks_checked', len(own))
    if bad:
        res.violation('own-task-not-failed', '%d of %d non-final tasks of '
                      'the final pilot were not failed while the application '
                      'was submitting (e.g. %s)' % (len(bad), len(own),
                                                    bad[:3]), ctx)


# ------------------------------------------------------------------------------
# (c) the application closes the pilot manager
#
# `PilotManager.close(terminate=True)` cancels and kills the manager's pilots
# itself.  The launcher answers with the pilots' CANCELED notifications, which
# arrive on the state subscriber thread while the closing thread sits in
# `wait_pilots`.  These pilots are final like any other: the non-final tasks
# bound to them end FAILED and name the pilot, nothing else changes.
#
def run_close(case, res):
    import time
    import threading as mt

    pm = make_pmgr()
    tm = make_tmgr()
    pilots = {pid: make_pilot(pm, pid) for pid in case['pids']}
    tm.add_pilots(list(pilots.values()))

    class _Cmgr(object):
        def close(self): pass
    pm._cmgr        = _Cmgr()
    pm._term        = mt.Event()
    pm._subscribers = dict()
    pm.dump         = lambda name=None: None

    # an application callback on the manager and one on a pilot
    seen = list()
    pm.register_callback(lambda p, s: seen.append((p.uid, s)))

    tasks = dict()
    for t in case['tasks']:
        task = make_task(tm, t['uid'])
        tasks[t['uid']] = task
        d = {'uid': t['uid'], 'type': 'task', 'state': t['state']}
        if t['pilot']:
            d['pilot'] = t['pilot']
        tm._update_tasks([d])
        if task.state != t['state']:
            res.inconc('could not drive %s to %s' % (t['uid'], t['state']))
            return

    # pilots which ended before the close
    for pid in case['ended']:
        pm._state_sub_cb(rpc.STATE_PUBSUB, {'cmd': 'update', 'arg': [
                    {'uid': pid, 'type': 'pilot', 'state': rps.DONE}]})
    before = {u: snap(t) for u, t in tasks.items()}

    errs    = list()
    threads = list()
    def launcher(topic, msg):
        # the pmgr launcher component: enacts the command, reports the states
        if msg.get('cmd') != case['answer_to']:
            return
        uids = list(msg['arg']['uids'])
        def report():
            time.sleep(case['delay'])
            try:
                upd = [{'uid': uid, 'type': 'pilot', 'state': rps.CANCELED}
                       for uid in uids if uid not in case['ended']]
                if case['bulk']:
                    pm._state_sub_cb(rpc.STATE_PUBSUB, {'cmd': 'update',
                                                        'arg': upd})
                else:
                    for u in upd:
                        pm._state_sub_cb(rpc.STATE_PUBSUB, {'cmd': 'update',
                                                            'arg': [u]})
            except Exception as e:
                errs.append(repr(e))
        th = mt.Thread(target=report, name='pmgr-state-sub', daemon=True)
        threads.append(th)
        th.start()
    pm._publishers[rpc.CONTROL_PUBSUB].sink = launcher

    exc = None
    try:
        pm.close(terminate=True)
    except Exception as e:
        exc = e
    for th in threads:
        th.join(timeout=30)

    res.count('close_histories')
    ctx = {'case': case, 'errors': errs,
           'exception': repr(exc) if exc else None}
    if any(th.is_alive() for th in threads):
        res.inconc('close: the reporting thread did not finish')
        return
    if not threads:
        res.inconc('close: no %s command was published' % case['answer_to'])
        return
    if exc or errs:
        res.violation('close/raised', 'close %r, state updates %r'
                                      % (exc, errs), ctx)
        return
    for pid, p in pilots.items():
        if p.state not in FINAL_STATES:
            res.inconc('close: %s not final (%s)' % (pid, p.state))
            return

    for u, task in tasks.items():
        b, a = before[u], snap(task)
        pid  = b['pilot']
        if pid and pid not in case['ended'] and b['state'] not in FINAL_STATES:
            res.count('own_tasks_checked')
            res.count('own_tasks_checked_at_close')
            if a['state'] != rps.FAILED:
                res.violation('own-task-not-failed/close',
                              '%s on %s, which pmgr.close() terminated: %s'
                              % (u, pid, a['state']), ctx)
            elif pid not in (str(a['exception']) + str(a['exception_detail'])):
                res.violation('no-explanation',
                              '%s failed without naming %s: %r / %r'
                              % (u, pid, a['exception'],
                                 a['exception_detail']), ctx)
        else:
            res.count('bystanders_checked')
            if a != b:
                res.violation('bystander-changed/close',
                              '%s (pilot %s) changed in pmgr.close(): %s -> %s'
                              % (u, pid, b, a), ctx)


def gen_close_case(rng):
    n_p  = rng.randint(1, 3)
    pids = ['pilot.%04d' % i for i in range(n_p)]
    tasks = list()
    for i in range(rng.randint(1, 6)):
        pid = rng.choice(pids + [None])
        st  = rng.choice(_ORDER + [rps.FAILED, rps.CANCELED]) if pid else \
              rng.choice([rps.NEW, rps.TMGR_SCHEDULING_PENDING,
                          rps.TMGR_SCHEDULING, rps.CANCELED])
        tasks.append({'uid': 't.%d' % i, 'pilot': pid, 'state': st})
    return {'kind': 'close', 'pids': pids, 'tasks': tasks,
            'ended': [p for p in pids[1:] if rng.random() < 0.3],
            'answer_to': 'cancel_pilots' if rng.random() < 0.9
                                         else 'kill_pilots',
            'bulk': rng.random() < 0.5,
            'delay': rng.choice([0.0, 0.001, 0.01])}


def run(ctx):

    res = Result()
    rng = ctx.rng('race')
    for i in range(ctx.n(64, 8000)):
        case = {'kind': 'submit-race', 'n_own': rng.choice([50, 400, 1500]),
                'n_new': 4000, 'delay': rng.choice([0.0005, 0.002, 0.005]),
                'final': rng.choice([rps.FAILED, rps.DONE, rps.CANCELED])}
        run_submit_race(case, res)
        res.evaluations += 1
        if len(res.violations) > 30:
            break

    rng = ctx.rng('close')
    for i in range(ctx.n(150, 20000)):
        case = gen_close_case(rng)
        res.evaluations += 1
        n0 = len(res.violations)
        run_close(case, res)
        if len(res.violations) > 30 or res.inconclusive:
            break

    rng = ctx.rng('cases')

    for i in range(ctx.n(6000, 1500000)):
        case = gen_case(rng)
        res.evaluations += 1
        bound = {t['pilot'] for t in case['tasks'] if t['pilot']}
        if len(bound) >= 2 or any(t['pilot'] is None or t['state'] in FINAL_STATES
                                  for t in case['tasks']):
            res.digests.add(digest(case))
        if len(res.samples) < 2:
            res.samples.append(case)
        n0 = len(res.violations)
        run_case(case, res)
        if len(res.violations) > n0 + 30:
            break

    return res


def replay(case, ctx):
    res = Result()
    if case['case'].get('kind') == 'submit-race':
        for _ in range(10):
            run_submit_race(case['case'], res)
            if res.violations:
                break
        res.evaluations = 1
        return res
    if case['case'].get('kind') == 'close':
        run_close(case['case'], res)
        res.evaluations = 1
        return res
    run_case(case['case'], res)
    res.evaluations = 1
    return res
