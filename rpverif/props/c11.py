'''
C11 - Staging directives move the named data to the named place.

Monitor: the file trees of separate client / resource / session / pilot / task
sandbox directories (real files in a temp tree) before and after the four real
staging components, plus the task states those components publish and the
tasks they hand on.

The pipeline under observation is repository code only:

    rp.Task.__init__ -> expand_description -> expand_staging_directives
    TMGRSchedulingComponent._assign_pilot + Session._get_*_sandbox
    tmgr/staging_input  Default.work      (TRANSFER, TARBALL creation)
    agent/staging_input Default.work      (COPY, LINK, MOVE, untar)
    agent/staging_output Default.work     (COPY, LINK, MOVE, skip on failure)
    tmgr/staging_output Default.work      (TRANSFER, skip on failure)
    complete_url, StagingHelper / StagingHelper_Local

The components are built with their real constructors over the in-memory
transport (rpverif.memzmq), initialised with `_initialize()` and driven with
`work_cb()`; the driver only plays the roles of the proxy bridge (moves tasks
from one queue to the next) and of the executor (creates the files a task
would have produced, sets `target_state`).

Oracle: an independent resolver of the documented URL rules (docstring of
`complete_url`, docs/source/tutorials/staging_data.ipynb, TaskDescription
docstring) maps every generated location to a path in the temp tree; see
`Oracle`.  It never looks at what the code computed.
'''

import os
import shutil
import stat
import threading as mt
import collections

from ..core    import Result, digest
from ..harness import rp, ru, rps, rpc, NullLog, NullProf, make_tmgr, make_task
from ..harness import FINAL_STATES
from ..        import memzmq

import radical.pilot.staging_directives           as m_sd       # noqa
import radical.pilot.tmgr.scheduler.base          as m_tsched   # noqa
import radical.pilot.tmgr.staging_input.default   as m_tsi      # noqa
import radical.pilot.tmgr.staging_output.default  as m_tso      # noqa
import radical.pilot.agent.staging_input.default  as m_asi      # noqa
import radical.pilot.agent.staging_output.default as m_aso      # noqa

ID     = 'C11'
LEVEL  = 'exploration'
MANIFEST = {
    'technique': 'runtime monitoring: file-tree and task-state observation of '
                 'the four real staging components on real files, decided by '
                 'an independent URL resolver',
    'text': 'Generated task bulks (2-5 tasks, 0-3 input and 0-3 output '
            'directives each: all actions, all sandbox schemas, short/dict '
            'forms, explicit/default targets, absolute/relative/file:// '
            'paths, nested target dirs, names with spaces, directories, '
            'missing sources, blocked targets, host-qualified URLs, task '
            'outcomes DONE/FAILED/CANCELED with/without stage_on_error, custom task '
            'sandboxes) go through real Task construction, real sandbox '
            'assignment and the real tmgr/agent input and output stagers with '
            'the local backend.  After input staging and after the final '
            'state every directive target is compared with what an '
            'independent resolver of the documented URL rules expects '
            '(content, link identity, move semantics); task states and '
            'forwarding are compared with the expected outcome per task.'
            "  Second session: contract on the real complete_url: the caller's context (strings or ru.Url objects, as Pilot.stage_in uses) is unchanged by a call and the same question gets the same answer twice."
            "  Third session: pilot level - Pilot.stage_in / Pilot.stage_out (default and explicit directives, dict and list forms) of 1-3 pilots of one manager through the manager's real stager; the data must be at the place the call returns, with the content of THAT pilot."
            '  Several tasks may copy the same reference file to the same place in the pilot sandbox; a later failure of one of them leaves what the others staged.'
            '  Directory life cycles: 2-4 generations of tasks collect their outputs (COPY) in one directory of the pilot / session / resource sandbox through one agent output stager; between generations the directory is moved away as a whole (MOVE directive or renamed by a task): every directive succeeds, every file is where the directives put it.'
            '  File sizes: most sources hold a line of text, three in eight fill several I/O buffers (7000, 15000, 70000 bytes).',
    'note': 'only the local staging backend exists offline (no SAGA); the '
            'driver replaces the proxy bridge and the executor; sampled, not '
            'enumerated.'}
RULE   = ('seeded bulks of 2-5 tasks fed in one or two bulks per component; '
          'each directive draws action x source location/style x target '
          'location/style (or default target) x form x name flavour (plain, '
          'space, nested, directory) x fault (none, missing source, blocked '
          'target, host-qualified URL); tasks draw outcome x stage_on_error x '
          'sandbox kind; chains (client->pilot->task, task->pilot->client) '
          'are included.  Non-trivial = the bulk holds at least one '
          'directive; distinct = digest of the abstract case.')
ASSUMPTIONS = [
    'local staging backend only (radical.saga is not installed)',
    'COPY/LINK/MOVE are resource-local actions: client:// locations are not '
    'generated for them (session.py documents pilot-side staging from/to the '
    'client sandbox as unsupported)',
    'relative paths of COPY/LINK/MOVE directives are generated only where the '
    'user documentation and the agent agree on the default (input target and '
    'output source: task sandbox); relative input sources / output targets of '
    'agent-side actions are outside the domain (docs say client directory, '
    'the agent cannot reach it)',
    'targets never name an existing directory and never an existing file '
    '(cp/mv "into directory" semantics and overwriting are not decided)',
    'file names are free of URL-active characters (# ? %) and of < >; spaces '
    'are inside the domain',
    'TARBALL is generated for input staging only (no output-side tarball code '
    'exists); DOWNLOAD and endpoint:// are outside the property text',
    'FAILED / CANCELED tasks with stage_on_error: only observed (the property '
    'forbids staging without the flag, it does not require it with the flag); '
    'a CANCELED task with the flag and an infeasible output directive may end '
    'FAILED',
    'directories are generated as sources of TRANSFER/COPY/MOVE only '
    '(os.link cannot link directories) with non-existing targets',
    'an unwritable target is emulated by a regular file in the place of a '
    'parent directory (checks run as root, permission bits do not bind)']
SHARDS   = {'quick': 16, 'thorough': 16}
TIMEOUT  = {'quick': 240, 'thorough': 3000}
REQUIRED = {'input_directives_checked' : 1000,
            'output_directives_checked': 400,
            'failed_no_stage_checked'  : 150,
            'infeasible_checked'       : 250,
            'bystanders_checked'       : 300,
            'bulks_fed_after_a_failing_bulk': 40,
            'form_equivalences'        : 8000,
            'url_rule_checks'          : 300,
            'set:actions_in'           : 5,
            'set:actions_out'          : 4,
            'set:schemas'              : 8,
            'set:forms'                : 6,
            'set:faults'               : 5,
            'set:outcomes'             : 4}

SID = 'rp.session.verif.c11'
PID = 'pilot.0000'

QUEUES  = [rpc.TMGR_STAGING_INPUT_QUEUE, rpc.PROXY_TASK_QUEUE,
           rpc.AGENT_STAGING_INPUT_QUEUE, rpc.AGENT_SCHEDULING_QUEUE,
           rpc.AGENT_STAGING_OUTPUT_QUEUE, rpc.AGENT_COLLECTING_QUEUE,
           rpc.TMGR_STAGING_OUTPUT_QUEUE]
PUBSUBS = [rpc.CONTROL_PUBSUB, rpc.STATE_PUBSUB]

CLIENT_SIDE = (rpc.TRANSFER, rpc.TARBALL)
AGENT_SIDE  = (rpc.COPY, rpc.LINK, rpc.MOVE)
SCHEMAS     = ('client', 'resource', 'session', 'pilot', 'task')

# documented defaults for relative paths (and default targets) per stage
DEFAULT_LOC = {('in',  'src'): 'client', ('in',  'tgt'): 'task',
               ('out', 'src'): 'task',   ('out', 'tgt'): 'client'}


# ------------------------------------------------------------------------------
#
# harness objects
#
from ..harness import RealSession as HSession, _rcfgs      # noqa


# ------------------------------------------------------------------------------
#
class LightNet(memzmq.Net):
    '''
    memzmq.Net (pumped mode) whose event log keeps the uids instead of deep
    copies of queue payloads: the monitor reads the queues themselves and the
    state publications.  Messages still travel through msgpack.
    '''

    def q_put(self, url, qname, msgs, who=None):
        data = memzmq._wire(msgs)
        with self.cond:
            q = self.queues.setdefault(url, dict()).setdefault(
                                               qname, collections.deque())
            q.extend(data)
            self._event('put', url, qname, [m.get('uid') for m in data], who)
            self.cond.notify_all()

    def q_get(self, url, qname, timeout_ms=None, block=False, who=None):
        with self.cond:
            q = self.queues.get(url, {}).get(qname)
            if not q:
                return None
            out = [q.popleft() for _ in range(min(self.bulk_size, len(q)))]
            self._event('get', url, qname, [m.get('uid') for m in out], who)
            return out


class Pipeline(object):
    '''the four real staging components + real sandbox assignment'''

    def __init__(self, root, bases, seed=0):

        self.root  = root
        self.bases = bases
        self.net   = memzmq.install(LightNet(seed=seed, mode='pumped'))
        self.reg   = memzmq.RegistryClient(url='mem://reg')

        for q in QUEUES:
            self.reg['bridges.%s' % q] = {'addr_put': self.url(q),
                                          'addr_get': self.url(q)}
        for p in PUBSUBS:
            self.reg['bridges.%s' % p] = {'addr_pub': self.url(p),
                                          'addr_sub': self.url(p)}
        self.reg['cfg.session_sandbox'] = bases['session']

        self.session = HSession(SID, bases['client'], self.reg, root)

        # what pmgr hands to the tmgr: a pilot dict.  The sandbox hierarchy is
        # computed by the real Session methods from the description
        self.pilot = {'uid'          : PID,
                      'type'         : 'pilot',
                      'pilot_sandbox': '',
                      'description'  : {'resource'     : 'local.localhost',
                                        'access_schema': 'local',
                                        'sandbox'      : bases['workdir']}}

        self.sched = m_tsched.TMGRSchedulingComponent.__new__(
                                            m_tsched.TMGRSchedulingComponent)
        self.sched._session    = self.session
        self.sched._log        = NullLog()
        self.sched._tasks      = dict()
        self.sched._tasks_lock = mt.RLock()

        self.tsi = m_tsi.Default(self.ccfg('tmgr_staging_input.0000',
                                           'tmgr.0000'),  self.session)
        self.asi = m_asi.Default(self.ccfg('agent_staging_input.0000',
                                           'agent.0'),    self.session)
        self.aso = m_aso.Default(self.ccfg('agent_staging_output.0000',
                                           'agent.0'),    self.session)
        self.tso = m_tso.Default(self.ccfg('tmgr_staging_output.0000',
                                           'tmgr.0000'),  self.session)
        for comp in (self.tsi, self.asi, self.aso, self.tso):
            comp._initialize()

        self.backends = {type(c._stager._backend).__name__
                         for c in (self.tsi, self.asi, self.aso, self.tso)}
        self._pos   = 0
        self.states = collections.defaultdict(list)   # uid -> published states
        self.excs   = dict()                          # uid -> exception text

    def ccfg(self, uid, owner):
        return ru.Config(from_dict={'uid': uid, 'sid': SID, 'owner': owner,
                                    'reg_addr': 'mem://reg'})

    def url(self, channel):
        return 'mem://c11/%s' % channel

    def put(self, channel, things, qname=None):
        self.net.q_put(self.url(channel), qname or 'default',
                       ru.as_list(things), who='driver')

    def take(self, channel, qname=None):
        out = list()
        while True:
            got = self.net.q_get(self.url(channel), qname or 'default',
                                 who='driver')
            if not got:
                return out
            out.extend(got)

    def step(self, comp, channel, bulks, qname=None):
        '''feed bulks one by one: one work loop iteration per bulk'''
        for bulk in bulks:
            if not bulk:
                continue
            self.put(channel, bulk, qname)
            comp.work_cb()
            self.net.drain()
        self.harvest()

    def harvest(self):
        '''collect state publications since the last call'''
        with self.net.lock:
            evs = self.net.log[self._pos:]
            self._pos = len(self.net.log)
        for ev in evs:
            if ev['kind'] != 'pub' or \
               not ev['url'].endswith('/' + rpc.STATE_PUBSUB):
                continue
            msg = ev['payload']
            if not isinstance(msg, dict) or msg.get('cmd') != 'update':
                continue
            for thing in ru.as_list(msg.get('arg')):
                self.states[thing['uid']].append(thing['state'])
                if thing.get('exception'):
                    self.excs[thing['uid']] = str(thing['exception'])[:300]

    def finals(self, uid):
        return {s for s in self.states[uid] if s in FINAL_STATES}

    def logged(self):
        out = list()
        for name, log in self.session.logs:
            for args, exc in log.exceptions:
                out.append('%s: %s' % (name, exc))
        return out[:8]

    def close(self):
        for comp in (self.tsi, self.asi, self.aso, self.tso):
            try:
                comp._term.set()
            except Exception:
                pass
        self.net.close()
        memzmq.uninstall()


# ------------------------------------------------------------------------------
#
# oracle: independent resolver of the documented URL rules
#
class Oracle(object):
    '''
    Documented rules (complete_url docstring, staging_data tutorial):
      client://   -> client working directory
      resource:// -> <workdir>/radical.pilot.sandbox
      session://  -> <resource sandbox>/<session id>
      pilot://    -> <session sandbox>/<pilot id>
      task://     -> <pilot sandbox>/<task id>   (or the description's
                     `sandbox`: relative to the pilot sandbox, or absolute)
      schema:///p -> p relative to that directory; schema:// == schema:///
      file://..., absolute paths -> absolute location, unaltered
      relative paths -> input: source in the client directory, target in the
                        task sandbox; output: source in the task sandbox,
                        target in the client directory
      missing target -> base name of the source in the default target location
    '''

    def __init__(self, root):
        wd = os.path.join(root, 'remote')
        rs = os.path.join(wd, 'radical.pilot.sandbox')
        ss = os.path.join(rs, SID)
        ps = os.path.join(ss, PID)
        self.bases = {'workdir' : wd,
                      'client'  : os.path.join(root, 'client'),
                      'ext'     : os.path.join(root, 'ext'),
                      'resource': rs,
                      'session' : ss,
                      'pilot'   : ps}

    def task_sandbox(self, task):
        kind = task['sandbox']
        if kind == 'default':
            return os.path.join(self.bases['pilot'], task['uid'])
        if kind == 'named':
            return os.path.join(self.bases['pilot'], 'sbx_' + task['uid'])
        if kind in NAMED_FORMS:
            # relative names are relative to the pilot sandbox, whatever
            # they start with
            return os.path.normpath(os.path.join(self.bases['pilot'],
                                    NAMED_FORMS[kind] % task['uid']))
        return os.path.join(self.bases['ext'], 'abs_sbx_' + task['uid'])

    def td_sandbox(self, task):
        '''value of TaskDescription.sandbox'''
        kind = task['sandbox']
        if kind == 'default': return None
        if kind == 'named'  : return 'sbx_' + task['uid']
        if kind in NAMED_FORMS: return NAMED_FORMS[kind] % task['uid']
        return self.task_sandbox(task)

    def base(self, loc, task):
        if loc == 'task':
            return self.task_sandbox(task)
        return self.bases[loc]

    def path(self, p, stage, role, task):
        '''expected absolute path of a generated location'''
        loc = p['loc']
        if p['style'] == 'rel':
            loc = DEFAULT_LOC[(stage, role)]
        return os.path.normpath(os.path.join(self.base(loc, task), p['rel']))

    def target(self, d, stage, task):
        if d['tgt'] is None:
            loc  = DEFAULT_LOC[(stage, 'tgt')]
            name = os.path.basename(d['src']['rel'])
            return os.path.normpath(os.path.join(self.base(loc, task), name))
        return self.path(d['tgt'], stage, 'tgt', task)

    def source(self, d, stage, task):
        return self.path(d['src'], stage, 'src', task)

    # -- what the application writes into the description ----------------------
    def spell(self, p, task):
        style = p['style']
        if style == 'schema':
            return '%s:///%s' % (p['loc'], p['rel'])
        if style == 'rel':
            return p['rel']
        path = os.path.join(self.base(p['loc'], task), p['rel'])
        if style == 'abs':
            return path
        if style == 'fileurl':
            return 'file://localhost' + path
        if style == 'fileurl0':
            return 'file://' + path
        if style == 'host':
            # host-qualified form of an expanded schema: documented as invalid
            return '%s://%s' % (p['loc'], p['rel'])
        raise ValueError(style)

    def directive(self, d, task):
        '''the directive in the form the application would write it'''
        src = self.spell(d['src'], task)
        tgt = self.spell(d['tgt'], task) if d['tgt'] else None
        form = d['form']
        if form == 'bare': return src
        if form == '>'   : return '%s > %s'  % (src, tgt)
        if form == '>>'  : return '%s >> %s' % (src, tgt)
        if form == '<'   : return '%s < %s'  % (tgt, src)
        if form == '<<'  : return '%s << %s' % (tgt, src)
        ret = {'source': src, 'action': d['action']}
        if tgt is not None:
            ret['target'] = tgt
        if form == 'dict+flags':
            ret['flags'] = rpc.CREATE_PARENTS | \
                           (rpc.RECURSIVE if d['kind'] == 'dir' else 0)
        if form == 'dict-action':
            del ret['action']           # default action is TRANSFER
        return ret

    def expanded(self, d, task):
        '''(source, target, action) every form must expand to'''
        src = self.spell(d['src'], task)
        if d['tgt']:
            tgt = self.spell(d['tgt'], task)
        else:
            tgt = os.path.basename(d['src']['rel'])
        return src, tgt, d['action']


# ------------------------------------------------------------------------------
#
# generator
#
def _name(rng, tag, flavour):
    # the base name carries the tag: default targets must not collide
    stem = rng.choice(['data', 'in', 'out', 'f', 'x'])
    ext  = rng.choice(['.dat', '.txt', '', '.tar.gz'])
    base = '%s_%s%s' % (tag, stem, ext)
    if flavour == 'space':
        return rng.choice(['%s %s%s' % (tag, stem, ext),
                           'd %s/%s'  % (tag, base),
                           '%s  two%s' % (tag, ext)])
    if flavour == 'nested':
        return rng.choice(['n_%s/%s'     % (tag, base),
                           'n_%s/%s'     % (tag, base),
                           'n_%s/a/b/%s' % (tag, base),
                           'n_%s/./%s'   % (tag, base)])
    return base


def _loc_style(rng, side, stage, role, allow_rel=True):
    '''draw (loc, style) from the domain of a stager side'''

    default = DEFAULT_LOC[(stage, role)]
    if side == 'client':
        locs = ['client', 'resource', 'session', 'pilot', 'task', 'ext']
        # bias towards the usual direction
        locs += [default] * 4
    else:
        locs = ['resource', 'session', 'pilot', 'task', 'ext']
        locs += ['task', 'pilot']

    loc = rng.choice(locs)
    if loc == 'ext':
        style = rng.choice(['abs', 'fileurl', 'fileurl0'])
    else:
        styles = ['schema', 'schema', 'schema', 'abs', 'fileurl']
        if loc == default and allow_rel:
            styles += ['rel', 'rel', 'rel']
        style = rng.choice(styles)
    return loc, style


def gen_directive(rng, stage, tag, action=None):

    if action is None:
        if stage == 'in':
            action = rng.choice([rpc.TRANSFER] * 5 + [rpc.COPY] * 2 +
                                [rpc.LINK] * 2 + [rpc.MOVE] * 2 +
                                [rpc.TARBALL] * 2)
        else:
            action = rng.choice([rpc.TRANSFER] * 4 + [rpc.COPY] * 2 +
                                [rpc.LINK] * 2 + [rpc.MOVE] * 2)

    side = 'client' if action in CLIENT_SIDE else 'agent'

    # relative paths of agent-side actions only where docs and agent agree
    rel_src = side == 'client' or stage == 'out'
    rel_tgt = side == 'client' or stage == 'in'

    flavour = rng.choice(['plain'] * 6 + ['space'] * 2 + ['nested'] * 2)
    kind    = 'file'
    if action in (rpc.TRANSFER, rpc.COPY, rpc.MOVE) and rng.random() < 0.05:
        kind = 'dir'

    sloc, sstyle = _loc_style(rng, side, stage, 'src', rel_src)
    src = {'loc': sloc, 'style': sstyle,
           'rel': _name(rng, 's' + tag, rng.choice(['plain', 'plain', 'nested',
                                                     flavour, flavour]))}

    fault = None
    roll  = rng.random()
    if   roll < 0.07: fault = 'missing'
    elif roll < 0.11: fault = 'blocked'
    elif roll < 0.15: fault = 'blocked-nested'
    elif roll < 0.17: fault = 'host'
    if action == rpc.TARBALL and fault in ('blocked', 'blocked-nested'):
        # a tarball target is only written when the agent unpacks
        fault = 'missing'

    # explicit or default target
    tgt = None
    dflt_loc = DEFAULT_LOC[(stage, 'tgt')]
    explicit = rng.random() < 0.7 or fault in ('blocked', 'blocked-nested',
                                               'host')
    if not explicit:
        # a default target must differ from the source
        same = (sloc == dflt_loc or sstyle == 'rel' and
                DEFAULT_LOC[(stage, 'src')] == dflt_loc) and \
               '/' not in src['rel']
        if same or (side == 'agent' and not rel_tgt):
            explicit = True
    if explicit:
        tloc, tstyle = _loc_style(rng, side, stage, 'tgt', rel_tgt)
        tgt = {'loc': tloc, 'style': tstyle,
               'rel': _name(rng, 't' + tag, flavour)}
        if fault is None and tstyle == 'schema' and kind == 'file' and \
                tag.endswith('0') and rng.random() < 0.25:
            # a target FILE which is named like a directory that exists on
            # the host (tmp, usr ...): `task:///tmp` is `<task sandbox>/tmp`,
            # whatever the host's root directory contains
            tgt['rel'] = rng.choice(['tmp', 'usr', 'var', 'etc', 'opt'])
            tgt['hostdir_name'] = True
        if fault == 'blocked':
            tgt['rel'] = 'blk_%s/%s'   % (tag, os.path.basename(tgt['rel']))
        elif fault == 'blocked-nested':
            tgt['rel'] = 'blk_%s/d/%s' % (tag, os.path.basename(tgt['rel']))

    if fault == 'host':
        ctx_schemas = ['task', 'pilot', 'session', 'resource']
        if side == 'client':
            ctx_schemas.append('client')
        src = {'loc': rng.choice(ctx_schemas), 'style': 'host',
               'rel': 'host_%s.dat' % tag}

    # form
    if action == rpc.TRANSFER:
        if tgt is None:
            form = rng.choice(['bare', 'bare', 'dict', 'dict-action'])
        else:
            form = rng.choice(['>', '>>', '<', '<<', 'dict', 'dict+flags',
                               'dict-action'])
    else:
        form = rng.choice(['dict', 'dict', 'dict+flags'])
    if kind == 'dir' and form.startswith('dict'):
        form = 'dict+flags'

    # file sizes: mostly a line of text; some fill several I/O buffers
    import zlib
    pad = [0, 0, 0, 0, 0, 7000, 15000, 70000][
              zlib.crc32(('%s/%s/%s' % (tag, src['rel'], form)).encode()) % 8]
    return {'action': action, 'form': form, 'src': src, 'tgt': tgt,
            'kind': kind, 'fault': fault, 'tag': tag, 'chain': None,
            'pad': pad}


def gen_chain(rng, stage, tag):
    '''two directives, the second one starts where the first one ended'''

    mid_loc = rng.choice(['pilot', 'session', 'resource'])
    mid     = {'loc': mid_loc, 'style': 'schema',
               'rel': 'chain/%s_mid.dat' % tag}
    second  = rng.choice([rpc.COPY, rpc.LINK])
    if stage == 'in':
        d1 = {'action': rpc.TRANSFER, 'form': rng.choice(['>', 'dict', '<']),
              'src': {'loc': 'client', 'style': rng.choice(['schema', 'rel']),
                      'rel': 's%sa_chain.dat' % tag},
              'tgt': dict(mid), 'kind': 'file', 'fault': None,
              'tag': tag + 'a', 'chain': None}
        d2 = {'action': second, 'form': 'dict',
              'src': dict(mid),
              'tgt': {'loc': 'task', 'style': rng.choice(['schema', 'rel']),
                      'rel': 't%sb_chain.dat' % tag},
              'kind': 'file', 'fault': None, 'tag': tag + 'b', 'chain': 'prev',
              'ctag': tag + 'a'}
    else:
        d1 = {'action': second, 'form': 'dict',
              'src': {'loc': 'task', 'style': rng.choice(['schema', 'rel']),
                      'rel': 's%sa_chain.dat' % tag},
              'tgt': dict(mid), 'kind': 'file', 'fault': None,
              'tag': tag + 'a', 'chain': None}
        d2 = {'action': rpc.TRANSFER, 'form': rng.choice(['>', 'dict', '<<']),
              'src': dict(mid),
              'tgt': {'loc': 'client', 'style': rng.choice(['schema', 'rel']),
                      'rel': 't%sb_chain.dat' % tag},
              'kind': 'file', 'fault': None, 'tag': tag + 'b', 'chain': 'prev',
              'ctag': tag + 'a'}
    return [d1, d2]


# less common forms of a named (relative) task sandbox
NAMED_FORMS = {'hidden' : '.hid_%s',
               'up'     : '../up_%s',
               'dotrel' : './dr_%s/',
               'nested' : 'nest/ed_%s'}


def gen_case(rng, idx):

    tasks = list()
    for t in range(rng.choice([2, 2, 3, 3, 4, 5])):
        uid  = 'task.%06d' % t
        task = {'uid'           : uid,
                'sandbox'       : rng.choice(['default'] * 7 + ['named'] * 2 +
                                             ['abs'] + sorted(NAMED_FORMS)),
                'outcome'       : rng.choice([rps.DONE] * 4 + [rps.FAILED] * 2 +
                                             [rps.CANCELED]),
                'stage_on_error': rng.random() < 0.35,
                'inputs'        : list(),
                'outputs'       : list()}
        for stage, key, weights in (('in',  'inputs',  [0, 1, 1, 2, 2, 3]),
                                    ('out', 'outputs', [0, 1, 1, 2, 3])):
            n = rng.choice(weights)
            i = 0
            while i < n:
                tag = 't%d%s%d' % (t, stage[0], i)
                if rng.random() < 0.12:
                    task[key].extend(gen_chain(rng, stage, tag))
                    i += 2
                else:
                    task[key].append(gen_directive(rng, stage, tag))
                    i += 1
        tasks.append(task)

    # data shared by several tasks: each of them copies the same reference
    # file to the same place in the pilot sandbox (agent side); the last one
    # then fails on a later directive.  What the earlier tasks staged stays.
    if len(tasks) >= 2 and rng.random() < 0.25:
        k = rng.randint(2, min(3, len(tasks)))
        sharing = rng.sample(tasks, k)
        for n, task in enumerate(sharing):
            t  = int(task['uid'].split('.')[-1])
            sh = {'action': rpc.COPY, 'form': 'dict',
                  'src': {'loc': 'resource', 'style': 'schema',
                          'rel': 'shared_ref_src.dat'},
                  'tgt': {'loc': 'pilot', 'style': 'schema',
                          'rel': 'shared_ref.dat'},
                  'kind': 'file', 'fault': None, 'tag': 'sh%d' % t,
                  'ctag': 'shared', 'chain': None}
            task['inputs'].insert(0, sh)
        last = sharing[-1]
        t    = int(last['uid'].split('.')[-1])
        last['inputs'].append(
                 {'action': rpc.COPY, 'form': 'dict',
                  'src': {'loc': 'resource', 'style': 'schema',
                          'rel': 'not_there_%d.dat' % t},
                  'tgt': {'loc': 'task', 'style': 'schema',
                          'rel': 'never_%d.dat' % t},
                  'kind': 'file', 'fault': 'missing', 'tag': 'shx%d' % t,
                  'chain': None})

    # names like `tmp` or `usr` are not unique: keep the first use per place,
    # give the others their regular (tag carrying) name back
    used = set()
    for task in tasks:
        named = task['sandbox'] != 'default'
        for d in task['inputs'] + task['outputs']:
            tgt = d.get('tgt')
            if not tgt or not tgt.get('hostdir_name'):
                continue
            # a task sandbox is its own place only if it is the default one
            place = (tgt['loc'], tgt['rel'],
                     task['uid'] if tgt['loc'] == 'task' and not named
                     else None)
            if place in used:
                tgt['rel'] = '%s_%s' % (d['tag'], tgt['rel'])
                del tgt['hostdir_name']
            used.add(place)

    return {'id': idx, 'tasks': tasks, 'cut': rng.randint(0, len(tasks))}


# ------------------------------------------------------------------------------
#
# file helpers
#
def content_of(d):
    # the second step of a chain carries the data of the first one
    return 'content of %s\n' % d.get('ctag', d['tag']) + 'x' * d.get('pad', 0)


def make_source(path, d):
    os.makedirs(os.path.dirname(path), exist_ok=True)
    if d['kind'] == 'dir':
        os.makedirs(os.path.join(path, 'sub'))
        with open(os.path.join(path, 'a.dat'), 'w') as fout:
            fout.write(content_of(d) + 'a')
        with open(os.path.join(path, 'sub', 'b c.dat'), 'w') as fout:
            fout.write(content_of(d) + 'b')
    else:
        with open(path, 'w') as fout:
            fout.write(content_of(d))


def fingerprint(path):
    '''None | ('file', content) | ('dir', {rel: content})'''
    try:
        st = os.stat(path)
    except OSError:
        if os.path.islink(path):
            return ('dangling', os.readlink(path))
        return None
    if stat.S_ISDIR(st.st_mode):
        out = dict()
        for base, _, files in os.walk(path):
            for f in files:
                full = os.path.join(base, f)
                with open(full, errors='replace') as fin:
                    out[os.path.relpath(full, path)] = fin.read()
        return ('dir', out)
    with open(path, errors='replace') as fin:
        return ('file', fin.read())


def expected_print(d):
    if d['kind'] == 'dir':
        return ('dir', {'a.dat'                     : content_of(d) + 'a',
                        os.path.join('sub', 'b c.dat'): content_of(d) + 'b'})
    return ('file', content_of(d))


def whereabouts(root, d):
    '''violation message helper: where did the data end up?'''
    needle = content_of(d)
    found  = list()
    for base, _, files in os.walk(root):
        for f in files:
            full = os.path.join(base, f)
            try:
                with open(full, errors='replace') as fin:
                    if fin.read(len(needle)) == needle:
                        found.append(os.path.relpath(full, root))
            except OSError:
                pass
    return sorted(found)[:6]


def has_space(*paths):
    return any(' ' in p for p in paths)


# ------------------------------------------------------------------------------
#
def infeasible_mechanism(d):
    '''key for "a directive which cannot be carried out did not fail its task"'''
    if d['action'] in (rpc.COPY, rpc.TRANSFER):
        if d['fault'] == 'missing':
            return 'copy-missing-source-not-failed'
        if d['fault'] in ('blocked', 'blocked-nested'):
            return 'copy-unwritable-target-not-failed'
    return 'infeasible-directive-not-failed'


def check_target(d, stage, task, orc, root):
    '''[(mechanism, message)] for one directive which must have been enacted'''

    out = list()
    src = orc.source(d, stage, task)
    tgt = orc.target(d, stage, task)
    act = d['action']
    got = fingerprint(tgt)
    exp = expected_print(d)
    rel = os.path.relpath(tgt, root)

    if got is None or got[0] == 'dangling':
        # the two recorded defects get their own keys only when the witness
        # shows that mechanism: the tarball arrived but was not unpacked / the
        # data of a space-named copy was not put anywhere
        where   = whereabouts(root, d)
        tarball = os.path.join(orc.task_sandbox(task), '%s.tar' % task['uid'])
        if act == rpc.TARBALL and os.path.isfile(tarball):
            mech = 'tarball-not-unpacked'
        elif act in (rpc.COPY, rpc.TRANSFER) and has_space(src, tgt) \
                and not [w for w in where if not os.path.join(root, w)
                                                        .startswith(src)]:
            mech = 'copy-name-with-space-not-staged'
        else:
            mech = 'target-missing'
        out.append((mech, '%s %s directive %s: expected target %s does not '
                          'exist (%s); data found at %s'
                          % (stage, act, d['tag'], rel, got,
                             where)))
        return out

    if got != exp:
        out.append(('target-wrong-content',
                    '%s %s directive %s: target %s holds %r, expected %r'
                    % (stage, act, d['tag'], rel, str(got)[:200],
                       str(exp)[:200])))
        return out

    if act == rpc.LINK:
        try:
            same = os.path.samefile(src, tgt)
        except OSError:
            same = False
        if not same:
            out.append(('link-not-a-link',
                        '%s Link directive %s: target %s is not a link to '
                        'its source' % (stage, d['tag'], rel)))
    elif act == rpc.MOVE:
        if os.path.lexists(src):
            out.append(('move-source-remains',
                        '%s Move directive %s: source %s still exists'
                        % (stage, d['tag'], os.path.relpath(src, root))))
    else:
        if fingerprint(src) != exp:
            out.append(('copy-source-changed',
                        '%s %s directive %s: source %s is gone or changed'
                        % (stage, act, d['tag'], os.path.relpath(src, root))))
    return out


# ------------------------------------------------------------------------------
#
def check_forms(d, task, orc, res, witness):
    '''
    all documented spellings of one directive expand (real
    expand_staging_directives) to the same (source, target, action)
    '''
    src, tgt, act = orc.expanded(d, task)
    spellings = [{'source': src, 'target': tgt, 'action': act}]
    if act == rpc.TRANSFER:
        spellings += ['%s > %s'  % (src, tgt), '%s >> %s' % (src, tgt),
                      '%s < %s'  % (tgt, src), '%s << %s' % (tgt, src),
                      '%s>%s'    % (src, tgt), '%s<%s'    % (tgt, src),
                      {'source': src, 'target': tgt}]
        if d['tgt'] is None:
            spellings += [src, {'source': src}]
    elif d['tgt'] is None:
        spellings += [{'source': src, 'action': act}]

    for sp in spellings:
        try:
            got = m_sd.expand_staging_directives([sp])
            got = [(g['source'], g['target'], g['action']) for g in got]
        except Exception as e:
            got = repr(e)
        res.count('form_equivalences')
        if got != [(src, tgt, act)]:
            res.violation('form-expansion-differs',
                          'spelling %r expands to %r, expected %r'
                          % (sp, got, (src, tgt, act)), witness)
            return False
    return True


def check_url_rules(res, rng):
    '''the documented URL rules, on the real complete_url'''

    bases = {'client'  : '/w/client',
             'resource': 'file://localhost/w/rp.sandbox',
             'session' : 'file://localhost/w/rp.sandbox/sid',
             'pilot'   : 'file://localhost/w/rp.sandbox/sid/pilot.0000/',
             'task'    : 'file://localhost/w/rp.sandbox/sid/pilot.0000/t.0/'}

    def npath(url):
        return os.path.normpath(ru.Url(str(url)).path)

    def ctx_view(c):
        return {k: str(v) for k, v in c.items()}

    _real_complete = m_sd.complete_url

    class _Guard(object):
        '''
        contract on the real function: a call leaves the caller's context as it
        was (Pilot and the stagers keep one context dict, holding `ru.Url`
        objects, for all their directives), and asking the same question of
        the same context twice gives the same answer
        '''
        @staticmethod
        def complete_url(path, context, *a, **k):
            before = ctx_view(context)
            got    = _real_complete(path, context, *a, **k)
            after  = ctx_view(context)
            res.count('url_context_contract_evals')
            if after != before:
                diff = {key: (before[key], after[key]) for key in before
                        if before[key] != after.get(key)}
                res.violation('url-context-mutated',
                              'complete_url(%r) changed its context: %r'
                              % (path, diff), {'url': path, 'context': before})
                # restore, so that one defect is reported once per call
                for key, val in before.items():
                    context[key] = type(context[key])(val) \
                                   if not isinstance(context[key], str) else val
            again = _real_complete(path, context, *a, **k)
            if str(again) != str(got):
                res.violation('url-not-repeatable',
                              'complete_url(%r) -> %r, then %r'
                              % (path, str(got), str(again)),
                              {'url': path, 'context': before})
            for key, val in before.items():
                if str(context[key]) != val:
                    context[key] = type(context[key])(val) \
                                   if not isinstance(context[key], str) else val
            return got

    for pwd, as_url in (('client', False), ('task', False),
                        ('client', True),  ('task', True)):
        ctx = dict(bases)
        ctx['pwd'] = bases[pwd]
        if as_url:
            # the form Pilot.stage_in / stage_out use: sandboxes as Url objects
            ctx = {k: ru.Url(v) for k, v in ctx.items()}
            res.count('url_contexts_with_url_objects')
        for schema in SCHEMAS:
            base = npath(bases[schema])
            rel  = rng.choice(['a.dat', 'd/a.dat', 'a b.dat', 'd/e/f'])
            for spelled, exp in (('%s://'    %  schema,       base),
                                 ('%s:///'   %  schema,       base),
                                 ('%s:///%s' % (schema, rel),
                                                os.path.join(base, rel))):
                res.count('url_rule_checks')
                try:
                    got = npath(_Guard.complete_url(spelled, ctx))
                except Exception as e:
                    got = repr(e)
                if got != exp:
                    res.violation('url-rule/schema',
                                  'complete_url(%r) -> %r, documented: %r'
                                  % (spelled, got, exp),
                                  {'url': spelled, 'context': ctx})
        for spelled, exp in (('x/y.dat', os.path.join(npath(bases[pwd]),
                                                      'x/y.dat')),
                             ('/abs/y.dat',                '/abs/y.dat'),
                             ('file:///abs/y.dat',         '/abs/y.dat'),
                             ('file://localhost/abs/y.dat', '/abs/y.dat')):
            res.count('url_rule_checks')
            try:
                got = npath(_Guard.complete_url(spelled, ctx))
            except Exception as e:
                got = repr(e)
            if got != exp:
                res.violation('url-rule/path',
                              'complete_url(%r) -> %r, documented: %r'
                              % (spelled, got, exp),
                              {'url': spelled, 'context': ctx})
        # other schemas are left alone
        res.count('url_rule_checks')
        other = 'https://host.net/p/q.dat'
        got   = str(_Guard.complete_url(other, ctx))
        if got != other:
            res.violation('url-rule/other',
                          'complete_url(%r) -> %r' % (other, got),
                          {'url': other, 'context': ctx})


# ------------------------------------------------------------------------------
#
def halves(items, cut):
    return [items[:cut], items[cut:]]


def clean_tree(root, keep):
    '''
    empty the tree but keep the skeleton directories (rmdir is the most
    expensive file system call here, so the sandbox skeleton is reused)
    '''
    for base, dirs, files in os.walk(root, topdown=False):
        for f in files:
            os.unlink(os.path.join(base, f))
        for d in dirs:
            full = os.path.join(base, d)
            if os.path.islink(full):
                os.unlink(full)
            elif full not in keep:
                os.rmdir(full)


def run_case(case, res, workdir):

    root = os.path.join(os.path.realpath(workdir), 'tree')
    orc  = Oracle(root)
    keep = set()
    for d in ('client', 'ext', 'workdir', 'pilot'):
        path = orc.bases[d]
        os.makedirs(path, exist_ok=True)
        while path != root:
            keep.add(path)
            path = os.path.dirname(path)
    clean_tree(root, keep)

    pipe = Pipeline(root, orc.bases, seed=0)
    try:
        _run_case(case, res, root, orc, pipe)
    finally:
        pipe.close()
        clean_tree(root, keep)


def _run_case(case, res, root, orc, pipe):

    spec  = {t['uid']: t for t in case['tasks']}
    order = [t['uid'] for t in case['tasks']]
    n0    = len(res.violations)

    def witness(**kw):
        w = {'case': case, 'logged': pipe.logged(),
             'published': {u: pipe.states[u] for u in order},
             'exceptions': dict(pipe.excs)}
        w.update(kw)
        return w

    def violation(mech, msg, **kw):
        res.violation(mech, msg, witness(**kw))

    for b in pipe.backends:
        res.see('backends', b)
    if pipe.backends != {'StagingHelper_Local'}:
        res.inconc('staging backend is %s' % sorted(pipe.backends))
        return

    # -- real Task construction: expansion of the directives -------------------
    tm    = make_tmgr(session=pipe.session)
    dicts = dict()
    for t in case['tasks']:
        kw = {'input_staging' : [orc.directive(d, t) for d in t['inputs']],
              'output_staging': [orc.directive(d, t) for d in t['outputs']],
              'stage_on_error': t['stage_on_error']}
        if orc.td_sandbox(t):
            kw['sandbox'] = orc.td_sandbox(t)
        try:
            task = make_task(tm, t['uid'], **kw)
        except Exception as e:
            violation('task-construction-raised',
                      'rp.Task(%r) raised %r' % (kw, e))
            return
        td = task.as_dict()
        for key, ds in (('input_staging', t['inputs']),
                        ('output_staging', t['outputs'])):
            got = [(str(g['source']), str(g['target']), g['action'])
                   for g in td['description'][key]]
            exp = [orc.expanded(d, t) for d in ds]
            res.count('expansions_checked', len(ds))
            if got != exp:
                violation('expansion-wrong',
                          '%s %s expanded to %r, expected %r'
                          % (t['uid'], key, got, exp))
                return
            for d in ds:
                res.see('forms', d['form'].split('+')[0].split('-')[0])
                if not check_forms(d, t, orc, res, {'case': case,
                                                    'directive': d}):
                    return

        # real sandbox assignment (what the tmgr scheduler does)
        pipe.sched._assign_pilot(td, pipe.pilot)
        exp_sbox = orc.task_sandbox(t)
        res.count('sandboxes_checked')
        res.see('sandbox_kinds', t['sandbox'])
        for key, exp in (('client_sandbox',   orc.bases['client']),
                         ('resource_sandbox', orc.bases['resource']),
                         ('session_sandbox',  orc.bases['session']),
                         ('pilot_sandbox',    orc.bases['pilot']),
                         ('task_sandbox',     exp_sbox)):
            got = os.path.normpath(ru.Url(td[key]).path)
            if got != exp:
                violation('sandbox-wrong',
                          '%s %s is %s, documented layout gives %s'
                          % (t['uid'], key, got, exp))
                return
        td['state'] = rps.TMGR_STAGING_INPUT_PENDING
        dicts[t['uid']] = td

    # -- files the application provides before submission ----------------------
    for t in case['tasks']:
        for d in t['inputs']:
            res.see('actions_in', d['action'])
            res.see('faults', str(d['fault']))
            res.see('kinds', d['kind'])
            for role in ('src', 'tgt'):
                p = d[role]
                if p:
                    res.see('schemas', p['loc'] if p['style'] in
                            ('schema', 'host') else p['style'])
                    res.see('cells_in', '%s %s %s/%s' % (d['action'], role,
                                                         p['loc'], p['style']))
                else:
                    res.see('cells_in', '%s tgt default' % d['action'])
            if d['fault'] != 'host' and d['fault'] != 'missing' \
                                    and d['chain'] is None:
                make_source(orc.source(d, 'in', t), d)
            if d['fault'] in ('blocked', 'blocked-nested'):
                tgt = orc.target(d, 'in', t)
                blk = tgt[:tgt.index('/blk_')] + '/blk_' + d['tag']
                os.makedirs(os.path.dirname(blk), exist_ok=True)
                with open(blk, 'w') as fout:
                    fout.write('not a directory\n')

    def infeasible(ds):
        return [d for d in ds if d['fault']]

    # -- stage 1 + 2: tmgr stage-in, agent stage-in ----------------------------
    cut = case['cut']
    if order[cut:] and any(infeasible(spec[u]['inputs']) for u in order[:cut]):
        res.count('bulks_fed_after_a_failing_bulk')
    pipe.step(pipe.tsi, rpc.TMGR_STAGING_INPUT_QUEUE,
              halves([dicts[u] for u in order], cut))
    fwd1 = pipe.take(rpc.PROXY_TASK_QUEUE, qname=PID)
    res.count('tasks_through_tmgr_in', len(fwd1))

    for td in fwd1:
        if td['state'] != rps.AGENT_STAGING_INPUT_PENDING:
            violation('forwarded-in-wrong-state',
                      '%s left tmgr stage-in in state %s'
                      % (td['uid'], td['state']))
            return
    # the proxy keeps the order; feed the agent in one or two bulks
    pipe.step(pipe.asi, rpc.AGENT_STAGING_INPUT_QUEUE,
              halves(fwd1, min(cut, len(fwd1))))
    fwd2 = pipe.take(rpc.AGENT_SCHEDULING_QUEUE)
    res.count('tasks_through_agent_in', len(fwd2))

    passed  = {td['uid']: td for td in fwd2}
    n_fwd   = collections.Counter(td['uid'] for td in fwd1 + fwd2)
    any_bad = any(infeasible(t['inputs']) for t in case['tasks'])
    execute = list()

    for uid in order:
        t      = spec[uid]
        bad    = infeasible(t['inputs'])
        failed = rps.FAILED in pipe.finals(uid)

        if n_fwd[uid] > 2 or (uid in passed and n_fwd[uid] != 2):
            violation('task-forwarded-twice',
                      '%s was handed on %d times by the input stagers'
                      % (uid, n_fwd[uid]))
            return

        if uid in passed and failed:
            violation('failed-and-forwarded',
                      '%s was reported FAILED and passed on' % uid)
            return

        if uid not in passed and not failed:
            violation('task-lost-in-input-staging',
                      '%s neither passed input staging nor FAILED (%s)'
                      % (uid, pipe.states[uid]))
            return

        if bad:
            res.count('infeasible_checked', len(bad))
            for d in bad:
                res.see('infeasible_in', '%s/%s' % (d['action'], d['fault']))
            if uid in passed:
                for d in bad:
                    violation(infeasible_mechanism(d),
                              '%s passed input staging although its %s '
                              'directive %s cannot be carried out (%s): '
                              'source %r target %r'
                              % (uid, d['action'], d['tag'], d['fault'],
                                 orc.spell(d['src'], t),
                                 orc.spell(d['tgt'], t) if d['tgt'] else None),
                              directive=d)
            continue     # this task ends here

        if failed:
            mech = 'feasible-task-failed-input'
            if any_bad:
                mech = 'bystander-failed-input'
            violation(mech, '%s has only feasible input directives but '
                            'FAILED in input staging: %s'
                            % (uid, pipe.excs.get(uid)))
            continue

        if any_bad:
            res.count('bystanders_checked')

        # the task has passed input staging: every input directive is enacted
        for d in t['inputs']:
            res.count('input_directives_checked')
            res.count('in_%s' % d['action'].lower())
            for mech, msg in check_target(d, 'in', t, orc, root):
                violation(mech, '%s: %s' % (uid, msg), directive=d)

        execute.append(uid)

    if len(res.violations) > n0:
        # keep going only for the two recorded defects of the local backend /
        # tarball path, which leave the rest of the pipeline meaningful
        benign = {'tarball-not-unpacked', 'copy-name-with-space-not-staged',
                  'copy-missing-source-not-failed',
                  'copy-unwritable-target-not-failed'}
        if {v['mechanism'] for v in res.violations[n0:]} - benign:
            return

    # -- "execution": the files the task would have written --------------------
    bulk = list()
    for uid in execute:
        t  = spec[uid]
        td = passed[uid]
        if td['state'] != rps.AGENT_SCHEDULING_PENDING:
            violation('forwarded-in-wrong-state',
                      '%s left agent stage-in in state %s'
                      % (uid, td['state']))
            return
        os.makedirs(orc.task_sandbox(t), exist_ok=True)
        for d in t['outputs']:
            res.see('actions_out', d['action'])
            res.see('faults', str(d['fault']))
            res.see('kinds', d['kind'])
            for role in ('src', 'tgt'):
                p = d[role]
                if p:
                    res.see('schemas', p['loc'] if p['style'] in
                            ('schema', 'host') else p['style'])
                    res.see('cells_out', '%s %s %s/%s' % (d['action'], role,
                                                          p['loc'], p['style']))
                else:
                    res.see('cells_out', '%s tgt default' % d['action'])
            if d['fault'] not in ('host', 'missing') and d['chain'] is None:
                make_source(orc.source(d, 'out', t), d)
            if d['fault'] in ('blocked', 'blocked-nested'):
                tgt = orc.target(d, 'out', t)
                blk = tgt[:tgt.index('/blk_')] + '/blk_' + d['tag']
                os.makedirs(os.path.dirname(blk), exist_ok=True)
                with open(blk, 'w') as fout:
                    fout.write('not a directory\n')
            if d['fault'] is None and \
               fingerprint(orc.target(d, 'out', t)) is not None:
                res.inconc('generator: output target exists before staging')
                return
        td['state']        = rps.AGENT_STAGING_OUTPUT_PENDING
        td['target_state'] = t['outcome']
        td['exit_code']    = 0 if t['outcome'] == rps.DONE else \
                             None if t['outcome'] == rps.CANCELED else 1
        td['stdout']       = ''
        td['stderr']       = ''
        res.see('outcomes', '%s/%s' % (t['outcome'], t['stage_on_error']))
        bulk.append(td)

    # -- stage 3 + 4: agent stage-out, tmgr stage-out --------------------------
    cut = min(cut, len(bulk))
    pipe.step(pipe.aso, rpc.AGENT_STAGING_OUTPUT_QUEUE, halves(bulk, cut))
    fwd3 = pipe.take(rpc.AGENT_COLLECTING_QUEUE)
    res.count('tasks_through_agent_out', len(fwd3))
    for td in fwd3:
        if td['state'] != rps.TMGR_STAGING_OUTPUT_PENDING:
            violation('forwarded-in-wrong-state',
                      '%s left agent stage-out in state %s'
                      % (td['uid'], td['state']))
            return
        if rps.FAILED in pipe.finals(td['uid']):
            violation('failed-and-forwarded',
                      '%s was reported FAILED by agent stage-out and passed '
                      'on' % td['uid'])
            return

    pipe.step(pipe.tso, rpc.PROXY_TASK_QUEUE,
              halves(fwd3, min(cut, len(fwd3))), qname=SID)
    res.count('tasks_through_tmgr_out', len(fwd3))

    any_bad = any(infeasible(spec[u]['outputs']) for u in execute
                  if spec[u]['outcome'] == rps.DONE or
                     spec[u]['stage_on_error'])
    n_fwd   = collections.Counter(td['uid'] for td in fwd3)

    for uid in execute:
        t      = spec[uid]
        bad    = infeasible(t['outputs'])
        finals = pipe.finals(uid)
        staged = t['outcome'] == rps.DONE or t['stage_on_error']

        if t['outcome'] != rps.DONE  : expected = t['outcome']
        elif bad                     : expected = rps.FAILED
        else                         : expected = rps.DONE

        if n_fwd[uid] > 1:
            violation('task-forwarded-twice',
                      '%s left agent stage-out %d times' % (uid, n_fwd[uid]))
            return

        if not finals:
            violation('task-not-final',
                      '%s has no final state after output staging: %s'
                      % (uid, pipe.states[uid]))
            continue

        if t['outcome'] == rps.DONE and bad:
            res.count('infeasible_checked', len(bad))
            for d in bad:
                res.see('infeasible_out', '%s/%s' % (d['action'], d['fault']))

        if t['outcome'] == rps.CANCELED and t['stage_on_error'] and bad \
                                        and finals == {rps.FAILED}:
            # the canceled task asked for its outputs, one of them cannot be
            # staged: ending FAILED is what the directive's failure demands
            res.count('canceled_task_failed_by_output')
            finals = {expected}

        if finals != {expected}:
            if expected == rps.FAILED and t['outcome'] == rps.DONE:
                for d in bad:
                    violation(infeasible_mechanism(d),
                              '%s ended %s although its output %s directive '
                              '%s cannot be carried out (%s): source %r '
                              'target %r'
                              % (uid, sorted(finals), d['action'], d['tag'],
                                 d['fault'], orc.spell(d['src'], t),
                                 orc.spell(d['tgt'], t) if d['tgt'] else None),
                              directive=d)
            elif expected == rps.DONE:
                mech = 'feasible-task-failed-output'
                if any_bad:
                    mech = 'bystander-failed-output'
                violation(mech, '%s has only feasible output directives and '
                                'ran DONE but ended %s: %s'
                                % (uid, sorted(finals), pipe.excs.get(uid)))
            else:
                violation('failed-task-not-failed',
                          '%s ran %s (stage_on_error %s, infeasible %d) but ended %s'
                          % (uid, t['outcome'], t['stage_on_error'], len(bad), sorted(finals)))
            continue

        if expected == rps.DONE:
            if any_bad:
                res.count('bystanders_checked')
            for d in t['outputs']:
                res.count('output_directives_checked')
                res.count('out_%s' % d['action'].lower())
                for mech, msg in check_target(d, 'out', t, orc, root):
                    violation(mech, '%s: %s' % (uid, msg), directive=d)

        elif t['outcome'] != rps.DONE and not t['stage_on_error']:
            # no output staging for a failed (or canceled) task
            if any_bad:
                res.count('bystanders_checked')
            for d in t['outputs']:
                res.count('failed_no_stage_checked')
                tgt = orc.target(d, 'out', t)
                src = orc.source(d, 'out', t)
                if d['fault'] is None and (fingerprint(tgt) is not None or
                       (d['chain'] is None and
                        fingerprint(src) != expected_print(d))):
                    violation('failed-task-output-staged',
                              '%s did not run DONE, has no stage_on_error, but its '
                              'output %s directive %s was carried out: %s '
                              'exists / source moved'
                              % (uid, d['action'], d['tag'],
                                 os.path.relpath(tgt, root)), directive=d)

        elif t['outcome'] != rps.DONE:
            for d in t['outputs']:
                if d['fault'] is None:
                    done = fingerprint(orc.target(d, 'out', t)) is not None
                    res.see('stage_on_error_observed',
                            '%s %s' % (d['action'],
                                       'staged' if done else 'not staged'))

    # -- the components survived: nothing was left behind ----------------------
    left = sum(pipe.net.q_len(pipe.url(q)) for q in QUEUES)
    if left:
        violation('tasks-left-in-queues', '%d tasks left in queues' % left)
    for kind, who, err, trace in pipe.net.errors:
        violation('callback-raised', '%s %s raised %s' % (kind, who, err))


# ------------------------------------------------------------------------------
#
def structure(case):
    '''abstract case: what distinguishes two cases'''
    out = list()
    for t in case['tasks']:
        out.append([t['sandbox'], t['outcome'], t['stage_on_error'],
                    [[d['action'], d['form'], d['src']['loc'],
                      d['src']['style'], d['tgt'] and d['tgt']['loc'],
                      d['tgt'] and d['tgt']['style'], d['kind'], d['fault'],
                      ' ' in d['src']['rel'], '/' in d['src']['rel']]
                     for d in t['inputs'] + t['outputs']]])
    return [out, case['cut']]


# ------------------------------------------------------------------------------
# pilot level: Pilot.stage_in / Pilot.stage_out through the pilot manager's
# real stager, several pilots of one manager in one process
#
def pilot_staging_history(rng, res, workdir, idx):

    import tempfile
    from ..harness import make_pmgr, make_pilot
    from radical.pilot.utils.staging_helper import StagingHelper

    root = tempfile.mkdtemp(prefix='pst%05d.' % idx, dir=workdir)
    try:
        _pilot_staging_history(rng, res, root, make_pmgr, make_pilot,
                               StagingHelper)
    finally:
        shutil.rmtree(root, ignore_errors=True)


def _pilot_staging_history(rng, res, root, make_pmgr, make_pilot,
                           StagingHelper):

    pm = make_pmgr()
    pm._stager = StagingHelper(pm._log)
    client = os.path.join(root, 'client')
    os.makedirs(client)
    n_pilots = rng.choice([1, 2, 2, 3])
    pilots = list()
    for i in range(n_pilots):
        pl  = make_pilot(pm, 'pilot.%04d' % i)
        psb = os.path.join(root, 'rsb', 'sess', pl.uid)
        os.makedirs(psb)
        pl._resource_sandbox = ru.Url('file://localhost%s/rsb' % root)
        pl._session_sandbox  = ru.Url('file://localhost%s/rsb/sess' % root)
        pl._pilot_sandbox    = ru.Url('file://localhost%s' % psb)
        pl._client_sandbox   = ru.Url('file://localhost%s' % client)
        pl._endpoint_fs      = ru.Url('file://localhost/')
        # as Pilot.__init__ builds them
        pl._rem_ctx = {'pwd'     : pl._pilot_sandbox,
                       'client'  : pl._client_sandbox,
                       'pilot'   : pl._pilot_sandbox,
                       'resource': pl._resource_sandbox,
                       'session' : pl._session_sandbox,
                       'endpoint': pl._endpoint_fs}
        pl._loc_ctx = dict(pl._rem_ctx, pwd=pl._client_sandbox)
        # what the agent collected for the application
        with open(os.path.join(psb, 'staging_output.tgz'), 'w') as f:
            f.write('collected output of %s\n' % pl.uid)
        pilots.append((pl, psb))

    ops  = list()
    case = {'pilots': n_pilots, 'ops': ops}
    where = {'pilot': None, 'session': os.path.join(root, 'rsb', 'sess'),
             'resource': os.path.join(root, 'rsb'), 'client': client}

    def read(path):
        try:
            with open(path) as f:
                return f.read()
        except OSError as e:
            return '<%s>' % e.__class__.__name__

    for k in range(rng.randint(2, 8)):
        pl, psb = rng.choice(pilots)
        kind = rng.choice(['in', 'in', 'out_default', 'out_default', 'out'])
        tag  = '%s.%d' % (pl.uid, k)
        res.count('pilot_staging_calls')
        if kind == 'in':
            name, data = 'in.%s.dat' % tag, 'input %s\n' % tag
            with open(os.path.join(client, name), 'w') as f:
                f.write(data)
            src = rng.choice([name, 'client:///' + name,
                              os.path.join(client, name),
                              'file://localhost' + os.path.join(client, name)])
            side = rng.choice(['pwd', 'pilot', 'pilot', 'session', 'resource'])
            tname = rng.choice([name, 'renamed.%s' % tag, 'sub/dir/%s' % name])
            tgt  = tname if side == 'pwd' else '%s:///%s' % (side, tname)
            base = psb if side in ('pwd', 'pilot') else where[side]
            form = rng.choice(['dict', 'dict', 'string', 'list'])
            sd   = {'source': src, 'target': tgt, 'action': rp.TRANSFER}
            arg  = sd if form == 'dict' else [sd] if form == 'list' else \
                   '%s > %s' % (src, tgt)
            ops.append(['stage_in', pl.uid, src, tgt, form])
            try:
                if form == 'string':
                    # string forms are expanded by the manager, the pilot
                    # needs dicts: the documented call is with directives
                    arg = sd
                ret = pl.stage_in(arg)
            except Exception as e:
                res.violation('pilot-stage-in-raised', '%s: %r' % (ops[-1], e),
                              case)
                return
            want = os.path.join(base, tname)
            got  = read(want)
            if got != data:
                res.violation('pilot-stage-in-target-wrong', '%s: %s holds %r'
                              % (ops[-1], want, got), case)
                return
            if [ru.Url(r).path for r in ret] != [want]:
                res.violation('pilot-stage-in-return-value', '%s: returned %s, '
                              'data is at %s' % (ops[-1], ret, want), case)
                return
        else:
            if kind == 'out_default':
                arg, sname, tname = None, 'staging_output.tgz', \
                                          'staging_output.tgz'
                data = 'collected output of %s\n' % pl.uid
            else:
                sname, tname = 'res.%s.dat' % tag, 'fetched.%s.dat' % tag
                data = 'result %s\n' % tag
                with open(os.path.join(psb, sname), 'w') as f:
                    f.write(data)
                arg = {'source': rng.choice(['pilot:///' + sname, sname]),
                       'target': rng.choice(['client:///' + tname, tname]),
                       'action': rp.TRANSFER}
                if rng.random() < 0.3:
                    arg = [arg]
            ops.append(['stage_out', pl.uid, kind])
            try:
                ret = pl.stage_out(arg) if arg is not None else \
                      rng.choice([pl.stage_out, lambda: pl.stage_out(None),
                                  lambda: pl.stage_out([])])()
            except Exception as e:
                res.violation('pilot-stage-out-raised', '%s: %r'
                              % (ops[-1], e), case)
                return
            want = os.path.join(client, tname)
            got  = read(want)
            if got != data:
                res.violation('pilot-stage-out-target-wrong', '%s: %s holds '
                              '%r, the data of %s is %r'
                              % (ops[-1], want, got, pl.uid, data), case)
                return
            if [ru.Url(r).path for r in ret] != [want]:
                res.violation('pilot-stage-out-return-value', '%s: returned '
                              '%s, data is at %s' % (ops[-1], ret, want), case)
                return
            if kind == 'out_default':
                res.count('pilot_default_stage_outs')


# ------------------------------------------------------------------------------
#
# directory life cycles in one stager: an iterative workflow collects the
# outputs of one generation in a directory of the pilot sandbox, moves that
# directory away as a whole, and collects the next generation under the same
# name.  Every directive is legal on its own; all of them run through the same
# agent output stager, one after the other.
#
def collect_and_move_history(rng, res, workdir, idx):

    root = os.path.join(os.path.realpath(workdir), 'tree')
    orc  = Oracle(root)
    keep = set()
    for d in ('client', 'ext', 'workdir', 'pilot'):
        path = orc.bases[d]
        os.makedirs(path, exist_ok=True)
        while path != root:
            keep.add(path)
            path = os.path.dirname(path)
    clean_tree(root, keep)
    pipe = Pipeline(root, orc.bases, seed=0)
    try:
        _collect_and_move(rng, res, root, orc, pipe, idx)
    finally:
        pipe.close()
        clean_tree(root, keep)


def _collect_and_move(rng, res, root, orc, pipe, idx):

    psbox  = orc.bases['pilot']
    place  = rng.choice(['pilot', 'session', 'resource'])
    pbase  = {'pilot'   : psbox,
              'session' : os.path.dirname(psbox.rstrip('/')),
              'resource': os.path.dirname(os.path.dirname(psbox.rstrip('/')))
             }[place]
    cname  = rng.choice(['collect', 'out dir', 'res/cur'])
    gens   = rng.randint(2, 4)
    per    = rng.randint(1, 3)
    mover  = rng.choice([rpc.MOVE, rpc.MOVE, 'rename-by-task'])
    plan   = list()             # (uid, directives, files expected afterwards)
    expect = dict()             # path -> content
    n      = 0

    def sd(action, src, tgt):
        return {'uid': 'sd.%04d' % len(plan), 'source': src, 'target': tgt,
                'action': action, 'flags': rpc.CREATE_PARENTS, 'priority': 0}

    case = {'kind': 'collect-and-move', 'place': place, 'dir': cname,
            'generations': gens, 'per_generation': per, 'mover': str(mover),
            'steps': list()}
    for g in range(gens):
        for k in range(per):
            uid  = 'task.c%d%d' % (g, k)
            tsb  = os.path.join(psbox, uid)
            os.makedirs(tsb, exist_ok=True)
            data = 'generation %d member %d of %s\n' % (g, k, idx)
            with open(os.path.join(tsb, 'result.dat'), 'w') as fout:
                fout.write(data)
            tgt = '%s:///%s/%s.dat' % (place, cname, uid)
            plan.append((uid, tsb, [sd(rpc.COPY, 'result.dat', tgt)]))
            expect[os.path.join(pbase, cname, uid + '.dat')] = data
            case['steps'].append([uid, 'Copy', tgt])
        if g < gens - 1:
            # the generation is archived: the directory moves as a whole
            uid = 'task.m%d' % g
            tsb = os.path.join(psbox, uid)
            os.makedirs(tsb, exist_ok=True)
            src = '%s:///%s' % (place, cname)
            tgt = '%s:///archive/gen.%d' % (place, g)
            if mover == 'rename-by-task':
                # the task itself renamed it while it ran (no directive)
                plan.append((uid, tsb, [], (os.path.join(pbase, cname),
                             os.path.join(pbase, 'archive', 'gen.%d' % g))))
            else:
                plan.append((uid, tsb, [sd(rpc.MOVE, src, tgt)]))
            case['steps'].append([uid, str(mover), src, tgt])
            for path in list(expect):
                if path.startswith(os.path.join(pbase, cname) + '/'):
                    new = os.path.join(pbase, 'archive', 'gen.%d' % g,
                                       os.path.basename(path))
                    expect[new] = expect.pop(path)

    def ctx():
        return {'case': case, 'states': {u: pipe.states[u] for u in
                                         [p[0] for p in plan]},
                'errors': dict(pipe.excs)}

    for item in plan:
        uid, tsb, sds = item[:3]
        if len(item) > 3:
            os.makedirs(os.path.dirname(item[3][1]), exist_ok=True)
            os.rename(*item[3])
        td = {'type': 'task', 'tmgr': 'tmgr.0000', 'uid': uid, 'name': '',
              'state': rps.AGENT_STAGING_OUTPUT_PENDING, 'origin': 'client',
              'exit_code': 0, 'stdout': '', 'stderr': '',
              'return_value': None, 'exception': None,
              'exception_detail': None, 'pilot': PID,
              'endpoint_fs'     : 'file://localhost/',
              'resource_sandbox': 'file://localhost' + os.path.dirname(
                                      os.path.dirname(psbox.rstrip('/'))),
              'session_sandbox' : 'file://localhost' + os.path.dirname(
                                      psbox.rstrip('/')),
              'pilot_sandbox'   : 'file://localhost' + psbox.rstrip('/') + '/',
              'task_sandbox'    : 'file://localhost' + tsb,
              'task_sandbox_path': tsb,
              'client_sandbox'  : orc.bases['client'],
              'info': None, 'slots': None, 'partition': None,
              'target_state': rps.DONE,
              'description': {'uid': uid, 'mode': 'task.executable',
                              'executable': '/bin/true', 'sandbox': '',
                              'input_staging': list(),
                              'output_staging': sds,
                              'stage_on_error': False, 'ranks': 1,
                              'cores_per_rank': 1}}
        pipe.step(pipe.aso, rpc.AGENT_STAGING_OUTPUT_QUEUE, [[td]])
        res.count('collect_move_directives', len(sds))
        if rps.FAILED in pipe.finals(uid):
            res.violation('legal-directive-failed/directory-reused',
                          '%s: %s failed (%s) - the directory %s:///%s had '
                          'been moved away and is collected into again'
                          % (uid, [(d['action'], d['target']) for d in sds],
                             pipe.excs.get(uid), place, cname), ctx())
            return
    pipe.take(rpc.AGENT_COLLECTING_QUEUE)

    res.count('collect_move_histories')
    for path, data in sorted(expect.items()):
        res.count('collect_move_files_checked')
        try:
            with open(path) as fin:
                got = fin.read()
        except OSError as e:
            got = repr(e)
        if got != data:
            res.violation('collected-file-not-in-place',
                          '%s: expected %r, found %r'
                          % (os.path.relpath(path, root), data, got), ctx())
            return


def run(ctx):

    res = Result()
    rng = ctx.rng('cases')

    check_url_rules(res, ctx.rng('urls'))

    prng = ctx.rng('pilot-staging')
    for i in range(ctx.n(480, 30000)):
        pilot_staging_history(prng, res, ctx.workdir, i)
        res.evaluations += 1
        if len(res.violations) > 20:
            break

    crng = ctx.rng('collect-move')
    for i in range(ctx.n(320, 20000)):
        try:
            collect_and_move_history(crng, res, ctx.workdir, i)
        except Exception as e:
            import traceback
            res.inconc('harness error (collect-and-move): %r' % e)
            res.note(traceback.format_exc()[-1500:])
            break
        res.evaluations += 1
        if len(res.violations) > 20:
            break

    n = ctx.n(640, 120000)
    for i in range(n):
        case = gen_case(rng, '%d.%d' % (ctx.shard, i))
        res.evaluations += 1
        if any(t['inputs'] or t['outputs'] for t in case['tasks']):
            res.digests.add(digest(structure(case)))
        if len(res.samples) < 2 and i in (1, 2):
            res.samples.append(case)
        n0 = len(res.violations)
        try:
            run_case(case, res, ctx.workdir)
        except Exception as e:
            import traceback
            res.inconc('harness error: %r' % e)
            res.note(traceback.format_exc()[-1500:])
            break
        if len({v['mechanism'] for v in res.violations}) > 12 or \
           len(res.violations) > n0 + 30:
            break

    return res


def replay(case, ctx):
    res = Result()
    if case['case'].get('kind') == 'collect-and-move':
        # (generated from the shard's stream: re-run the workload)
        crng = ctx.rng('collect-move')
        for i in range(200):
            collect_and_move_history(crng, res, ctx.workdir, i)
            if res.violations:
                break
        res.evaluations = 1
        return res
    run_case(case['case'], res, ctx.workdir)
    res.evaluations = 1
    return res
