'''
C02 - A granted placement has exactly the requested shape.

Monitor: postcondition on every grant of the real scheduler (observed at the
executing queue in gated histories, so every prior occupancy state is one
reached by scheduling and releasing other tasks) and on every
NodeList.find_slots result, compared with the request.
'''

from ..core       import Result, digest
from ..harness    import rp, ru, rps, rpc
from ..schedprops import Shape, run_histories, run_one, EPS

ID     = 'C02'
LEVEL  = 'exploration'
MANIFEST = {
    'technique': 'runtime monitoring: shape postcondition on grants of the '
                 'real scheduler in reachable occupancy states, and on '
                 'NodeList.find_slots',
    'text': 'For every grant the monitor checks rank count, per-rank distinct '
            'core count (at least one), GPU amount (whole GPUs or one share), '
            'lfs/mem, ranks-per-node limit, colocate history, that no request '
            'exceeding a node was granted, and the resources figure; the '
            'occupancy states are those reached by the gated histories '
            '(arrivals, completions, cancels between loop steps).'
            '  Third session: the application-level shape workload builds NUMA nodes (a NUMA rank must stay in one domain and still carry the requested lfs/mem) and shared cores.'
            '  Two or three application threads place and release ranks on one NodeList (yield before the node locks): every granted slot keeps the requested shape, all nodes are free after all releases.'
            '  Application-level histories include requests for ranks without a core (invalid, whatever was verified before): never granted.',
    'note': 'Continuous scheduler; colocate rule checked as "nodes subset of '
            'all nodes used earlier for that tag"; sampled histories.'}
RULE   = ('same gated histories as C01 (biased to shapes that exactly fill / '
          'just exceed a node); non-trivial = a grant happened while another '
          'task held resources; distinct = digest(layout, trace).  Second '
          'workload: NodeList.find_slots against RankRequirements on random '
          'occupancy.')
ASSUMPTIONS = ['per-rank request exceeding the (unblocked) node size must never '
               'be granted; whether it is failed is C04\'s business']
SHARDS   = {'quick': 8, 'thorough': 16}
REQUIRED = {'grants_checked': 2000, 'rank_slots_checked': 3000,
            'colocate_grants': 50, 'nodelist_shape_checks': 1000}


def nodelist_shapes(rng, res):

    cpn = rng.choice([1, 2, 4, 8])
    gpn = rng.choice([0, 1, 2])
    nn  = rng.randint(1, 3)
    lfs = rng.choice([0, 100])
    mem = rng.choice([0, 100])
    # NUMA aware nodes (as Pilot.nodelist builds them for platforms with a
    # numa_domain_map): two domains splitting cores and GPUs
    numa = cpn >= 2 and rng.random() < 0.35
    dmap = None
    if numa:
        h, g = cpn // 2, gpn // 2
        dmap = {0: rp.NumaDomain(cores=list(range(0, h)),
                                 gpus=list(range(0, g))),
                1: rp.NumaDomain(cores=list(range(h, cpn)),
                                 gpus=list(range(g, gpn)))}

    def mknode(i):
        d = {'index': i, 'name': 'n%d' % i,
             'cores': [rpc.FREE] * cpn, 'gpus': [rpc.FREE] * gpn,
             'lfs': lfs, 'mem': mem}
        return rp.NumaNode(d, dmap) if numa else rp.Node(d)

    nl = rp.NodeList(nodes=[mknode(i) for i in range(nn)])
    nl.verify()
    case = {'cpn': cpn, 'gpn': gpn, 'nodes': nn, 'lfs': lfs, 'mem': mem,
            'numa': numa, 'ops': []}
    if numa:
        res.count('nodelist_numa_histories')
    live = list()
    for _ in range(rng.randint(4, 25)):
        if live and rng.random() < 0.35:
            nl.release_slots(live.pop(rng.randrange(len(live))))
            case['ops'].append('release')
            continue
        rr = rp.RankRequirements(
                # (0: a rank without a core is invalid, whatever came before)
                n_cores=rng.choice([1, 1, 2, cpn, cpn + 1, 0, 1, 2]),
                n_gpus=rng.choice([0, 0, 1, gpn, gpn + 1]) if gpn
                       else rng.choice([0, 0, 1]),
                core_occupation=rng.choice([1.0, 1.0, 0.5, 0.25]),
                gpu_occupation=rng.choice([1.0, 0.5]),
                lfs=rng.choice([0, 30, 120]), mem=rng.choice([0, 30, 120]),
                numa=bool(numa and rng.random() < 0.7))
        n = rng.choice([1, 2, 3, nn * cpn + 1])
        case['ops'].append(['find', rr.as_dict(), n])
        too_big = rr.n_cores > cpn or rr.n_gpus > gpn or \
                  (rr.lfs and rr.lfs > lfs) or (rr.mem and rr.mem > mem)
        try:
            slots = nl.find_slots(rr, n_slots=n)
        except (ValueError, RuntimeError):
            res.count('nodelist_rejected')
            continue
        res.count('nodelist_shape_checks')
        if slots is None:
            continue
        live.append(slots)
        if rr.n_cores < 1:
            res.violation('nodelist-coreless-rank-granted', 'a request for '
                          'ranks without a core was granted %s' %
                          [s.as_dict() for s in slots], case)
            return case
        if too_big:
            res.violation('nodelist-oversized-granted', '%s on %s' % (rr, case),
                          case)
        if len(slots) != n:
            res.violation('nodelist-rank-count', '%d != %d' % (len(slots), n),
                          case)
        for s in slots:
            if numa and rr.numa:
                # a NUMA rank lives in one domain: its cores and GPUs
                h, g = cpn // 2, gpn // 2
                doms = {int(c.index >= h) for c in s.cores} | \
                       {int(x.index >= g) for x in s.gpus}
                res.count('nodelist_numa_slots_checked')
                if len(doms) > 1:
                    res.violation('nodelist-numa-rank-spans-domains',
                                  '%s for %s' % (s.as_dict(), rr), case)
            if len({c.index for c in s.cores}) != rr.n_cores or \
               len({g.index for g in s.gpus})  != rr.n_gpus  or \
               any(abs(g.occupation - rr.gpu_occupation) > EPS
                   for g in s.gpus) or \
               any(abs(c.occupation - rr.core_occupation) > EPS
                   for c in s.cores) or \
               s.lfs != rr.lfs or s.mem != rr.mem or \
               (nl.nodes[s.node_index].name != s.node_name and not
                (numa and s.node_name.startswith(
                                    nl.nodes[s.node_index].name + '.'))):
                res.violation('nodelist-slot-shape', '%s for %s'
                              % (s.as_dict(), rr), case)
    return case


def nodelist_threads(rng, res):
    """two or three application threads place and release ranks on the same
    NodeList (Pilot.nodelist is shared by the threads of an application): every
    granted slot still has the requested shape"""
    import time
    import random
    import threading as mt
    from ..core import YieldLock

    seed = rng.randint(0, 2 ** 30)
    cpn  = rng.choice([2, 3, 4])
    gpn  = rng.choice([0, 1, 2])
    nn   = rng.choice([1, 1, 2])
    nodes = [rp.Node({'index': i, 'name': 'n%d' % i,
                      'cores': [rpc.FREE] * cpn, 'gpus': [rpc.FREE] * gpn,
                      'lfs': 100, 'mem': 100}) for i in range(nn)]
    nl = rp.NodeList(nodes=nodes)
    nl.verify()
    for n in nl.nodes:
        n.__lock__ = YieldLock(n.__lock__, seed, 'node.%d' % n.index,
                               sleeps=[0, 0, 0.0002, 0.0005, 0.001])
    case  = {'seed': seed, 'cpn': cpn, 'gpn': gpn, 'nodes': nn}
    bad, errs, over, raised = list(), list(), list(), list()

    def app(k):
        r    = random.Random(seed * 7 + k)
        live = list()
        try:
            for _ in range(r.randint(6, 16)):
                if live and r.random() < 0.45:
                    nl.release_slots(live.pop(r.randrange(len(live))))
                    continue
                rr = rp.RankRequirements(
                        n_cores=r.choice([1, 2, cpn]),
                        n_gpus=r.choice([0, 0, 1]) if gpn else 0,
                        lfs=r.choice([0, 0, 50]), mem=r.choice([0, 0, 50]))
                try:
                    slots = nl.find_slots(rr, n_slots=1)
                except (ValueError, RuntimeError):
                    continue
                except TypeError as e:
                    # NodeList keeps its "last failed request" memo without a
                    # lock: a release on another thread can reset it between
                    # the test and the comparison (None >= int).  The call is
                    # refused with an exception before anything was placed -
                    # no placement, nothing for this property to judge.
                    if 'NoneType' not in str(e):
                        raise
                    raised.append(repr(e))
                    continue
                if not slots:
                    continue
                live.append(slots)
                for sl in slots:
                    if len({c.index for c in sl.cores}) != rr.n_cores or \
                       len({g.index for g in sl.gpus})  != rr.n_gpus:
                        bad.append('thread %d: %s for %s' % (k, sl.as_dict(),
                                                             rr))
                    # what this rank holds is held by nobody else (C01)
                    node = nl.nodes[sl.node_index]
                    for c in sl.cores:
                        if node.cores[c.index].occupation > 1.0 + EPS:
                            over.append('thread %d: core %d of node %d is '
                                        'held %.2f times' % (k, c.index,
                                        node.index,
                                        node.cores[c.index].occupation))
                    for g in sl.gpus:
                        if node.gpus[g.index].occupation > 1.0 + EPS:
                            over.append('thread %d: gpu %d of node %d is held '
                                        '%.2f times' % (k, g.index, node.index,
                                        node.gpus[g.index].occupation))
                    if (node.lfs is not None and node.lfs < 0) or \
                       (node.mem is not None and node.mem < 0):
                        over.append('thread %d: node %d has lfs %s mem %s'
                                    % (k, node.index, node.lfs, node.mem))
                time.sleep(0)
            for slots in live:
                nl.release_slots(slots)
        except Exception as e:
            errs.append('thread %d: %r' % (k, e))

    ts = [mt.Thread(target=app, args=[k], daemon=True, name='app-%d' % k)
          for k in range(rng.choice([2, 2, 3]))]
    for t in ts: t.start()
    for t in ts: t.join(timeout=30)
    res.count('nodelist_thread_histories')
    if any(t.is_alive() for t in ts):
        res.inconc('nodelist threads still busy after 30 s')
        return case
    for e in errs:
        res.violation('nodelist-threads/raised', e, case)
        return case
    if raised:
        res.count('nodelist_thread_calls_refused_by_memo_race', len(raised))
    for b in bad[:1]:
        res.violation('nodelist-slot-shape/threads', b, case)
    for o in over[:1]:
        res.violation('nodelist-oversubscribed/threads', o, case)
    for n in nl.nodes:
        occ = [round(c.occupation, 9) for c in n.cores] + \
              [round(g.occupation, 9) for g in n.gpus]
        if any(o != 0 for o in occ) or n.lfs != 100 or n.mem != 100:
            res.violation('nodelist-threads/not-free-after-all-releases',
                          'node %d: %s' % (n.index, occ), case)
            break
    return case


def _nontrivial(sim):
    return len(sim.granted) >= 2


def run(ctx):
    res = Result()
    run_histories(ctx, res, ctx.n(2400, 60000), lambda r: [Shape(r)],
                  gen_kwargs={'allow_cancel': True}, nontrivial=_nontrivial,
                  salt='c02')
    rng = ctx.rng('nodelist-threads')
    for i in range(ctx.n(640, 16000)):
        nodelist_threads(rng, res)
        if len(res.violations) > 10:
            break
    rng = ctx.rng('nodelist')
    for i in range(ctx.n(1600, 40000)):
        case = nodelist_shapes(rng, res)
        res.evaluations += 1
        res.digests.add(digest(case))
        if len(res.violations) > 40:
            break
    return res


def replay(case, ctx):
    res = Result()
    c = case.get('case') if isinstance(case, dict) else None
    if c and 'layout' in c:
        run_one(ctx, res, c, lambda r: [Shape(r)])
    else:
        res.inconc('nodelist histories are replayed by seed only')
    return res
