'''
C16 - Client and agents exchange each forwarded message exactly once.

Monitor: an in-memory network of one client and 0-4 pilots, each side wired to a
shared proxy pubsub by the REAL `Session._crosswire_proxy` /
`crosswire_pubsub` closures (Session objects built with __new__); test
subscribers on every side count deliveries per message id; all traffic is in the
transport log, so hop counts and termination are observed, not assumed.
'''

import itertools
import threading as mt

from ..core    import Result, digest
from ..harness import rp, ru, rps, rpc, NullLog, NullProf, RecPublisher
from ..        import memzmq

import radical.pilot.session         as m_session          # noqa
import radical.pilot.utils.component as m_comp             # noqa

ID     = 'C16'
LEVEL  = 'exploration'
MANIFEST = {
    'technique': 'runtime monitoring: per-side delivery counting in an '
                 'in-memory pubsub network wired by the real crosswire '
                 'closures; exhaustive over (topology, origin side, forward '
                 'flag, origin marker, channel), sampled over sequences and '
                 'delivery orders',
    'text': 'Every single-message cell of {1 client + 0..3 pilots} x '
            'originating side x forward flag {absent, False, True} x origin '
            'marker {absent, own, other side, unknown} x {control, state} is '
            'enumerated; random message sequences with random (pumped) '
            'delivery orders and 4 pilots are sampled on top.  Oracle: local '
            'subscribers once; with the flag and own/absent origin every other '
            'side exactly once and never back; without the flag nowhere else; '
            'publications bounded (no circulation).  The default of the '
            'forward flag is observed on the real AgentComponent / '
            'ClientComponent.advance.'
            '  Third session: the forward flag published by advance() is observed over generated things (single/bulk, tasks bound to a pilot or not, pilots, every state, other keyword arguments).'
            '  Two threads (of one component or of two components of the process) advance different things with different forward flags at the same time (LINE perturbation of advance/publish): every update is published exactly once with its own flag.'
            '  One registry lookup of one side may fail once while the side wires itself: the side refuses to start, or every rule still holds.'
            '  RPC round trips across the proxy: the responder builds the result from the request as it arrived on its side; every other side sees the result exactly once.',
    'note': 'transport is the in-memory shim (one total order per pubsub, no '
            'loss): PUB/SUB slow-joiner loss of real ZMQ is outside the check; '
            'the proxy is a shared pubsub as in proxy.py.'}
RULE   = ('cells enumerated exhaustively for <= 3 pilots (exhaustive: true for '
          'that finite space); random sequences of 2-6 messages over up to 4 '
          'pilots with seeded delivery order; non-trivial = message carries '
          'the forward flag or an origin marker; distinct = digest of the '
          'cell / sequence.')
ASSUMPTIONS = ['a side is a Session with its own control/state pubsub; the '
               'proxy pubsubs are shared by all sides (as proxy.py provides)',
               'for spoofed origin markers only "no duplicate, no loop" is '
               'required']
SHARDS   = {'quick': 4, 'thorough': 16}
REQUIRED = {'messages_checked': 500, 'deliveries_counted': 500,
            'advance_defaults_checked': 4, 'advance_things_checked': 500}

CHANNELS = [(rpc.CONTROL_PUBSUB, rpc.PROXY_CONTROL_PUBSUB),
            (rpc.STATE_PUBSUB,   rpc.PROXY_STATE_PUBSUB)]


# ------------------------------------------------------------------------------
#
class _Reg(object):
    '''per-side registry: local bridges are private, proxy bridges shared'''

    def __init__(self, side, fail_at=None):
        self.side    = side
        self.lookups = 0
        self.fail_at = fail_at      # this lookup fails once (registry hiccup)

    def __getitem__(self, key):
        # 'bridges.<channel>.addr_pub|addr_sub'
        self.lookups += 1
        if self.fail_at and self.lookups == self.fail_at:
            raise KeyError('registry lookup failed (transient): %s' % key)
        _, chan, what = key.split('.')
        if chan.startswith('proxy_'):
            return 'mem://proxy/%s' % chan
        return 'mem://%s/%s' % (self.side, chan)

    get = __getitem__


class Network(object):

    def __init__(self, sides, seed, fault=None):
        self.net   = memzmq.install(memzmq.Net(seed=seed, mode='pumped'))
        self.sides = sides
        self.seen  = {s: {c[0]: [] for c in CHANNELS} for s in sides}
        self.msgs  = {s: {c[0]: [] for c in CHANNELS} for s in sides}
        self.sessions = dict()
        self.refused  = None
        for side in sides:
            s = rp.Session.__new__(rp.Session)
            s._cfg     = ru.Config(from_dict={'path': '/tmp'})
            s._reg     = _Reg(side, fail_at=fault[1] if fault and
                                            fault[0] == side else None)
            s._module  = side
            s._log     = NullLog()
            s._prof    = NullProf()
            s._role    = s._PRIMARY if side == 'client' else s._AGENT_0
            s._to_stop = list()
            try:
                s._crosswire_proxy()                   # the real closures
            except Exception as e:
                # a side which cannot wire itself does not start (its process
                # ends, and its forwarders with it)
                self.refused = (side, repr(e))
                return
            self.sessions[side] = s
            for chan, _ in CHANNELS:
                def cb(topic, msg, side=side, chan=chan):
                    self.seen[side][chan].append(_mid(msg))
                    self.msgs[side][chan].append(msg)
                memzmq.Subscriber(chan, url='mem://%s/%s' % (side, chan),
                                  topic=chan, cb=cb)

    def publish(self, side, chan, msg):
        self.net.publish('mem://%s/%s' % (side, chan), chan, msg, who='test')

    def close(self):
        memzmq.uninstall()


def _mid(msg):
    '''message id: `arg` of the plain test messages, `uid` of typed ones'''
    if not isinstance(msg, dict):
        return None
    return msg.get('arg') if msg.get('cmd') == 'test' else msg.get('uid')


# typed messages of radical.pilot.messages: (class name, forward flag the
# class gives them by default)
TYPED = {'rpc_req'        : ('RPCRequestMessage',       True),
         'rpc_res'        : ('RPCResultMessage',        True),
         'component_start': ('ComponentStartedMessage', False)}


def make_typed(mid, kind):
    import radical.pilot.messages as m_msgs
    cls = getattr(m_msgs, TYPED[kind][0])
    if kind == 'rpc_req':
        return cls(uid=mid, addr='pilot.0000', cmd='prepare_env',
                   args=['a'], kwargs={'k': 1})
    if kind == 'rpc_res':
        return cls(uid=mid, val=[1, 2], out='o', err='', exc=None)
    return cls(uid=mid, pid=4711)


def make_msg(mid, flag, origin, side, sides):
    if origin in TYPED:
        # a typed message as the components publish it: flag and origin are
        # whatever the message class provides
        return make_typed(mid, origin)
    msg = {'cmd': 'test', 'arg': mid}
    if flag != 'absent':
        msg['fwd'] = flag
    if origin == 'own':
        msg['origin'] = side
    elif origin == 'other':
        others = [s for s in sides if s != side]
        msg['origin'] = others[0] if others else 'pilot.7777'
    elif origin == 'unknown':
        msg['origin'] = 'pilot.7777'
    return msg


# ------------------------------------------------------------------------------
#
def check(nw, sent, res, case):

    sides = nw.sides
    n     = len(sides)
    pubs  = [e for e in nw.net.log if e['kind'] == 'pub']

    for mid, (side, chan, flag, origin) in sent.items():
        res.count('messages_checked')
        counts = {s: nw.seen[s][chan].count(mid) for s in sides}
        res.count('deliveries_counted', sum(counts.values()))
        hops = sum(1 for e in pubs if _mid(e['payload']) == mid)
        if origin in TYPED:
            res.count('typed_messages_checked')
            flag, origin = TYPED[origin][1], 'absent'
        ctx  = {'case': case, 'message': [mid, side, chan, flag, origin],
                'counts': counts, 'publications': hops}

        if counts[side] < 1:
            res.violation('not-delivered-locally', str(ctx), ctx)
        if counts[side] > 1:
            res.violation('delivered-twice-to-origin-side', str(ctx), ctx)

        others = {s: c for s, c in counts.items() if s != side}
        genuine = origin in ('absent', 'own')
        if flag is True and genuine:
            for s, c in others.items():
                if c == 0:
                    res.violation('forwarded-message-lost', '%s never saw %s'
                                  % (s, mid), ctx)
                elif c > 1:
                    res.violation('forwarded-message-duplicated',
                                  '%s saw %s %d times' % (s, mid, c), ctx)
        elif flag is not True:
            for s, c in others.items():
                if c:
                    res.violation('unflagged-message-left-its-side',
                                  '%s saw %s' % (s, mid), ctx)
        else:
            for s, c in others.items():
                if c > 1:
                    res.violation('spoofed-message-duplicated',
                                  '%s saw %s %d times' % (s, mid, c), ctx)

        # no circulation: origin side + proxy + one per other side
        if hops > 2 + (n - 1):
            res.violation('message-circulates', '%s published %d times'
                          % (mid, hops), ctx)


def rpc_roundtrip(res, rng):
    """a request which crosses the proxy and the answer a component on
    another side builds FROM THE REQUEST AS IT ARRIVED there: the answer
    reaches every other side (the requester among them) exactly once"""
    import radical.pilot.messages as m_msgs
    chan  = rpc.CONTROL_PUBSUB
    sides = ['client'] + ['pilot.%04d' % k for k in range(rng.randint(1, 3))]
    a     = rng.choice(sides)
    b     = rng.choice([s_ for s_ in sides if s_ != a])
    nw    = Network(sides, rng.randint(0, 2 ** 30))
    case  = {'sides': sides, 'requester': a, 'responder': b}
    try:
        req = m_msgs.RPCRequestMessage(uid='rpc.req.0', addr=b, cmd='do_it',
                                       args=[1], kwargs={})
        nw.publish(a, chan, req)
        nw.net.drain(limit=2000)
        got = [m for m in nw.msgs[b][chan] if _mid(m) == 'rpc.req.0']
        res.count('rpc_roundtrips')
        if len(got) != 1:
            res.violation('forwarded-message-lost' if not got else
                          'forwarded-message-duplicated', 'the responder %s '
                          'saw the request %d times' % (b, len(got)), case)
            return
        arrived = ru.zmq.Message.deserialize(dict(got[0]))
        result  = m_msgs.RPCResultMessage(rpc_req=arrived, val='done')
        nw.publish(b, chan, result)
        nw.net.drain(limit=2000)
        for s_ in sides:
            n = sum(1 for m in nw.msgs[s_][chan]
                    if isinstance(m, dict) and m.get('_msg_type') == 'rpc_res'
                    and m.get('uid') == 'rpc.req.0')
            res.count('rpc_result_deliveries_checked')
            if n != 1:
                res.violation('rpc-result-lost' if n == 0 else
                              'rpc-result-duplicated', '%s saw the result '
                              '%d times (requester %s, responder %s)'
                              % (s_, n, a, b), case)
                return
    except RuntimeError:
        res.violation('message-circulates', 'rpc traffic does not settle',
                      case)
    finally:
        nw.close()


def run_cells(ctx, res):
    '''exhaustive single-message cells, sharded'''
    cells = list()
    for n_pilots in range(0, 4):
        sides = ['client'] + ['pilot.%04d' % i for i in range(n_pilots)]
        for side, flag, origin, ci in itertools.product(
                sides, ['absent', False, True],
                ['absent', 'own', 'other', 'unknown'], range(len(CHANNELS))):
            cells.append((tuple(sides), side, flag, origin, ci))
        for side, kind, ci in itertools.product(sides, sorted(TYPED),
                                                range(len(CHANNELS))):
            cells.append((tuple(sides), side, 'class', kind, ci))
    mine = [c for i, c in enumerate(cells) if i % ctx.nshards == ctx.shard]
    for sides, side, flag, origin, ci in mine:
        case = {'sides': list(sides), 'msgs': [[side, CHANNELS[ci][0], flag,
                                                origin]], 'seed': 0}
        run_case(res, case)
        res.see('cells', (len(sides), side == 'client', str(flag), origin, ci))
    res.count('cells_total', len(cells) if ctx.shard == 0 else 0)
    res.count('cells_run', len(mine))


def run_case(res, case):
    nw = Network(case['sides'], case['seed'], fault=case.get('wire_fault'))
    try:
        if nw.refused:
            res.count('wiring_refused_after_fault')
            return
        if case.get('wire_fault'):
            res.count('wired_despite_fault')
        sent = dict()
        for i, (side, chan, flag, origin) in enumerate(case['msgs']):
            mid = 'm%d' % i
            nw.publish(side, chan, make_msg(mid, flag, origin, side,
                                            case['sides']))
            sent[mid] = (side, chan, flag, origin)
            for _ in range(case.get('pumps', {}).get(str(i), 0)):
                nw.net.pump()
        try:
            nw.net.drain(limit=2000)
        except RuntimeError:
            res.violation('message-circulates', 'traffic does not settle',
                          {'case': case})
            return
        for e in nw.net.errors:
            res.violation('forwarder-raised', e[2], {'case': case, 'tb': e[3]})
        check(nw, sent, res, case)
        res.evaluations += 1
        if any(m[2] is True or m[3] != 'absent' for m in case['msgs']):
            res.digests.add(digest(case))
        if len(res.samples) < 2 and len(case['msgs']) > 1:
            res.samples.append(case)
    finally:
        nw.close()


def check_advance_defaults(res):
    '''agent-side advances are forwarded by default, client-side are not; an
    explicit `fwd` argument is what the published message carries, whatever
    the other arguments (`prof`, `publish`, `push`, `ts`) are'''
    for cls, default in ((m_comp.AgentComponent, True),
                         (m_comp.ClientComponent, False)):
        for state in (rps.AGENT_EXECUTING, rps.FAILED):
            for fwd in (True, False):
                for prof in (None, True, False):
                    c = cls.__new__(cls)
                    c._log, c._prof = NullLog(), NullProf()
                    c._publishers = {rpc.STATE_PUBSUB:
                                     RecPublisher(rpc.STATE_PUBSUB)}
                    c._outputs = dict()
                    kw = {'publish': True, 'push': False, 'fwd': fwd}
                    if prof is not None:
                        kw['prof'] = prof
                    c.advance({'uid': 't.0', 'type': 'task',
                               'state': rps.NEW}, state, **kw)
                    msg = c._publishers[rpc.STATE_PUBSUB].msgs[-1]
                    res.count('advance_explicit_checked')
                    if bool(msg.get('fwd')) != fwd:
                        res.violation('advance-forward-explicit/%s'
                                      % cls.__name__,
                                      '%s.advance(%s, fwd=%r, prof=%r) '
                                      'published fwd=%r' % (cls.__name__, state,
                                      fwd, prof, msg.get('fwd')),
                                      {'class': cls.__name__, 'state': state})
    for cls, expect in ((m_comp.AgentComponent, True),
                        (m_comp.ClientComponent, False)):
        for state in (rps.AGENT_EXECUTING, rps.FAILED):
            c = cls.__new__(cls)
            c._log, c._prof = NullLog(), NullProf()
            c._publishers = {rpc.STATE_PUBSUB: RecPublisher(rpc.STATE_PUBSUB)}
            c._outputs = dict()
            c.advance({'uid': 't.0', 'type': 'task', 'state': rps.NEW}, state,
                      publish=True, push=False)
            msg = c._publishers[rpc.STATE_PUBSUB].msgs[-1]
            res.count('advance_defaults_checked')
            if bool(msg.get('fwd')) != expect:
                res.violation('advance-forward-default/%s' % cls.__name__,
                              '%s.advance(%s) published fwd=%r'
                              % (cls.__name__, state, msg.get('fwd')),
                              {'class': cls.__name__, 'state': state})


def check_advance_things(res, rng, n):
    '''the same question over what components really advance: single things
    and bulks, tasks bound to a pilot or not, pilots, every state of the
    models, the other keyword arguments in any combination'''
    tstates = [s for s in rps._task_state_values  if s]
    pstates = [s for s in rps._pilot_state_values if s]
    for _ in range(n):
        cls, default = rng.choice([(m_comp.AgentComponent, True),
                                   (m_comp.ClientComponent, False)])
        kind  = rng.choice(['task', 'task', 'task', 'pilot'])
        state = rng.choice(tstates if kind == 'task' else pstates)

        def thing(i):
            if kind == 'pilot':
                return {'uid': 'pilot.%04d' % i, 'type': 'pilot',
                        'state': rps.NEW, 'description': {'cores': 1}}
            t = {'uid': 't.%03d' % i, 'type': 'task', 'state': rps.NEW,
                 'description': {'executable': 'true'}, 'origin': 'client',
                 'tmgr': 'tmgr.0000'}
            bound = rng.choice([None, '', 'pilot.0000', 'pilot.0001'])
            if bound is not None:
                t['pilot'] = bound
            if rng.random() < 0.3:
                t['target_state'] = rng.choice([rps.DONE, rps.FAILED,
                                                rps.CANCELED])
            return t

        k      = rng.choice([1, 1, 2, 5])
        things = [thing(i) for i in range(k)]
        arg    = things[0] if k == 1 and rng.random() < 0.5 else things
        kw     = {'publish': True, 'push': False}
        expect = default
        r = rng.random()
        if r < 0.35:
            kw['fwd'] = expect = True
        elif r < 0.7:
            kw['fwd'] = expect = False
        if rng.random() < 0.3:
            kw['prof'] = rng.choice([True, False])
        if rng.random() < 0.2:
            kw['ts'] = 12345.6

        c = cls.__new__(cls)
        c._log, c._prof = NullLog(), NullProf()
        c._uid = 'comp.0000'
        c._publishers = {rpc.STATE_PUBSUB: RecPublisher(rpc.STATE_PUBSUB)}
        c._outputs = dict()
        try:
            c.advance(arg, state, **kw)
        except Exception as e:
            res.violation('advance-raised/%s' % cls.__name__, '%s(%s, %r): %r'
                          % (cls.__name__, state, kw, e), {'things': things})
            return
        res.count('advance_things_checked')
        for msg in c._publishers[rpc.STATE_PUBSUB].msgs:
            if bool(msg.get('fwd')) != expect:
                res.violation('advance-forward-flag/%s' % cls.__name__,
                              '%s.advance(%d %s(s) %s, %s) published fwd=%r'
                              % (cls.__name__, k, kind,
                                 [t.get('pilot') for t in things], kw,
                                 msg.get('fwd')),
                              {'class': cls.__name__, 'state': state,
                               'things': things, 'kw': kw})
                return


def advance_threads(res, rng, idx):
    """two components of one process (as the client and agent sides have
    them) advance different things at the same time, with different forward
    flags: every update is published exactly once, with its own flag"""
    import time
    from ..popsim import Perturb

    seed  = rng.randint(0, 2 ** 30)
    pert  = Perturb(seed, 0.4, funcs=[m_comp.BaseComponent.advance,
                                      m_comp.BaseComponent.publish])
    pubs  = RecPublisher(rpc.STATE_PUBSUB)
    plans = list()
    comps = list()
    same  = rng.random() < 0.5          # one component, two of its threads
    for k in range(2):
        if k == 0 or not same:
            cls = rng.choice([m_comp.AgentComponent, m_comp.ClientComponent])
            c = cls.__new__(cls)
            c._log, c._prof = NullLog(), NullProf()
            c._uid = 'comp.%04d' % k
            c._publishers = {rpc.STATE_PUBSUB: pubs}
            c._outputs = dict()
        comps.append(c)
        plan = list()
        for j in range(rng.randint(2, 6)):
            fwd   = rng.choice([True, False])
            state = rng.choice([rps.AGENT_EXECUTING, rps.AGENT_STAGING_OUTPUT,
                                rps.TMGR_SCHEDULING])
            things = [{'uid': 't.%d.%d.%d' % (k, j, i), 'type': 'task',
                       'state': rps.NEW} for i in range(rng.randint(1, 3))]
            plan.append((things, state, fwd))
        plans.append(plan)

    errs = list()

    def work(c, plan):
        try:
            for things, state, fwd in plan:
                c.advance(things, state, publish=True, push=False, fwd=fwd)
                time.sleep(0)
        except Exception as e:
            errs.append(repr(e))

    ts = [mt.Thread(target=work, args=[comps[k], plans[k]], daemon=True,
                    name='advance-%d' % k) for k in range(2)]
    try:
        for t in ts: t.start()
        for t in ts: t.join(timeout=20)
    finally:
        pert.stop()
    res.count('advance_thread_histories')
    ctx_ = {'seed': seed, 'same_component': same, 'errors': errs,
            'plans': [[([t['uid'] for t in th], st, fw) for th, st, fw in p]
                      for p in plans]}
    if any(t.is_alive() for t in ts):
        res.inconc('advance threads still busy after 20 s')
        return
    for e in errs:
        res.violation('advance-threads/raised', e, ctx_)
        return
    got = dict()
    for msg in pubs.msgs:
        for t in ru.as_list(msg.get('arg')):
            got.setdefault(t['uid'], list()).append(bool(msg.get('fwd')))
    for plan in plans:
        for things, state, fwd in plan:
            for t in things:
                res.count('advance_thread_updates_checked')
                seen = got.get(t['uid'], [])
                if seen != [fwd]:
                    res.violation('advance-threads/update-not-published-'
                                  'exactly-once', '%s advanced with fwd=%s was '
                                  'published %d time(s) with flags %s'
                                  % (t['uid'], fwd, len(seen), seen), ctx_)
                    return


def run(ctx):
    res = Result()
    run_cells(ctx, res)
    rrng = ctx.rng('rpc')
    for i in range(ctx.n(400, 40000)):
        rpc_roundtrip(res, rrng)
        if len(res.violations) > 5:
            break
    trng = ctx.rng('advance-threads')
    for i in range(ctx.n(240, 20000)):
        advance_threads(res, trng, i)
        if len(res.violations) > 5:
            break
    res.exhaustive = True
    if ctx.shard == 0:
        check_advance_defaults(res)
    check_advance_things(res, ctx.rng('advance'), ctx.n(2000, 200000))

    rng = ctx.rng('seq')
    for i in range(ctx.n(600, 600000)):
        n_pilots = rng.randint(1, 4)
        sides = ['client'] + ['pilot.%04d' % k for k in range(n_pilots)]
        if rng.random() < 0.35:
            # pilot uids are application data (PilotDescription.uid): names
            # which contain each other, or the word 'client'
            pool  = ['p1', 'p10', 'p100', 'sim', 'sim.gpu', 'hpc_client',
                     'client.2', 'pilot', 'pilot.0']
            sides = ['client'] + rng.sample(pool, n_pilots)
            res.count('sequences_with_nested_side_names')
        msgs, pumps = list(), dict()
        for j in range(rng.randint(2, 6)):
            msgs.append([rng.choice(sides), rng.choice(CHANNELS)[0],
                         rng.choice(['absent', False, True, True]),
                         rng.choice(['absent', 'absent', 'own', 'other',
                                     'unknown', 'rpc_req', 'rpc_res',
                                     'component_start'])])
            pumps[str(j)] = rng.randint(0, 4)
        case = {'sides': sides, 'msgs': msgs, 'pumps': pumps,
                'seed': rng.randint(0, 2 ** 30)}
        if rng.random() < 0.2:
            # one registry lookup of one side fails once while it wires itself
            # (8 lookups per side): the side refuses to start - or, if the
            # code recovers, every rule still holds
            case['wire_fault'] = [rng.choice(sides), rng.randint(1, 8)]
        run_case(res, case)
        if len(res.violations) > 30:
            break
    return res


def replay(case, ctx):
    res = Result()
    if 'class' in case:
        check_advance_defaults(res)
    else:
        run_case(res, case['case'])
    return res
