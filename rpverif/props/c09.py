'''
C09 - Launch commands enact the placement they were given.

Monitor: the strings returned by the real `get_launch_cmds` (plus `can_launch`,
`get_launcher_env`, `get_exec`) of real launch method instances - created by
`LaunchMethod.create`, i.e. through the real constructors, which read
`lm.<name>` from an in-memory registry and run the real `init_from_info` - and
every file those commands reference (host file, rank file, node file, ERF).
The commands are never executed.

Oracle: one small reference interpreter per launcher command line syntax
(written from the launchers' documented options, not from the string building
code) extracts what the command *says*: process count, named nodes, per-node
counts, per-rank core / GPU sets, cores / GPUs per rank - whatever the syntax
can express.  That is compared with the placement the task was given.  In
addition: history independence (fresh instance vs. instance which generated
other commands before), refusal, and `ResourceManager.find_launcher` order.
'''

import os
import re
import json
import math
import shlex
import shutil
import collections

from ..core    import Result, digest, jsonable
from ..harness import rp, ru, NullLog, NullProf, make_td

import radical.utils.serialize                  as rus     # noqa (after boot)
import radical.pilot.resource_config            as rpr     # noqa
import radical.pilot.agent.launch_method.base   as lmb     # noqa

from radical.pilot.agent.resource_manager.base import RMInfo            # noqa
from radical.pilot.agent.resource_manager.base import ResourceManager   # noqa


ID     = 'C09'
LEVEL  = 'exploration'
MANIFEST = {
    'technique': 'runtime monitoring: reference interpreters of the launcher '
                 'command line syntaxes decide over the commands and files the '
                 'real launch method objects produce',
    'text': 'Real launch method instances (MPIRUN and _MPT/_RSH/_CCMRUN/'
            '_DPLACE, MPIEXEC rank-file/host-file/PALS/plain and _MPT, SRUN '
            'old/new/traverse, APRUN, IBRUN, JSRUN, JSRUN_ERF, PRTE, SSH, RSH, '
            'CCMRUN, FORK) are created by LaunchMethod.create from an '
            'in-memory registry and initialised by the real init_from_info.  '
            'For generated placements (1-64 ranks over 1-50 nodes, arbitrary '
            'core/GPU index sets, also produced by the real NodeList.find_slots) '
            'can_launch / get_launch_cmds / get_launcher_env / get_exec are '
            'called; the returned command and every file it names are parsed '
            'by an independent interpreter of that launcher\'s CLI and compared '
            'with the placement: process count, node set, per-node counts, '
            'core and GPU sets where expressible.  The same task is compiled '
            'on a fresh instance and on one that compiled other tasks before '
            '(command, files and instance attributes must agree), and the real '
            'ResourceManager.find_launcher is checked against the configured '
            'order.'
            '  Second session: JSRUN_ERF placements with uneven resource-set sizes; find_launcher is called on a resource manager which has chosen launchers for 0-4 earlier tasks.'
            '  In half of the history cases the task is a re-run: an earlier generation with the same uid and another placement left its files (rank file, host file) in the same sandbox.',
    'note': 'commands are interpreted, never executed (no MPI/Slurm binaries '
            'in the sandbox); launchers which name no nodes (APRUN, CCMRUN, '
            'JSRUN without ERF) are checked for counts only; IBRUN only for '
            'count and the node block of its offset; sampled, not enumerated.'}
RULE   = ('seeded cases, round robin over 30 launcher flavours: allocation of '
          '1-60 nodes (1-128 cores, 0-8 GPUs, 1-4 hw threads), task placement '
          'of 1-64 ranks over 1-50 nodes (sizes biased to 1, 2 and the 42/43 '
          'host-list thresholds; uniform / packed / random distribution; '
          'contiguous and scattered core sets; whole and shared GPUs; a quarter '
          'from the real NodeList.find_slots), 0-4 earlier tasks on the same '
          'instance; every fourth case a find_launcher case over 2-6 launchers '
          'in random order incl. tasks no method accepts.  Non-trivial = more '
          'than one rank, or a history, or a refusal; distinct = case digest.')
ASSUMPTIONS = [
    'task.slots has the format the agent schedulers emit (one slot per rank, '
    'cores/gpus as {index, occupation}); JSRUN gets the resource-set format of '
    'its own scheduler (ContinuousJsrun); description.ranks == number of ranks '
    'placed, cores_per_rank == cores per slot',
    'FLUX and DRAGON are not command line launchers (get_launch_cmds raises / '
    'returns the script) and are out of scope',
    'a placement option which follows the program token of mpirun/mpiexec is '
    'an argument of that program, not of the launcher (all MPI launchers)',
    'MPT mpirun: `hostlist -np N` starts N processes per host list entry; its '
    '-file is read as one host entry per line (lenient reading)',
    'PALS mpiexec: --ppn fills the hosts of the host file in order (as the '
    'comment in mpiexec.py states); --cpu-bind list is accepted when it fits '
    'either per node-local rank or per global rank',
    'srun: node list plus matching --nodes names the node set, per-node counts '
    'are left to Slurm; traverse mode is checked for count and node set only',
    'ibrun: host list has IBRUN_TASKS_PER_NODE entries per allocated node in '
    'node_list order; only the block of the offset is checked (the list is '
    'built outside RP)',
    'a raise from get_launch_cmds after can_launch said yes counts as a (late) '
    'refusal, not as a violation',
]
SHARDS   = {'quick': 8, 'thorough': 16}
TIMEOUT  = {'quick': 240, 'thorough': 3000}

LM_NAMES = ['MPIRUN', 'MPIRUN_MPT', 'MPIRUN_RSH', 'MPIRUN_CCMRUN',
            'MPIRUN_DPLACE', 'MPIEXEC', 'MPIEXEC_MPT', 'SRUN', 'APRUN',
            'IBRUN', 'JSRUN', 'JSRUN_ERF', 'PRTE', 'SSH', 'RSH', 'CCMRUN',
            'FORK']
MODES    = ['mpirun:-host', 'mpirun:-hostfile', 'mpirun-mpt:hostlist',
            'mpirun-mpt:-file', 'mpiexec:-rf', 'mpiexec:--ppn', 'mpiexec:-f',
            'mpiexec:--hostfile', 'srun:--nodelist', 'srun:--nodefile',
            'srun:arbitrary', 'aprun', 'ccmrun', 'ibrun', 'jsrun:rs',
            'jsrun:erf', 'prun:--host', 'ssh', 'rsh', 'fork']

REQUIRED = {'cmds_%s' % n: 60 for n in LM_NAMES}
REQUIRED.update({'set:modes'            : len(MODES),
                 'set:lm_classes'       : 11,
                 'history_pairs'        : 1500,
                 'find_launcher_calls'  : 800,
                 'find_launcher_none'   : 20,
                 'refusals'             : 300,
                 'files_parsed'         : 1500,
                 'placements_real_sched': 200})


# ------------------------------------------------------------------------------
#
# in-memory stand-in for the registry the LM constructor reads `lm.<name>` from
#
class MemRegistry(object):

    store = dict()
    gets  = 0

    def __init__(self, url=None, *args, **kwargs):
        self.url = url

    def get(self, key, default=None):
        MemRegistry.gets += 1
        val = MemRegistry.store.get(key, default)
        if val is None:
            return val
        return rus.from_msgpack(rus.to_msgpack(val))

    def put(self, key, val):
        MemRegistry.store[key] = rus.from_msgpack(rus.to_msgpack(val))

    def __getitem__(self, key):
        return self.get(key)

    def __setitem__(self, key, val):
        self.put(key, val)

    def close(self):
        pass


def _install_registry():
    if ru.zmq.RegistryClient is not MemRegistry:
        ru.zmq.RegistryClient = MemRegistry
    os.makedirs('env', exist_ok=True)
    if not os.path.isfile('env/bs0_orig.env'):
        with open('env/bs0_orig.env', 'w') as fout:
            fout.write('export C09_ORIG=1\n')


# ------------------------------------------------------------------------------
#
# launcher flavours: LM name (as given to LaunchMethod.create), synthetic
# lm_info (what init_from_scratch documents to return), interpreter family
#
def _mpirun_info(**kw):
    d = {'env': {}, 'env_sh': 'env/lm_mpirun.sh', 'command': '/opt/mpi/bin/mpirun',
         'mpt': False, 'rsh': False, 'ccmrun': '', 'dplace': '', 'omplace': '',
         'mpi_version': '4.1.5', 'mpi_flavor': 'OMPI'}
    d.update(kw)
    return d


def _mpiexec_info(**kw):
    d = {'env': {}, 'env_sh': 'env/lm_mpiexec.sh',
         'command': '/opt/mpi/bin/mpiexec', 'mpt': False, 'rsh': False,
         'use_rf': False, 'use_hf': False, 'can_os': False, 'ccmrun': '',
         'dplace': '', 'omplace': '', 'mpi_version': '4.1.5',
         'mpi_flavor': 'OMPI'}
    d.update(kw)
    return d


def _plain_info(cmd, **kw):
    d = {'env': {}, 'env_sh': 'env/lm_x.sh', 'command': cmd}
    d.update(kw)
    return d


FLAVOURS = [
    # label                name             family        lm_info
    ['MPIRUN',            'MPIRUN',        'mpirun',     _mpirun_info()],
    ['MPIRUN.hydra',      'MPIRUN',        'mpirun',     _mpirun_info(mpi_flavor='HYDRA')],
    ['MPIRUN.spectrum',   'MPIRUN',        'mpirun',     _mpirun_info(mpi_flavor='SPECTRUM')],
    ['MPIRUN_MPT',        'MPIRUN_MPT',    'mpirun-mpt', _mpirun_info(mpt=True, command='/opt/hpe/mpt/bin/mpirun')],
    ['MPIRUN_MPT.omplace', 'MPIRUN_MPT',   'mpirun-mpt', _mpirun_info(mpt=True, command='/opt/hpe/mpt/bin/mpirun', omplace='/opt/hpe/mpt/bin/omplace')],
    ['MPIRUN_RSH',        'MPIRUN_RSH',    'mpirun',     _mpirun_info(rsh=True)],
    ['MPIRUN_CCMRUN',     'MPIRUN_CCMRUN', 'mpirun',     _mpirun_info(ccmrun='/usr/bin/ccmrun')],
    ['MPIRUN_DPLACE',     'MPIRUN_DPLACE', 'mpirun',     _mpirun_info(dplace='/usr/bin/dplace')],
    ['MPIEXEC.rf',        'MPIEXEC',       'mpiexec',    _mpiexec_info(use_rf=True)],
    ['MPIEXEC.hf',        'MPIEXEC',       'mpiexec',    _mpiexec_info(use_hf=True, mpi_flavor='HYDRA')],
    ['MPIEXEC.pals',      'MPIEXEC',       'mpiexec',    _mpiexec_info(mpi_flavor='PALS', command='/opt/cray/pals/bin/mpiexec')],
    ['MPIEXEC.plain',     'MPIEXEC',       'mpiexec',    _mpiexec_info()],
    ['MPIEXEC.plain.os',  'MPIEXEC',       'mpiexec',    _mpiexec_info(can_os=True)],
    ['MPIEXEC_MPT',       'MPIEXEC_MPT',   'mpiexec',    _mpiexec_info(mpt=True, command='/opt/hpe/mpt/bin/mpiexec_mpt')],
    ['MPIEXEC_MPT.omplace', 'MPIEXEC_MPT', 'mpiexec',    _mpiexec_info(mpt=True, command='/opt/hpe/mpt/bin/mpiexec_mpt', omplace='omplace')],
    ['SRUN.old',          'SRUN',          'srun',       _plain_info('/usr/bin/srun', version='17.11.2', vmajor=17)],
    ['SRUN.new',          'SRUN',          'srun',       _plain_info('/usr/bin/srun', version='23.02.1', vmajor=23)],
    ['SRUN.traverse',     'SRUN',          'srun',       _plain_info('/usr/bin/srun', version='23.02.1', vmajor=23)],
    ['APRUN',             'APRUN',         'aprun',      _plain_info('/usr/bin/aprun')],
    ['CCMRUN',            'CCMRUN',        'ccmrun',     _plain_info('/usr/bin/ccmrun')],
    ['IBRUN',             'IBRUN',         'ibrun',      _plain_info('/usr/local/bin/ibrun')],
    ['IBRUN.tpn',         'IBRUN',         'ibrun',      _plain_info('/usr/local/bin/ibrun')],
    ['JSRUN',             'JSRUN',         'jsrun',      _plain_info('/opt/ibm/bin/jsrun', erf=False)],
    ['JSRUN_ERF',         'JSRUN_ERF',     'jsrun',      _plain_info('/opt/ibm/bin/jsrun', erf=True)],
    ['PRTE',              'PRTE',          'prun',       _plain_info('/opt/prrte/bin/prun')],
    ['SSH',               'SSH',           'ssh',        _plain_info('/usr/bin/ssh -o StrictHostKeyChecking=no -o ControlMaster=auto')],
    ['SSH.rshlink',       'SSH',           'ssh',        _plain_info('/usr/bin/rsh')],
    ['RSH',               'RSH',           'rsh',        _plain_info('/usr/bin/rsh')],
    ['FORK',              'FORK',          'fork',       {'env': {}, 'env_sh': 'env/lm_fork.sh'}],
    ['FORK.host',         'FORK',          'fork',       {'env': {}, 'env_sh': 'env/lm_fork.sh'}],
]
FLAVOUR = {f[0]: {'label': f[0], 'name': f[1], 'family': f[2], 'lm_info': f[3]}
           for f in FLAVOURS}
LABELS  = [f[0] for f in FLAVOURS]

SINGLE_RANK = ('ssh', 'rsh', 'fork')


# ------------------------------------------------------------------------------
#
# generators
#
def _hostname():
    return ru.get_hostname() or 'localhost'


def gen_alloc(rng, label):

    T     = rng.choice([1, 1, 2, 3, 4, 8, 43, 44, 50, 60, rng.randint(1, 60)])
    cpn   = rng.choice([1, 2, 4, 8, 8, 16, 16, 32, 56, 64, 128])
    gpn   = rng.choice([0, 0, 1, 2, 4, 6, 8])
    tpc   = rng.choice([1, 1, 1, 2, 4])
    style = rng.choice(['node', 'nid', 'fqdn', 'rack'])
    base  = rng.choice([0, 1, 17, 1000])
    step  = rng.choice([1, 1, 3])

    names = list()
    for i in range(T):
        n = base + step * i
        if   style == 'node': names.append('node%d'              % n)
        elif style == 'nid' : names.append('nid%05d'             % n)
        elif style == 'fqdn': names.append('c%d.cluster.example' % n)
        else                : names.append('r%d-n%02d'           % (n // 8,
                                                                    n % 8))
    fam = FLAVOUR[label]['family']
    if fam == 'fork' and rng.random() < 0.8:
        names[rng.randrange(T) if rng.random() < 0.3 else 0] = \
                'localhost' if label == 'FORK' else _hostname()
    if fam == 'fork' and T > 1 and rng.random() < 0.5:
        # neighbours whose names look like the agent's own node name: a
        # proper prefix of it, or with a suffix (node1 / node10 / node1-ib)
        own  = _hostname()
        like = [own[:-1] or 'x', own + '0', own + '-ib', 'localhos',
                'localhost2', own.upper() if own.upper() != own else own + 'x']
        free = [i for i, nm in enumerate(names)
                if nm not in ('localhost', own)]
        for i in rng.sample(free, min(len(free), rng.randint(1, 3))):
            names[i] = rng.choice(like) + ('' if rng.random() < 0.7
                                              else '.%d' % i)
        # names must stay unique
        seen_ = set()
        for i, nm in enumerate(names):
            while nm in seen_:
                nm = nm + 'x'
            names[i] = nm
            seen_.add(nm)

    knobs = {'oversubscribe' : rng.random() < 0.4,
             'exact'         : rng.random() < 0.3,
             'requested_gpus': rng.choice([0, T * gpn]),
             'tasks_per_node': None,
             'dvms'          : rng.choice([1, 1, 2])}

    return {'names': names, 'cpn': cpn, 'gpn': gpn, 'tpc': tpc, 'knobs': knobs}


def _spread(rng, units, U, cap):
    '''distribute `units` over U nodes, at least 1 and at most `cap` each'''
    counts = [1] * U
    rest   = units - U
    mode   = rng.choice(['uniform', 'packed', 'random', 'random'])
    if mode == 'uniform' and units % U == 0:
        return [units // U] * U
    if mode == 'packed':
        for i in range(U):
            add = min(rest, cap - 1)
            counts[i] += add
            rest -= add
        return counts
    while rest:
        i = rng.randrange(U)
        if counts[i] < cap:
            counts[i] += 1
            rest -= 1
    return counts


def gen_task(rng, alloc, label, uid, single=False):
    '''
    neutral placement: list of ranks {node (position in allocation), cores,
    gpus, gocc}; ranks come in units of `a` ranks (resource sets, a > 1 only
    for JSRUN) which share one GPU set
    '''
    fam = FLAVOUR[label]['family']
    T, cpn, gpn = len(alloc['names']), alloc['cpn'], alloc['gpn']

    a = 1
    if fam == 'jsrun':
        a = rng.choice([1, 1, 1, 2, 3, 4])
        a = max(1, min(a, cpn))

    cpr = rng.choice([1, 1, 1, 2, 2, 3, 4, cpn])
    cpr = max(1, min(cpr, cpn // a))
    cap = cpn // (a * cpr)

    gk, gocc = 0, 1.0
    if gpn and rng.random() < 0.5:
        gk = rng.choice([1, 1, 2, gpn])
        gk = min(gk, gpn)
        if gk == 1 and a == 1 and rng.random() < 0.3:
            gocc = 0.5
    if gk:
        cap = min(cap, (gpn // gk) * (2 if gocc == 0.5 else 1))

    max_units = min(64 // a, T * cap, 50 * cap)
    units = rng.choice([1, 1, 2, 2, 3, 4, 5, 8, 16, 41, 42, 43, 44, 50, 63,
                        64, rng.randint(1, 64)])
    units = max(1, min(units, max_units))
    if single:
        units, a = 1, 1

    u_min = int(math.ceil(units / float(cap)))
    u_max = min(units, T, 50)
    U     = rng.choice([u_min, u_max, u_max, min(u_max, max(u_min, 2)),
                        min(u_max, max(u_min, 42)), min(u_max, max(u_min, 43)),
                        rng.randint(u_min, u_max)])
    counts = _spread(rng, units, U, cap)

    # which nodes: contiguous run (with wrap-around) or a scattered subset
    if rng.random() < 0.6:
        start = rng.randrange(T)
        pos   = [(start + i) % T for i in range(U)]
    else:
        pos   = sorted(rng.sample(range(T), U))
    if fam == 'fork' and rng.random() < 0.7:
        for special in ('localhost', _hostname()):
            if special in alloc['names']:
                idx    = alloc['names'].index(special)
                pos    = [idx] + [p for p in pos if p != idx][:U - 1]
                counts = counts[:len(pos)]

    ranks = list()
    for p, cnt in zip(pos, counts):
        need = cnt * a * cpr
        if rng.random() < 0.5:
            off   = rng.randint(0, cpn - need)
            cores = list(range(off, off + need))
        else:
            cores = sorted(rng.sample(range(cpn), need))
        if gk:
            ngp  = cnt * gk if gocc == 1.0 else (cnt + 1) // 2
            gsel = sorted(rng.sample(range(gpn), ngp))
        for u in range(cnt):
            if   not gk      : gpus = []
            elif gocc == 1.0 : gpus = gsel[u * gk:(u + 1) * gk]
            else             : gpus = [gsel[u // 2]]
            for r in range(a):
                i = (u * a + r) * cpr
                ranks.append({'node': p, 'cores': cores[i:i + cpr],
                              'gpus': list(gpus), 'gocc': gocc})

    # rank order need not be grouped by node: application-supplied placements
    # (and scattered allocations) interleave nodes, e.g. [n1, n2, n1, n2]
    if a == 1 and len(ranks) > 2 and rng.random() < 0.3:
        rng.shuffle(ranks)
        return _finish_task(rng, alloc, label, uid, ranks, a, 'interleaved')

    return _finish_task(rng, alloc, label, uid, ranks, a, 'random')


def gen_task_sched(rng, alloc, label, uid, cache):
    '''
    placement produced by the real NodeList.find_slots (None: no fit); the
    node list of a case is built once and fills up task by task, as it does
    for a scheduler
    '''

    T, cpn, gpn = len(alloc['names']), alloc['cpn'], alloc['gpn']
    if T * cpn > 1024:
        return None                       # cost of building the node list

    if 'nl' not in cache:
        nodes = list()
        for i, name in enumerate(alloc['names']):
            busy = 0.0 if rng.random() < 0.5 else rng.choice([0.2, 0.5])
            nodes.append(rpr.Node({'index': i, 'name': name,
                                   'cores': [1.0 if rng.random() < busy
                                             else 0.0 for _ in range(cpn)],
                                   'gpus' : [1.0 if rng.random() < busy
                                             else 0.0 for _ in range(gpn)],
                                   'lfs'  : 1024, 'mem': 1024}))
        cache['nl'] = rpr.NodeList(nodes=nodes)
    nl = cache['nl']
    nl.__index__ = rng.randrange(T)
    nl.__last_failed_rr__ = None

    cpr  = max(1, min(rng.choice([1, 1, 2, 3, 4]), cpn))
    gk   = min(rng.choice([0, 0, 1, 2]), gpn)
    gocc = rng.choice([1.0, 0.5]) if gk == 1 else 1.0
    rr   = rpr.RankRequirements(n_cores=cpr, n_gpus=gk, gpu_occupation=gocc)
    n    = rng.choice([1, 2, 3, 4, 8, 16, 43, 44, 64, rng.randint(1, 64)])
    try:
        slots = nl.find_slots(rr, n)
    except (ValueError, RuntimeError):
        return None
    if not slots:
        return None

    slots = rus.from_msgpack(rus.to_msgpack([s.as_dict() for s in slots]))
    if len({s['node_name'] for s in slots}) > 50:
        return None
    ranks = [{'node' : s['node_index'],
              'cores': [c['index'] for c in s['cores']],
              'gpus' : [g['index'] for g in s['gpus']],
              'gocc' : s['gpus'][0]['occupation'] if s['gpus'] else 1.0}
             for s in slots]
    for s in slots:
        assert alloc['names'][s['node_index']] == s['node_name']

    return _finish_task(rng, alloc, label, uid, ranks, 1, 'find_slots')


def _finish_task(rng, alloc, label, uid, ranks, a, src):

    n    = len(ranks)
    cpr  = len(ranks[0]['cores'])
    gk   = len(ranks[0]['gpus'])
    gocc = ranks[0]['gocc']
    if   not gk : gpr = 0.0
    elif a > 1  : gpr = gk / float(a)
    else        : gpr = gk * gocc

    mpi = n > 1
    if n > 1 and rng.random() < 0.15: mpi = False
    if n == 1 and rng.random() < 0.15: mpi = True

    exe = '/bin/true'
    r   = rng.random()
    if   r < 0.04: exe = ''
    elif r < 0.06: exe = None

    # JSRUN_ERF names every rank explicitly, so resource sets need not all
    # hold the same number of ranks (3 + 2 ranks over two nodes ...): split
    # the sets of a placement unevenly now and then
    rs_sizes = None
    if label == 'JSRUN_ERF' and n > 2 and rng.random() < 0.35:
        rs_sizes, i = list(), 0
        while i < n:
            k = 1
            while i + k < n and k < 4 and \
                    ranks[i + k]['node'] == ranks[i]['node'] and \
                    rng.random() < 0.6:
                k += 1
            rs_sizes.append(k)
            i += k

    return {'uid'  : uid,
            'src'  : src,
            'a'    : a,
            'rs_sizes': rs_sizes,
            'ranks': ranks,
            'td'   : {'executable'    : exe,
                      'arguments'     : rng.choice([[], ['-n', '1'],
                                                    ['a b', "it's", '$X']]),
                      'ranks'         : n,
                      'cores_per_rank': cpr,
                      'gpus_per_rank' : gpr,
                      'gpu_type'      : rng.choice(['', 'CUDA', 'ROCm'])
                                        if gk else '',
                      'threading_type': rng.choice(['', 'OpenMP']),
                      'use_mpi'       : mpi,
                      'mem_per_rank'  : rng.choice([0, 0, 512]),
                      'skip_gpus'     : rng.random() < 0.1},
            'partition': 0}


def gen_case(rng, label, uid0=0):

    alloc = gen_alloc(rng, label)
    fam   = FLAVOUR[label]['family']
    if label == 'IBRUN.tpn':
        alloc['knobs']['tasks_per_node'] = alloc['cpn']

    cache = dict()

    def one(uid, single):
        if fam != 'jsrun' and not single and rng.random() < 0.25:
            t = gen_task_sched(rng, alloc, label, uid, cache)
            if t:
                return t
        return gen_task(rng, alloc, label, uid, single=single)

    single = fam in SINGLE_RANK and rng.random() < 0.65
    B   = one('task.%06d' % uid0, single)
    nA  = rng.choice([0, 1, 1, 2, 3, 4])
    A   = [one('task.%06d' % (uid0 + 1 + i),
               fam in SINGLE_RANK and rng.random() < 0.5) for i in range(nA)]
    if alloc['knobs']['dvms'] == 2:
        for t in [B] + A:
            t['partition'] = rng.choice([0, 1])

    return {'kind': 'lm', 'flavour': label, 'alloc': alloc, 'B': B, 'A': A}


def gen_find_case(rng, uid0=0):

    # one flavour per LM name, JSRUN excluded (it needs its own slot format)
    by_name = collections.defaultdict(list)
    for label in LABELS:
        if FLAVOUR[label]['family'] != 'jsrun':
            by_name[FLAVOUR[label]['name']].append(label)
    names  = sorted(by_name)
    k      = rng.randint(2, 6)
    chosen = rng.sample(names, k)
    if rng.random() < 0.7:
        # single rank methods first: they must refuse what they cannot start
        chosen.sort(key=lambda n: (n not in ('SSH', 'RSH', 'FORK'),
                                   rng.random()))
    labels = [rng.choice(by_name[n]) for n in chosen]
    lead   = labels[0]
    alloc  = gen_alloc(rng, lead)
    if 'IBRUN.tpn' in labels:
        alloc['knobs']['tasks_per_node'] = alloc['cpn']
    single = rng.random() < 0.5
    B      = None
    if not single and rng.random() < 0.25:
        B  = gen_task_sched(rng, alloc, lead, 'task.%06d' % uid0, dict())
    if not B:
        B  = gen_task(rng, alloc, lead, 'task.%06d' % uid0, single=single)
    if alloc['knobs']['dvms'] == 2:
        B['partition'] = rng.choice([0, 1])
    if rng.random() < 0.08:
        B['td']['executable'] = rng.choice(['', None])
    dict_order = list(labels)
    rng.shuffle(dict_order)

    # the resource manager lives as long as the pilot: it has chosen
    # launchers for other tasks before (same shape, other nodes / other
    # shapes), which must not influence the choice for B
    A = list()
    for i in range(rng.choice([0, 0, 1, 2, 3, 4])):
        a = gen_task(rng, alloc, lead, 'task.%06d' % (uid0 + 1 + i),
                     single=single if rng.random() < 0.8 else not single)
        if alloc['knobs']['dvms'] == 2:
            a['partition'] = rng.choice([0, 1])
        A.append(a)

    return {'kind': 'find', 'order': labels, 'dict_order': dict_order,
            'alloc': alloc, 'B': B, 'A': A}


# ------------------------------------------------------------------------------
#
# construction of the real objects from a case
#
def make_rm_info(alloc):

    k = alloc['knobs']
    return RMInfo({
        'requested_nodes'  : len(alloc['names']),
        'requested_cores'  : len(alloc['names']) * alloc['cpn'],
        'requested_gpus'   : k['requested_gpus'],
        'partition_ids'    : list(),
        'node_list'        : [{'name' : name, 'index': i,
                               'cores': [0] * alloc['cpn'],
                               'gpus' : [0] * alloc['gpn'],
                               'lfs'  : 0, 'mem': 0}
                              for i, name in enumerate(alloc['names'])],
        'backup_list'      : list(),
        'agent_node_list'  : list(),
        'service_node_list': list(),
        'cores_per_node'   : alloc['cpn'],
        'threads_per_core' : alloc['tpc'],
        'gpus_per_node'    : alloc['gpn'],
        'details'          : {'oversubscribe': k['oversubscribe'],
                              'exact'        : k['exact']},
        'launch_methods'   : dict(),
        'numa_domain_map'  : dict()})


def dvm_list(alloc):
    n  = alloc['knobs']['dvms']
    T  = len(alloc['names'])
    return {i: {'nodes'  : list(range(T)),
                'dvm_uri': 'prte-%d@%s.0;tcp://10.0.%d.1:4%04d' % (i, 'dvm', i,
                                                                   i)}
            for i in range(n)}


def new_lm(label, alloc, rm_info, res):
    '''real constructor -> registry lookup -> real init_from_info'''

    fl   = FLAVOUR[label]
    info = json.loads(json.dumps(fl['lm_info']))
    if fl['family'] == 'prun':
        info['details'] = {'dvm_list': dvm_list(alloc), 'version_info': {}}
    MemRegistry.store['lm.%s' % fl['name'].lower()] = info

    cfg = {'reg_addr': 'mem://c09', 'pid': 'pilot.0000',
           'resource': 'local.localhost'}
    if label == 'SRUN.traverse':
        cfg['resource'] = 'princeton.traverse'
    if alloc['knobs']['tasks_per_node']:
        cfg['options'] = {'tasks_per_node': alloc['knobs']['tasks_per_node']}

    gets = MemRegistry.gets
    lm   = lmb.LaunchMethod.create(fl['name'], ru.Config(from_dict=cfg),
                                   rm_info, NullLog(), NullProf())
    assert MemRegistry.gets == gets + 1, 'constructor did not read registry'
    assert lm.name == fl['name']
    res.see('lm_classes', type(lm).__name__)
    res.count('instances_created')
    return lm


def make_task(spec, alloc, label, sbox):
    '''the task dict an executor hands to the launch method'''

    fam = FLAVOUR[label]['family']
    tds = spec['td']
    td  = make_td(uid=spec['uid'], executable=tds['executable'] or '/bin/true',
                  arguments=list(tds['arguments']), ranks=tds['ranks'],
                  cores_per_rank=tds['cores_per_rank'],
                  gpus_per_rank=float(tds['gpus_per_rank']),
                  gpu_type=tds['gpu_type'],
                  threading_type=tds['threading_type'],
                  use_mpi=tds['use_mpi'], mem_per_rank=tds['mem_per_rank'],
                  metadata={'lm_skip_gpus': True} if tds['skip_gpus']
                                                  else dict())
    td.verify()
    td = td.as_dict()
    td['executable'] = tds['executable']

    names = alloc['names']
    ranks = spec['ranks']
    slots = list()

    if fam == 'jsrun':
        # resource set format of ContinuousJsrun: one entry per resource set,
        # a core list per rank, the GPU list of the set repeated per rank
        a = spec['a']
        bounds, i = list(), 0
        for k in (spec.get('rs_sizes') or [a] * (len(ranks) // a)):
            bounds.append((i, i + k))
            i += k
        for lo, hi in bounds:
            unit = ranks[lo:hi]
            slots.append({'node_name' : names[unit[0]['node']],
                          'node_index': unit[0]['node'],
                          'cores'     : [list(r['cores']) for r in unit],
                          'gpus'      : [list(r['gpus'])  for r in unit],
                          'lfs'       : 0,
                          'mem'       : 0})
    else:
        for r in ranks:
            slots.append({'cores'     : [{'index': c, 'occupation': 1.0}
                                         for c in r['cores']],
                          'gpus'      : [{'index': g, 'occupation': r['gocc']}
                                         for g in r['gpus']],
                          'lfs'       : 0,
                          'mem'       : 0,
                          'node_index': r['node'],
                          'node_name' : names[r['node']],
                          'version'   : 1})

    return {'uid'              : spec['uid'],
            'description'      : td,
            'slots'            : slots,
            'partition'        : spec['partition'],
            'task_sandbox_path': sbox,
            'task_sandbox'     : 'file://localhost' + sbox}


# ------------------------------------------------------------------------------
#
# reference interpreters
#
class Unparsed(Exception):
    '''the interpreter cannot read the command: no verdict possible'''


class Refuted(Exception):
    '''the command / file is malformed in a way which is itself a violation'''
    def __init__(self, mech, msg):
        Exception.__init__(self, msg)
        self.mech = mech


_ENV_RE = re.compile(r'^[A-Za-z_][A-Za-z0-9_]*=')


def _split_env(toks):
    env = dict()
    i   = 0
    while i < len(toks) and _ENV_RE.match(toks[i]):
        k, _, v = toks[i].partition('=')
        env[k] = v
        i += 1
    return env, toks[i:]


def _walk(toks, with_arg=(), flags=(), attached=(), two_args=()):
    '''
    option scanning as every one of these launchers does it: options are read
    up to the first token which is not an option (the program); returns
    ([(opt, value)], program_and_args)
    '''
    opts = list()
    i    = 0
    while i < len(toks):
        t = toks[i]
        if t == '--':
            i += 1
            break
        if not t.startswith('-') or t == '-':
            break
        name, eq, val = t.partition('=')
        if t.startswith('--') and eq and name in with_arg:
            opts.append((name, val))
            i += 1
        elif t in two_args:
            if i + 2 >= len(toks): raise Unparsed('%s lacks values' % t)
            opts.append((t, (toks[i + 1], toks[i + 2])))
            i += 3
        elif t in with_arg:
            if i + 1 >= len(toks): raise Unparsed('%s lacks a value' % t)
            opts.append((t, toks[i + 1]))
            i += 2
        elif t in flags:
            opts.append((t, True))
            i += 1
        else:
            for a in attached:
                if t.startswith(a) and len(t) > len(a) \
                                   and not t.startswith('--'):
                    opts.append((a, t[len(a):]))
                    i += 1
                    break
            else:
                raise Unparsed('unknown option %r' % t)
    return opts, toks[i:]


def _int(val, what):
    try:
        return int(val)
    except (TypeError, ValueError):
        raise Refuted('malformed-number', '%s is not a number: %r'
                                          % (what, val))


def _first(opts, names, default=None):
    for k, v in opts:
        if k in names:
            return v
    return default


def _lines(path, files):
    if not os.path.isfile(path):
        raise Refuted('file-missing', 'command names %s which does not exist'
                                      % path)
    with open(path) as fin:
        text = fin.read()
    files[path] = text
    return [ln.strip() for ln in text.splitlines()
            if ln.strip() and not ln.strip().startswith('#')]


def _idx_set(spec, what):
    '''"0,1,4-6" -> {0,1,4,5,6}'''
    out = set()
    for part in spec.split(','):
        part = part.strip()
        if not part:
            continue
        if ':' in part:
            raise Unparsed('socket relative index %r in %s' % (part, what))
        lo, dash, hi = part.partition('-')
        if dash:
            lo, hi = _int(lo, what), _int(hi, what)
            if hi < lo:
                raise Refuted('malformed-range', '%s: %r' % (what, part))
            out.update(range(lo, hi + 1))
        else:
            out.add(_int(lo, what))
    return out


def parse_hostfile(path, files):
    '''
    host files of Open MPI (`host [slots=n]`, repeated hosts add up), Hydra
    machine files (`host[:n]`) and plain host lists (one process per line)
    '''
    counts = collections.Counter()
    order  = list()
    for ln in _lines(path, files):
        parts = ln.split()
        host, k = parts[0], 1
        if ':' in host:
            host, _, kk = host.partition(':')
            k = _int(kk, 'host file count')
        for p in parts[1:]:
            if   p.startswith('slots='):     k = _int(p[6:], 'slots=')
            elif p.startswith('max_slots='): pass
            else: raise Unparsed('host file entry %r' % ln)
        if host not in counts:
            order.append(host)
        counts[host] += k
    return counts, order


_RF_RE = re.compile(r'^rank\s+(\d+)\s*=\s*(\S+)\s+slots?\s*=\s*(\S+)$')


def parse_rankfile(path, files):
    '''Open MPI rank file: `rank <n>=<host> slot=<cpu list>`'''
    out = dict()
    for ln in _lines(path, files):
        m = _RF_RE.match(ln)
        if not m:
            raise Refuted('rankfile-syntax', 'rank file line %r' % ln)
        rid = int(m.group(1))
        if rid in out:
            raise Refuted('rankfile-rank-ids', 'rank %d listed twice' % rid)
        out[rid] = (m.group(2), frozenset(_idx_set(m.group(3), 'rank file')))
    return out


_ERF_RE  = re.compile(r'^rank\s*:\s*([0-9,\-\s]+?)\s*:\s*\{(.*)\}\s*$')
_ERF_SET = re.compile(r'\{([^{}]*)\}')


def parse_erf(path, files):
    '''
    jsrun explicit resource file:
        rank: 0,1 : { host: 1; cpu: {0-3},{4-7} ; gpu: {0,1} }
    -> {rank: (host, cpu set, gpu set)}
    '''
    out = dict()
    for ln in _lines(path, files):
        if not ln.startswith('rank'):
            if re.match(r'^[a-z_]+\s*:\s*\S+$', ln):
                continue                       # cpu_index_using: ... etc.
            raise Refuted('erf-syntax', 'ERF line %r' % ln)
        m = _ERF_RE.match(ln)
        if not m:
            raise Refuted('erf-syntax', 'ERF line %r' % ln)
        rids  = sorted(_idx_set(m.group(1), 'ERF rank ids'))
        host, cpus, gpus = None, None, [set()]
        for field in m.group(2).split(';'):
            key, _, val = field.strip().partition(':')
            key, val = key.strip(), val.strip()
            if   key == 'host': host = val
            elif key == 'cpu' : cpus = [_idx_set(s, 'ERF cpu')
                                        for s in _ERF_SET.findall(val)]
            elif key == 'gpu' : gpus = [_idx_set(s, 'ERF gpu')
                                        for s in _ERF_SET.findall(val)]
            elif key in ('mem', ''): pass
            else: raise Unparsed('ERF field %r' % field)
        if host is None or not cpus:
            raise Refuted('erf-syntax', 'ERF line lacks host/cpu: %r' % ln)
        if len(cpus) not in (1, len(rids)) or len(gpus) not in (1, len(rids)):
            raise Refuted('erf-syntax', 'ERF line has %d ranks, %d cpu sets, '
                          '%d gpu sets: %r' % (len(rids), len(cpus), len(gpus),
                                               ln))
        for i, rid in enumerate(rids):
            if rid in out:
                raise Refuted('erf-rank-ids', 'rank %d listed twice' % rid)
            out[rid] = (host,
                        frozenset(cpus[i] if len(cpus) > 1 else cpus[0]),
                        frozenset(gpus[i] if len(gpus) > 1 else gpus[0]))
    return out


def _dense(ranks, what):
    if sorted(ranks) != list(range(len(ranks))):
        raise Refuted('%s-rank-ids' % what, 'rank ids are not 0..%d: %s'
                      % (len(ranks) - 1, sorted(ranks)[:70]))


_PLACEMENT_OPTS = {'-np', '-n', '--np', '-host', '-H', '--host', '-hostfile',
                   '--hostfile', '-machinefile', '-file', '-f', '-rf',
                   '--rankfile', '--ppn', '--cpu-bind'}
_WRAPPERS       = {'dplace', 'omplace'}


def _program(rest, exec_path, wrappers=()):
    '''
    what follows the launcher options is the program the launcher starts and
    its arguments; it has to be the task's exec script, possibly behind a known
    wrapper (dplace, omplace).  Placement options in there never reach the
    launcher.
    '''
    if not rest or rest[-1] != exec_path:
        raise Refuted('program', 'command does not end in the exec script: %s'
                                 % rest[-3:])
    late = [t for t in rest[:-1] if t in _PLACEMENT_OPTS]
    if late:
        raise Refuted('placement-options-after-program',
                      'options %s follow the program token %r and are passed '
                      'to it, not to the launcher' % (late, rest[0]))
    for t in rest[:-1]:
        if os.path.basename(t) not in wrappers:
            raise Unparsed('unexpected program token %r' % t)


def interp_mpirun(toks, exec_path, files, see):
    '''Open MPI / MPICH style mpirun, optionally behind `ccmrun`'''

    if os.path.basename(toks[0]) == 'ccmrun':
        toks = toks[1:]
    opts, rest = _walk(toks[1:],
                       with_arg=('-np', '-n', '--np', '-c', '-host', '-H',
                                 '--host', '-hostfile', '--hostfile',
                                 '-machinefile', '--machinefile'),
                       flags=('-gpu', '--oversubscribe', '-oversubscribe'))
    _program(rest, exec_path, _WRAPPERS)

    np = _first(opts, ('-np', '-n', '--np', '-c'))
    if np is None:
        raise Refuted('no-process-count', 'mpirun without -np')
    out = {'np': _int(np, '-np')}

    hl = _first(opts, ('-host', '-H', '--host'))
    hf = _first(opts, ('-hostfile', '--hostfile', '-machinefile',
                       '--machinefile'))
    if hl is not None and hf is not None:
        raise Unparsed('both host list and host file')
    if hl is not None:
        see('mpirun:-host')
        counts = collections.Counter()
        for entry in hl.split(','):
            host, _, k = entry.partition(':')
            counts[host] += _int(k, 'slots') if k else 1
        out['node_counts'] = counts
    elif hf is not None:
        see('mpirun:-hostfile')
        out['node_counts'] = parse_hostfile(hf, files)[0]
    else:
        raise Refuted('no-nodes-named', 'mpirun names no hosts')
    return out


def interp_mpirun_mpt(toks, exec_path, files, see):
    '''
    HPE MPT mpirun: `mpirun [global opts] [host_list] -np N program`: N
    processes on every entry of the host list
    '''
    i, np, hosts, hfile = 1, None, None, None
    while i < len(toks):
        t = toks[i]
        if t in ('-f', '-file') and i + 1 < len(toks):
            hfile = toks[i + 1]
            i += 2
        elif t in ('-np', '-n') and i + 1 < len(toks):
            np = _int(toks[i + 1], '-np')
            i += 2
        elif not t.startswith('-') and hosts is None and np is None \
                and i + 1 < len(toks) and toks[i + 1] in ('-np', '-n'):
            hosts = t.split(',')
            i += 1
        elif t.startswith('-'):
            raise Unparsed('unknown MPT option %r' % t)
        else:
            break
    _program(toks[i:], exec_path, _WRAPPERS)

    if np is None:
        raise Refuted('no-process-count', 'mpirun without -np')
    if hosts is not None and hfile is not None:
        raise Unparsed('both host list and -file')
    if hosts is not None:
        see('mpirun-mpt:hostlist')
    elif hfile is not None:
        see('mpirun-mpt:-file')
        hosts = [ln.split()[0] for ln in _lines(hfile, files)]
    else:
        raise Refuted('no-nodes-named', 'mpirun names no hosts')

    counts = collections.Counter()
    for h in hosts:
        counts[h] += np
    return {'np': np * len(hosts), 'node_counts': counts}


def interp_mpiexec(toks, exec_path, files, see):

    opts, rest = _walk(toks[1:],
                       with_arg=('-np', '-n', '--np', '-rf', '--rankfile',
                                 '--ppn', '-ppn', '--cpu-bind', '--hostfile',
                                 '-hostfile', '-f', '-machinefile'),
                       flags=('--oversubscribe',))
    _program(rest, exec_path, _WRAPPERS)

    np = _first(opts, ('-np', '-n', '--np'))
    if np is None:
        raise Refuted('no-process-count', 'mpiexec without -np')
    np  = _int(np, '-np')
    out = {'np': np}

    rf  = _first(opts, ('-rf', '--rankfile'))
    hf  = _first(opts, ('--hostfile', '-hostfile', '-f', '-machinefile'))
    ppn = _first(opts, ('--ppn', '-ppn'))
    cb  = _first(opts, ('--cpu-bind',))

    if rf is not None:
        see('mpiexec:-rf')
        ranks = parse_rankfile(rf, files)
        _dense(ranks, 'rankfile')
        if len(ranks) != np:
            raise Refuted('rankfile-np', '-np %d but %d ranks in rank file'
                                         % (np, len(ranks)))
        out['rank_cores']  = [(h, c) for h, c in ranks.values()]
        out['node_counts'] = collections.Counter(h for h, _ in ranks.values())
        return out

    if hf is None:
        raise Refuted('no-nodes-named', 'mpiexec names no hosts')

    counts, order = parse_hostfile(hf, files)

    if ppn is None:
        see('mpiexec:-f' if '-f' in [k for k, _ in opts]
                         else 'mpiexec:--hostfile')
        out['node_counts'] = counts
        return out

    # PALS: the hosts of the file are filled in order with `ppn` ranks each
    see('mpiexec:--ppn')
    ppn    = _int(ppn, '--ppn')
    if ppn < 1:
        raise Refuted('malformed-number', '--ppn %d' % ppn)
    fill   = collections.Counter()
    where  = list()                      # (host, local rank) per global rank
    hosts  = order
    for r in range(np):
        if r // ppn >= len(hosts):
            raise Refuted('pals-hosts-exhausted', '-np %d --ppn %d needs more '
                          'than the %d hosts of the host file'
                          % (np, ppn, len(hosts)))
        h = hosts[r // ppn]
        where.append((h, fill[h]))
        fill[h] += 1
    for h in hosts:
        fill[h] += 0             # named by the host file, maybe left empty
    out['node_counts'] = fill

    if cb is not None:
        kind, _, spec = cb.partition(':')
        if kind != 'list':
            raise Unparsed('--cpu-bind %s' % kind)
        lists = [frozenset(_idx_set(s, '--cpu-bind list'))
                 for s in spec.split(':')]
        # reading 1: one list per node-local rank
        if all(l < len(lists) for _, l in where):
            out['rank_cores'] = [(h, lists[l]) for h, l in where]
        # reading 2: one list per global rank
        if len(lists) >= np:
            out['rank_cores_alt'] = [(where[r][0], lists[r])
                                     for r in range(np)]
        if 'rank_cores' not in out and 'rank_cores_alt' not in out:
            raise Refuted('pals-cpu-bind-short', '--cpu-bind has %d lists for '
                          '--ppn %d / -np %d' % (len(lists), ppn, np))
        if 'rank_cores' not in out:
            out['rank_cores'] = out.pop('rank_cores_alt')
    return out


def interp_srun(toks, exec_path, files, see):

    opts, rest = _walk(toks[1:],
                       with_arg=('--export', '--nodes', '-N', '--ntasks', '-n',
                                 '--cpus-per-task', '-c', '--ntasks-per-core',
                                 '--distribution', '-m', '--threads-per-core',
                                 '--mem', '--gpus-per-task', '--gpu-bind',
                                 '--nodefile', '-F', '--nodelist', '-w',
                                 '--kill-on-bad-exit'),
                       flags=('--exact', '--quit-on-interrupt', '-K0', '-K1',
                              '--exclusive'))
    _program(rest, exec_path)

    nt = _first(opts, ('--ntasks', '-n'))
    if nt is None:
        raise Refuted('no-process-count', 'srun without --ntasks')
    out = {'np': _int(nt, '--ntasks')}

    nl = _first(opts, ('--nodelist', '-w'))
    nf = _first(opts, ('--nodefile', '-F'))
    if nl is not None and nf is not None:
        raise Unparsed('both node list and node file')
    if nl is not None:
        see('srun:--nodelist')
        if '[' in nl or '/' in nl:
            raise Unparsed('host list expression %r' % nl)
        nodes = [n for n in nl.split(',') if n]
    elif nf is not None:
        see('srun:--nodefile')
        nodes = [n for ln in _lines(nf, files)
                   for n in re.split(r'[,\s]+', ln) if n]
    else:
        raise Refuted('no-nodes-named', 'srun names no nodes')
    if len(set(nodes)) != len(nodes):
        raise Refuted('srun-node-twice', 'node listed twice: %s' % nodes[:50])
    out['node_set'] = set(nodes)

    nn = _first(opts, ('--nodes', '-N'))
    if nn is not None:
        lo, _, hi = nn.partition('-')
        lo = _int(lo, '--nodes')
        hi = _int(hi, '--nodes') if hi else lo
        if not lo <= len(nodes) <= hi:
            raise Refuted('srun-nodes-count', '--nodes %s but %d nodes listed'
                                              % (nn, len(nodes)))
    if _first(opts, ('--distribution', '-m')) is not None:
        see('srun:arbitrary')

    c = _first(opts, ('--cpus-per-task', '-c'))
    if c is not None:
        out['cpr'] = _int(c, '--cpus-per-task')
    g = _first(opts, ('--gpus-per-task',))
    if g is not None:
        out['gpr'] = _int(g, '--gpus-per-task')
    return out


def interp_aprun(toks, exec_path, files, see):
    opts, rest = _walk(toks[1:], with_arg=('-n', '-d', '-N', '-j', '-cc',
                                           '--cc', '-e', '-r', '-L', '-F',
                                           '-S'))
    _program(rest, exec_path)
    see('aprun')
    n = _first(opts, ('-n',))
    if n is None:
        raise Refuted('no-process-count', 'aprun without -n')
    out = {'np': _int(n, '-n'), 'delegated': True}
    d = _first(opts, ('-d',))
    if d is not None:
        out['cpr'] = _int(d, '-d')
    return out


def interp_ccmrun(toks, exec_path, files, see):
    opts, rest = _walk(toks[1:], with_arg=('-n',))
    _program(rest, exec_path)
    see('ccmrun')
    n = _first(opts, ('-n',))
    if n is None:
        raise Refuted('no-process-count', 'ccmrun without -n')
    return {'np': _int(n, '-n'), 'delegated': True}


def interp_ibrun(toks, exec_path, files, see):
    env, toks  = _split_env(toks)
    opts, rest = _walk(toks[1:], with_arg=('-n', '-np', '-o'))
    _program(rest, exec_path)
    see('ibrun')
    n = _first(opts, ('-n', '-np'))
    if n is None:
        raise Refuted('no-process-count', 'ibrun without -n')
    out = {'np': _int(n, '-n'), 'delegated': True,
           'ibrun_offset': _int(_first(opts, ('-o',), 0), '-o')}
    if 'IBRUN_TASKS_PER_NODE' in env:
        out['ibrun_tpn'] = _int(env['IBRUN_TASKS_PER_NODE'],
                                'IBRUN_TASKS_PER_NODE')
    return out


def interp_jsrun(toks, exec_path, files, see):

    short = ('-n', '-a', '-c', '-g', '-r', '-b', '-l', '-d')
    opts, rest = _walk(toks[1:],
                       with_arg=short + ('--nrs', '--tasks_per_rs',
                                         '--cpu_per_rs', '--gpu_per_rs',
                                         '--rs_per_host', '--bind',
                                         '--smpiargs', '--erf_input', '-U'),
                       attached=short)
    _program(rest, exec_path)

    erf = _first(opts, ('--erf_input', '-U'))
    if erf is not None:
        see('jsrun:erf')
        ranks = parse_erf(erf, files)
        _dense(ranks, 'erf')
        vals = [ranks[r] for r in sorted(ranks)]
        return {'np'         : len(ranks),
                'node_key'   : 'index',
                'node_counts': collections.Counter(h for h, _, _ in vals),
                'rank_cores' : [(h, c) for h, c, _ in vals],
                'rank_gpus'  : [(h, g) for h, _, g in vals]}

    see('jsrun:rs')
    n = _first(opts, ('-n', '--nrs'))
    a = _first(opts, ('-a', '--tasks_per_rs'), '1')
    if n is None:
        raise Refuted('no-process-count', 'jsrun without -n')
    n, a = _int(n, '-n'), _int(a, '-a')
    out  = {'np': n * a, 'delegated': True, 'rs': (n, a)}
    c = _first(opts, ('-c', '--cpu_per_rs'))
    g = _first(opts, ('-g', '--gpu_per_rs'))
    r = _first(opts, ('-r', '--rs_per_host'))
    if c is not None: out['rs_cpus'] = _int(c, '-c')
    if g is not None: out['rs_gpus'] = _int(g, '-g')
    if r is not None:
        r = _int(r, '-r')
        if r < 1 or n % r:
            raise Refuted('jsrun-rs-per-host', '-r %d does not divide -n %d'
                                               % (r, n))
    return out


def interp_prun(toks, exec_path, files, see):

    opts, rest = _walk(toks[1:],
                       with_arg=('--dvm-uri', '--np', '-np', '-n', '--map-by',
                                 '--bind-to', '--host', '-H', '--hostfile'),
                       flags=('--verbose', '--oversubscribe'),
                       two_args=('--pmixmca', '--prtemca'))
    _program(rest, exec_path)

    np = _first(opts, ('--np', '-np', '-n'))
    if np is None:
        raise Refuted('no-process-count', 'prun without --np')
    out = {'np': _int(np, '--np'), 'dvm_uri': _first(opts, ('--dvm-uri',))}

    hl = _first(opts, ('--host', '-H'))
    if hl is None:
        raise Refuted('no-nodes-named', 'prun names no hosts')
    see('prun:--host')
    counts = collections.Counter()
    for entry in hl.split(','):
        host, _, k = entry.partition(':')
        counts[host] += _int(k, 'slots') if k else 1
    out['node_counts'] = counts

    mb = _first(opts, ('--map-by',), '')
    m  = re.search(r'(?:^|:)PE=(\d+)', mb, re.I)
    if m:
        out['cpr'] = int(m.group(1))
    return out


def interp_ssh(toks, exec_path, files, see):
    opts, rest = _walk(toks[1:],
                       with_arg=('-o', '-p', '-l', '-i', '-F', '-E', '-J'),
                       flags=('-q', '-t', '-tt', '-T', '-x', '-X', '-Y', '-n',
                              '-A', '-a', '-v', '-4', '-6'))
    see('ssh')
    if len(rest) < 2:
        raise Refuted('program', 'ssh without host or command: %s' % rest)
    host = rest[0].rpartition('@')[2]
    _program(rest[1:], exec_path)
    return {'np': 1, 'node_counts': collections.Counter([host])}


def interp_rsh(toks, exec_path, files, see):
    opts, rest = _walk(toks[1:], with_arg=('-l',), flags=('-n', '-d'))
    see('rsh')
    if len(rest) < 2:
        raise Refuted('program', 'rsh without host or command: %s' % rest)
    _program(rest[1:], exec_path)
    return {'np': 1, 'node_counts': collections.Counter([rest[0]])}


def interp_fork(toks, exec_path, files, see):
    see('fork')
    if toks != [exec_path]:
        raise Refuted('program', 'fork command is not the exec script: %s'
                                 % toks[:4])
    return {'np': 1, 'local': True}


INTERP = {'mpirun'    : interp_mpirun,
          'mpirun-mpt': interp_mpirun_mpt,
          'mpiexec'   : interp_mpiexec,
          'srun'      : interp_srun,
          'aprun'     : interp_aprun,
          'ccmrun'    : interp_ccmrun,
          'ibrun'     : interp_ibrun,
          'jsrun'     : interp_jsrun,
          'prun'      : interp_prun,
          'ssh'       : interp_ssh,
          'rsh'       : interp_rsh,
          'fork'      : interp_fork}


def _expresses(I):
    keys = ['np']
    if 'node_counts' in I              : keys += ['nodes', 'per-node-count']
    if 'node_set'    in I              : keys += ['nodes']
    if 'local'       in I              : keys += ['nodes(local)']
    if 'rank_cores'  in I              : keys += ['cores']
    if 'rank_gpus'   in I              : keys += ['gpus']
    if 'cpr' in I or 'rs_cpus' in I    : keys += ['cores-per-rank']
    if 'gpr' in I or 'rs_gpus' in I    : keys += ['gpus-per-rank']
    if 'ibrun_offset' in I             : keys += ['offset-block']
    if I.get('delegated')              : keys += ['placement delegated']
    return ','.join(keys)


# ------------------------------------------------------------------------------
#
def judge(I, spec, alloc, label):
    '''compare what the command says with the placement; first mismatch wins'''

    names = alloc['names']
    ranks = spec['ranks']
    key   = (lambda r: str(r['node'])) if I.get('node_key') == 'index' \
                                       else (lambda r: names[r['node']])
    want  = collections.Counter(key(r) for r in ranks)

    if I['np'] != len(ranks):
        return 'process-count', 'command starts %d processes, task has %d ' \
                                'ranks' % (I['np'], len(ranks))

    named = None
    if 'node_counts' in I: named = set(I['node_counts'])
    if 'node_set'    in I: named = set(I['node_set'])
    if I.get('local'):
        named = set(want) if set(want) <= {'localhost', _hostname()} \
                          else {'<local host>'}
    if named is not None:
        extra, missing = named - set(want), set(want) - named
        if extra:
            return 'nodes-extra', 'command names %s which are not in the ' \
                   'placement %s' % (sorted(extra)[:8], sorted(want)[:8])
        if missing:
            return 'nodes-missing', 'placement nodes %s are not named by the ' \
                   'command (named: %s)' % (sorted(missing)[:8],
                                            sorted(named)[:8])

    if 'node_counts' in I and \
       {n: k for n, k in I['node_counts'].items() if k} != dict(want):
        diff = {n: (I['node_counts'][n], want[n]) for n in want
                if I['node_counts'][n] != want[n]}
        return 'per-node-count', 'processes per node (command, placement): ' \
               '%s' % dict(sorted(diff.items())[:8])

    def multiset(pairs):
        return collections.Counter((h, tuple(sorted(s))) for h, s in pairs)

    if 'rank_cores' in I:
        wantc = multiset((key(r), r['cores']) for r in ranks)
        if multiset(I['rank_cores']) != wantc and \
           ('rank_cores_alt' not in I or
            multiset(I['rank_cores_alt']) != wantc):
            got  = multiset(I['rank_cores'])
            diff = sorted((got - wantc).items())[:4], \
                   sorted((wantc - got).items())[:4]
            return 'cores', 'core sets differ%s: command has %s, placement ' \
                   'has %s' % ((' (under either reading of the list)'
                                if 'rank_cores_alt' in I else '',) + diff)

    if 'rank_gpus' in I:
        wantg = multiset((key(r), r['gpus']) for r in ranks)
        got   = multiset(I['rank_gpus'])
        if got != wantg:
            diff = sorted((got - wantg).items())[:4], \
                   sorted((wantg - got).items())[:4]
            return 'gpus', 'gpu sets differ: command has %s, placement ' \
                           'has %s' % diff

    if 'cpr' in I:
        sizes = {len(r['cores']) for r in ranks}
        if sizes != {I['cpr']}:
            return 'cores-per-rank', 'command gives %d cores per process, ' \
                   'placement has %s' % (I['cpr'], sorted(sizes))

    if 'gpr' in I:
        sizes = {len(r['gpus']) for r in ranks}
        if sizes != {I['gpr']}:
            return 'gpus-per-rank', 'command gives %d gpus per process, ' \
                   'placement has %s' % (I['gpr'], sorted(sizes))

    if 'rs' in I:
        n, a = I['rs']
        if a != spec['a']:
            return 'rs-shape', '%d tasks per resource set, placement has %d' \
                               % (a, spec['a'])
        unit_cores = spec['a'] * len(ranks[0]['cores'])
        if 'rs_cpus' in I and I['rs_cpus'] * alloc['tpc'] < unit_cores:
            return 'cores-per-rank', 'resource set has %d cores x %d hw ' \
                   'threads, placement needs %d' % (I['rs_cpus'],
                                                    alloc['tpc'], unit_cores)
        if 'rs_gpus' in I and I['rs_gpus'] != len(ranks[0]['gpus']):
            return 'gpus-per-rank', 'resource set has %d gpus, placement %d' \
                                    % (I['rs_gpus'], len(ranks[0]['gpus']))

    if 'ibrun_offset' in I:
        tpn = I.get('ibrun_tpn')
        if tpn is None or tpn < 1:
            return 'ibrun-tasks-per-node', 'IBRUN_TASKS_PER_NODE not set (%s)' \
                                           % tpn
        first = min(r['node'] for r in ranks)       # position in node_list
        block = I['ibrun_offset'] // tpn
        # within a node's block of the host list the offset selects the slot
        # (`cores_per_rank` cores wide) ibrun starts at: it has to be the slot
        # of the lowest core the placement uses ON THAT FIRST NODE
        cpr_  = max(1, len(ranks[0]['cores']))
        cmin  = min(min(r['cores']) for r in ranks if r['node'] == first)
        want  = first * tpn + cmin // cpr_
        if I['ibrun_offset'] != want:
            return 'ibrun-offset-wrong-slot', \
                   'offset %d: the first placement node is #%d (%s), its ' \
                   'lowest core %d is slot %d of that node, i.e. offset %d ' \
                   '(%d host list entries per node)' \
                   % (I['ibrun_offset'], first, names[first], cmin,
                      cmin // cpr_, want, tpn)
        if block != first:
            return 'ibrun-offset-outside-node-block', \
                   'offset %d with %d host list entries per node lies in the ' \
                   'block of node #%d (%s), first placement node is #%d (%s)' \
                   % (I['ibrun_offset'], tpn, block,
                      names[block] if block < len(names) else 'beyond the '
                      'allocation', first, names[first])

    if 'dvm_uri' in I:
        want_uri = dvm_list(alloc)[spec['partition']]['dvm_uri']
        if I['dvm_uri'] != want_uri:
            return 'dvm-uri', 'command addresses DVM %r, partition %d is %r' \
                              % (I['dvm_uri'], spec['partition'], want_uri)

    return None


# ------------------------------------------------------------------------------
#
def _clean(sbox):
    '''empty sandbox (directories are kept: rmdir is slow here)'''
    if not os.path.isdir(sbox):
        os.makedirs(sbox)
        return
    for entry in os.scandir(sbox):
        if entry.is_dir(follow_symlinks=False):
            shutil.rmtree(entry.path, ignore_errors=True)
        else:
            os.unlink(entry.path)


def observe(lm, task, sbox, res, keep=False):
    '''call the real methods; record everything they return and write'''

    if not keep:
        _clean(sbox)
    exec_path = '%s/%s.exec.sh' % (sbox, task['uid'])
    obs = {'can': None, 'why': None, 'cmd': None, 'exc': None,
           'env': None, 'exec': None, 'files': dict(),
           'exec_path': exec_path}
    try:
        can, why = lm.can_launch(task)
        obs['can'], obs['why'] = bool(can), why
    except Exception as e:
        obs['can'], obs['why'] = False, 'raised %r' % e
        res.count('can_launch_raised')

    if not obs['can']:
        return obs

    try:
        cmds = lm.get_launch_cmds(task, exec_path)
        obs['cmd'] = cmds
    except Exception as e:
        obs['exc'] = repr(e)
    try:
        obs['env'] = list(lm.get_launcher_env())
    except Exception as e:
        obs['env'] = 'raised %r' % e
    try:
        obs['exec'] = lm.get_exec(task)
    except Exception as e:
        obs['exec'] = 'raised %r' % e

    for fname in sorted(os.listdir(sbox)):
        with open(os.path.join(sbox, fname)) as fin:
            obs['files'][fname] = fin.read()
    return obs


def _canon(v):
    '''deterministic text of an attribute value (C speed for native data)'''
    if isinstance(v, ru.TypedDict):
        return '{%s}' % ','.join('%r:%s' % (k, _canon(v[k]))
                                 for k in sorted(v.keys(), key=str))
    try:
        return json.dumps(v, sort_keys=True, default=_canon_default)
    except (TypeError, ValueError):
        return json.dumps(jsonable(v), sort_keys=True, default=repr)


def _canon_default(o):
    if isinstance(o, ru.TypedDict):
        return {str(k): o[k] for k in o.keys()}
    if isinstance(o, (set, frozenset)):
        return sorted(o, key=repr)
    return repr(o)


def snapshot(lm, sboxes):
    snap = dict()
    for k, v in vars(lm).items():
        if k in ('_log', '_prof'):
            continue
        s = _canon(v)
        for sb in sboxes:
            s = s.replace(sb, '<SBOX>')
        snap[k] = s
    return snap


def normalise(obs, sbox):
    def n(x):
        if isinstance(x, str):
            return x.replace(sbox, '<SBOX>')
        if isinstance(x, list):
            return [n(y) for y in x]
        return x
    return {'can': obs['can'], 'why': obs['why'], 'cmd': n(obs['cmd']),
            'raised': bool(obs['exc']), 'env': n(obs['env']),
            'exec': n(obs['exec']),
            'files': {k: n(v) for k, v in obs['files'].items()}}


def check_cmd(obs, spec, alloc, label, res, case, tag=''):
    '''interpret one observation and judge it; returns True if judged'''

    fl   = FLAVOUR[label]
    fam  = fl['family']
    name = fl['name']

    if not obs['can']:
        res.count('refusals')
        res.see('refusal_reasons', '%s: %s' % (name, obs['why']))
        return False

    if obs['exc']:
        res.count('late_refusals')
        res.see('late_refusals', '%s: %s' % (label, obs['exc'][:80]))
        return False

    ctx = {'case': case, 'task': spec['uid'], 'cmd': obs['cmd'],
           'files': obs['files'], 'can_launch': [obs['can'], obs['why']]}

    cmds = obs['cmd']
    if isinstance(cmds, (list, tuple)):
        if len(cmds) != 1:
            res.inconc('%s returned %d commands' % (label, len(cmds)))
            return False
        cmds = cmds[0]
    if not isinstance(cmds, str) or '\n' in cmds:
        res.violation('command-type/%s' % label, 'get_launch_cmds returned '
                      '%r' % (cmds,), ctx)
        return False

    files = dict()
    try:
        toks = shlex.split(cmds)
        if not toks:
            raise Refuted('program', 'empty command')
        I = INTERP[fam](toks, obs['exec_path'], files,
                        lambda m: res.see('modes', m))
    except Unparsed as e:
        res.count('unparsed')
        res.inconc('interpreter for %s cannot read a command: %s' % (fam, e))
        return False
    except Refuted as e:
        res.count('cmds_%s' % name)
        # one defect of the command template, whatever the name variant
        key = name.split('_')[0] \
              if e.mech == 'placement-options-after-program' else label
        res.violation('%s/%s' % (e.mech, key), '%s | %s' % (e, cmds), ctx)
        return True
    except ValueError as e:
        res.violation('command-syntax/%s' % label, '%s | %s' % (e, cmds), ctx)
        return True

    res.count('cmds_%s' % name)
    res.count('cmds_interpreted' + tag)
    res.count('files_parsed', len(files))
    res.see('expresses', '%s: %s' % (label, _expresses(I)))
    if I.get('delegated'):
        res.see('placement_delegated', name)
    if len(spec['ranks']) > 42:
        res.see('above_42_ranks', label)
    if len({r['node'] for r in spec['ranks']}) > 42:
        res.see('above_42_nodes', label)

    ctx['interpreted'] = {k: (dict(v) if isinstance(v, collections.Counter)
                              else sorted(v) if isinstance(v, set) else
                              v if isinstance(v, (int, str, bool, tuple))
                              else '...') for k, v in I.items()}
    verdict = judge(I, spec, alloc, label)
    if verdict:
        res.see('violation_placement_sources',
                '%s/%s: %s' % (verdict[0], label, spec['src']))
        mech = '%s/%s' % (verdict[0], label)
        if spec['src'] == 'interleaved' and 'pals' in label.lower():
            # PALS assigns ranks to hosts in host-file order (all ranks of a
            # host consecutively, see the NOTE in mpiexec.py): a rank order
            # which interleaves nodes cannot be expressed at all - same design
            # limitation as the single --ppn, keyed separately
            mech = 'rank-order-not-expressible/%s' % label
        res.violation(mech, '%s | %s' % (verdict[1], cmds[:300]), ctx)
    return True


# ------------------------------------------------------------------------------
#
def run_lm_case(case, res, wd):

    label = case['flavour']
    alloc = case['alloc']
    B, A  = case['B'], case['A']

    sb_fresh, sb_hist = wd + '/b.fresh', wd + '/b.hist'

    # --- fresh instance: B only ----------------------------------------------
    rmi_f   = make_rm_info(alloc)
    lm_f    = new_lm(label, alloc, rmi_f, res)
    obs_f   = observe(lm_f, make_task(B, alloc, label, sb_fresh), sb_fresh, res)
    snap_f1 = snapshot(lm_f, [sb_fresh])
    check_cmd(obs_f, B, alloc, label, res, case)

    # --- instance with a history: A1..An, then B ------------------------------
    rmi_h = make_rm_info(alloc)
    lm_h  = new_lm(label, alloc, rmi_h, res)
    sbs   = list()
    for i, a in enumerate(A):
        sb = '%s/a%d' % (wd, i)
        sbs.append(sb)
        obs_a = observe(lm_h, make_task(a, alloc, label, sb), sb, res)
        check_cmd(obs_a, a, alloc, label, res, case)
    # in half of the cases with a history the sandbox of B is not new either:
    # an earlier generation of the same task (same uid, persistent sandbox,
    # other placement) left its files there
    import zlib
    rerun = bool(A) and zlib.crc32(('%s/%s' % (B['uid'], label)).encode()) % 2
    if rerun:
        prev = dict(A[0]); prev['uid'] = B['uid']
        obs_p = observe(lm_h, make_task(prev, alloc, label, sb_hist), sb_hist,
                        res)
        obs_h = observe(lm_h, make_task(B, alloc, label, sb_hist), sb_hist,
                        res, keep=True)
        for fname in list(obs_h['files']):
            # (files only the earlier generation wrote are still there)
            if fname not in obs_f['files'] and \
                    obs_p['files'].get(fname) == obs_h['files'][fname]:
                del obs_h['files'][fname]
        res.count('reruns_in_a_used_sandbox')
    else:
        obs_h = observe(lm_h, make_task(B, alloc, label, sb_hist), sb_hist,
                        res)
    snap_h1 = snapshot(lm_h, [sb_hist] + sbs)

    res.count('history_pairs')
    res.see('history_lengths', len(A))
    nf, nh = normalise(obs_f, sb_fresh), normalise(obs_h, sb_hist)
    if nf != nh:
        what = [k for k in nf if nf[k] != nh[k]]
        res.violation('history-dependent/%s' % label,
                      '%s of %s differ after %d earlier tasks: fresh %r / '
                      'with history %r' % (what, B['uid'], len(A),
                                           {k: nf[k] for k in what},
                                           {k: nh[k] for k in what}),
                      {'case': case, 'fresh': nf, 'history': nh})

    if snap_f1 != snap_h1:
        what = sorted(k for k in set(snap_f1) | set(snap_h1)
                      if snap_f1.get(k) != snap_h1.get(k))
        res.violation('attributes-accumulate/%s' % label,
                      'instance attributes %s depend on earlier tasks: fresh '
                      '%s / with history %s'
                      % (what, {k: snap_f1.get(k, '')[:200] for k in what},
                         {k: snap_h1.get(k, '')[:200] for k in what}),
                      {'case': case})
    res.count('attribute_snapshots_compared')


# ------------------------------------------------------------------------------
#
def run_find_case(case, res, wd):

    alloc = case['alloc']
    B     = case['B']
    order = case['order']

    rmi = make_rm_info(alloc)
    lms = dict()
    for label in case['dict_order']:
        lms[FLAVOUR[label]['name']] = new_lm(label, alloc, rmi, res)
    by_name = {FLAVOUR[label]['name']: label for label in order}

    rm = ResourceManager.__new__(ResourceManager)
    rm._log          = NullLog()
    rm._prof         = NullProf()
    rm._launchers    = lms
    rm._launch_order = [FLAVOUR[label]['name'] for label in order]

    # earlier choices of the same resource manager instance
    for i, a in enumerate(case.get('A') or []):
        res.count('find_launcher_history_calls')
        if not _find_one(rm, lms, by_name, a, alloc, order, wd + '/fa%d' % i,
                         res, case, compile_cmd=False):
            return
    _find_one(rm, lms, by_name, B, alloc, order, wd + '/f', res, case,
              compile_cmd=True)


def _find_one(rm, lms, by_name, B, alloc, order, sbox, res, case, compile_cmd):

    task = make_task(B, alloc, order[0], sbox)

    cans = list()
    for name in rm._launch_order:
        try   : cans.append(bool(lms[name].can_launch(task)[0]))
        except Exception: cans.append(False)
    expected = None
    for name, can in zip(rm._launch_order, cans):
        if can:
            expected = name
            break

    ctx = {'case': case, 'can_launch': dict(zip(rm._launch_order, cans)),
           'expected': expected}
    try:
        launcher, lname = rm.find_launcher(task)
    except Exception as e:
        res.violation('find-launcher-raised', 'find_launcher raised %r' % e,
                      ctx)
        return False
    res.count('find_launcher_calls')
    res.see('find_launcher_chosen', str(lname))
    res.see('find_launcher_position',
            rm._launch_order.index(lname) if lname else -1)
    ctx['returned'] = lname

    if lname != expected:
        res.violation('find-launcher-order', 'find_launcher returned %s, first '
                      'method in order %s which accepts the task is %s'
                      % (lname, rm._launch_order, expected), ctx)
        return False
    if lname is None:
        res.count('find_launcher_none')
        if launcher is not None:
            res.violation('find-launcher-order', 'no name but a launcher', ctx)
        return True
    if launcher is not lms[lname]:
        res.violation('find-launcher-order', 'returned object is not the '
                      'launcher registered as %s' % lname, ctx)
        return False

    if not compile_cmd:
        return True

    # what the executor does next: the chosen method compiles the command
    label = by_name[lname]
    obs   = observe(launcher, task, sbox, res)
    check_cmd(obs, B, alloc, label, res, case, tag='_via_find_launcher')
    return True


# ------------------------------------------------------------------------------
#
def run_case(case, res, wd):
    _install_registry()
    if case['kind'] == 'find': run_find_case(case, res, wd)
    else                     : run_lm_case (case, res, wd)


def _nontrivial(case):
    if case['kind'] == 'find':
        return True
    return len(case['B']['ranks']) > 1 or bool(case['A']) \
        or not case['B']['td']['executable']


def run(ctx):

    res = Result()
    rng = ctx.rng('cases')
    wd  = os.path.join(ctx.workdir or os.getcwd(), 'case')
    if ctx.workdir:
        os.chdir(ctx.workdir)
    _install_registry()

    n   = ctx.n(9600, 1200000)
    off = ctx.shard * 7
    for i in range(n):
        if i % 4 == 3:
            case = gen_find_case(rng, uid0=i * 8)
        else:
            label = LABELS[(off + i - i // 4) % len(LABELS)]
            case  = gen_case(rng, label, uid0=i * 8)
            if any(t['src'] == 'find_slots' for t in [case['B']] + case['A']):
                res.count('placements_real_sched')

        res.evaluations += 1
        if _nontrivial(case):
            res.digests.add(digest(case))
            if len(res.samples) < 2 and case['kind'] == 'lm' and \
               len(case['B']['ranks']) <= 4 and len(case['A']) <= 1 and \
               len(case['alloc']['names']) <= 4:
                res.samples.append(case)

        n0 = len(res.violations)
        try:
            run_case(case, res, wd)
        except Exception as e:
            import traceback
            res.inconc('harness error in case %d (%s): %r | %s'
                       % (i, case.get('flavour', 'find'), e,
                          traceback.format_exc()[-400:]))
            break
        if len(res.violations) > n0 + 30:
            break

    return res


def replay(case, ctx):
    res = Result()
    if ctx.workdir:
        os.chdir(ctx.workdir)
    wd = os.path.join(ctx.workdir or os.getcwd(), 'case')
    run_case(case['case'], res, wd)
    res.evaluations = 1
    return res
