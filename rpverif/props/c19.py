'''
C19 - Descriptions and payloads survive normalisation and transport.

Monitors (all on the real repository functions, values before/after):

  * a contract (icontract `snapshot` + `ensure`, plain wrapper if the library
    is missing) on the real `TaskDescription.verify`: alias values arrive on
    their replacement, nothing else changes, required attributes are present
    when `verify` returns, and verifying the result again changes nothing;
  * before/after comparison of `as_dict()` for `TaskDescription` /
    `PilotDescription` rebuilt from their plain dictionary, also after the
    dictionary went through radical.utils msgpack and json;
  * `PythonTask` / `PythonTask.pythontask` payloads are decoded with the real
    `PythonTask.get_func_attr` and called (a) exactly like the raptor worker
    calls the decoded triple and (b) by the real `Worker._dispatch_func`, in
    this process and in a fresh interpreter; the value is compared with
    `f(*a, **k)`;
  * `convert_slots_to_new` / `convert_slots_to_old` / `Slot(...)` results are
    compared field by field with the placement that went in, after every
    conversion step.
'''

import os
import re
import sys
import copy
import json
import asyncio
import operator
import functools
import subprocess

from ..core    import Result, digest, jsonable
from ..harness import rp, ru, NullLog, NullProf
from ..        import boot as _boot

import radical.utils.serialize          as rus        # noqa (after boot)
import radical.pilot.task_description   as m_td       # noqa
import radical.pilot.pilot_description  as m_pd       # noqa
import radical.pilot.utils.misc         as m_misc     # noqa
import radical.pilot.resource_config    as m_rc       # noqa
import radical.pilot.pytask             as m_pytask   # noqa
import radical.pilot.utils.serializer   as m_ser      # noqa

try:
    import radical.pilot.raptor.worker  as m_worker   # noqa
except Exception as _e:                               # pragma: no cover
    m_worker     = None
    _WORKER_ERR  = repr(_e)

try:
    import icontract
except Exception:                                     # pragma: no cover
    icontract = None


ID     = 'C19'
LEVEL  = 'exploration'
MANIFEST = {
    'technique': 'runtime monitoring: contract (icontract ensure/snapshot) on '
                 'the real TaskDescription.verify plus before/after value '
                 'oracles on the real (de)serialisation, function transport '
                 'and slot conversion functions',
    'text': 'Generated task descriptions (11 modes and mode unset; each of '
            'the 10 deprecated attributes unset / alone / beside its '
            'replacement with the same or another value; the 3 ignored '
            'deprecated attributes; three construction styles; always fresh '
            'containers) are verified under a contract which decides alias '
            'mapping, preservation of every other attribute, required '
            'attributes per mode and idempotence; descriptions lacking the '
            'required attribute must raise.  Task and pilot descriptions are '
            'rebuilt from as_dict(), directly and after msgpack / json, and '
            'compared.  Generated callables (module functions, closures, '
            'lambdas, partials, defaults, builtins, callable objects, bound '
            'methods, coroutine functions, by-value __main__ functions) are '
            'encoded by PythonTask in every call form, decoded by '
            'get_func_attr and called as the worker does, by the real '
            'Worker._dispatch_func, and in a fresh interpreter; results are '
            'compared with the direct call.  Slot lists in three new and '
            'seven old element forms are converted new->old->new and '
            'old->new->old and through Slot(); node, core/GPU indices, lfs, '
            'mem are compared after every step.'
            "  The same function payload is decoded twice with the first decode's argument objects changed in between (what a call leaves behind): the second decode gives the original arguments and result."
            '  Function tasks are built on 2-4 threads at the same time: every payload decodes to the call its own thread made.'
            '  Slot constructor forms include slots whose cores and gpus use different legal notations (plain indexes, resource dicts, RO objects).',
    'note': 'sampled, not enumerated; alias table taken from _verify and the '
            '_schema comments; when a deprecated attribute and its replacement '
            'are both set to different values either value is accepted; '
            'list-of-index-lists with inner length 2 is outside the domain '
            '(indistinguishable from the documented (index, occupation) '
            'pairs); TASK_METHOD is only required to reject a description '
            'with neither `function` nor `method`.'}
RULE   = ('seeded cases of four kinds. td: mode x alias-state per deprecated '
          'attribute {none, dep, cur, same, diff} x random well-typed other '
          'attributes x build style x {complete, required attribute absent / '
          'empty / None} (+ cases with values needing a type cast, decided by '
          'a hand-written expectation table); pd: pilot descriptions with '
          'nested service task descriptions; func: callable family x call '
          'form x generated args/kwargs; slots: route x element form x 0-3 '
          'slots with 0-6 cores / 0-3 GPUs.  Non-trivial = td with at least '
          'one deprecated attribute, cast value or missing required '
          'attribute; any pd; func case whose call takes at least one '
          'argument or uses an argument-less form; slot list with at least '
          'one core or GPU.  Distinct = case digest.')
ASSUMPTIONS = [
    'alias table = the one in TaskDescription._verify and the _schema '
    'comments (gpu_process_type -> gpu_type); the class docstring names '
    'gpu_thread_type instead, the check follows the code',
    'both a deprecated attribute and its replacement set to different values: '
    'either value is accepted on the replacement (the code lets the '
    'deprecated one win; the documentation is silent)',
    'a replacement attribute holding its documented default counts as unset',
    'values are well typed (schema types) except in the cast cases, whose '
    'expected values are written by hand from the documented radical.utils '
    'TypedDict casting',
    'attribute values are json-native (no tuples/bytes/non-str keys) so that '
    'msgpack and json themselves are lossless; ranks >= 1; named_env is not '
    'set for function/method tasks',
    'TASK_METHOD: docstring requires `method`, which is not in the schema; '
    'only "neither function nor method => raise" is decided',
    'AGENT_SERVICE / RAPTOR_MASTER / RAPTOR_WORKER: no missing-attribute '
    'cases (no documented required attribute)',
    'slot dicts carry all six keys; element forms are homogeneous within a '
    'slot; index lists ([[c0, c1, ..], ..]) have inner length != 2 because a '
    'two-element list is the documented (index, occupation) pair; pairs are '
    'generated with float occupation; occupation itself is not compared '
    '(the old format has none)',
    'functions are pure and deterministic; results compared by == and repr; '
    'functions picklable by reference need their module importable on the '
    'decoding side (the fresh interpreter has /verif on its path)',
    'the contract wrapper replaces TaskDescription.verify in the harness '
    'process only and calls the original function']
SHARDS   = {'quick': 8, 'thorough': 16}
TIMEOUT  = {'quick': 240, 'thorough': 3000}
REQUIRED = {'td_verify_returned'      : 1500,
            'contract_evals'          : 6000,
            'alias_values_checked'    : 1500,
            'required_missing_raised' : 300,
            'td_idempotence_checked'  : 1500,
            'cast_values_checked'     : 200,
            'roundtrips_checked'      : 8000,
            'pd_verified'             : 200,
            'func_direct_calls'       : 1500,
            'func_worker_dispatches'  : 1500,
            'func_child_decodes'      : 100,
            'funcseq_payloads_checked': 1500,
            'set:funcseq_kinds'       : 4,
            'serializer_roundtrips'   : 4000,
            'serializer_file_roundtrips': 100,
            'slot_steps_checked'      : 3000,
            'slot_ctor_checked'       : 500,
            'set:alias_cells'         : 50,
            'set:modes'               : 12,
            'set:required_cells'      : 24,
            'set:func_kinds'          : 14,
            'set:func_forms'          : 7,
            'set:slot_forms'          : 10,
            'set:build_styles'        : 3}

TD = rp.TaskDescription
PD = rp.PilotDescription

# the real, unwrapped function (inherited from radical.utils.TypedDict)
_ORIG_VERIFY = TD.verify


# ------------------------------------------------------------------------------
# documented tables (written from the TaskDescription docstring / _verify)
#
ALIASES = [('cpu_processes'   , 'ranks'         ),
           ('cpu_threads'     , 'cores_per_rank'),
           ('cpu_thread_type' , 'threading_type'),
           ('gpu_processes'   , 'gpus_per_rank' ),
           ('gpu_process_type', 'gpu_type'      ),
           ('lfs_per_process' , 'lfs_per_rank'  ),
           ('mem_per_process' , 'mem_per_rank'  ),
           ('scheduler'       , 'raptor_id'     ),
           ('worker_file'     , 'raptor_file'   ),
           ('worker_class'    , 'raptor_class'  )]
DEP2CUR = dict(ALIASES)
CUR2DEP = {c: d for d, c in ALIASES}
IGNORED = ['cpu_process_type', 'gpu_threads', 'gpu_thread_type']

# documented "unset" value of the replacement attributes
UNSET   = {'ranks': 1, 'cores_per_rank': 1, 'threading_type': '',
           'gpus_per_rank': 0.0, 'gpu_type': '', 'lfs_per_rank': 0,
           'mem_per_rank': 0, 'raptor_id': '', 'raptor_file': '',
           'raptor_class': ''}

ALIAS_VALUES = {'ranks'         : [2, 3, 4, 7, 16, 1024],
                'cores_per_rank': [2, 3, 4, 8, 64],
                'threading_type': ['OpenMP', 'POSIX', 'omp x'],
                'gpus_per_rank' : [1, 2, 4],          # deprecated one is int
                'gpu_type'      : ['CUDA', 'ROCm', 'c u'],
                'lfs_per_rank'  : [1, 10, 1024, 2 ** 33],
                'mem_per_rank'  : [1, 512, 2 ** 33],
                'raptor_id'     : ['master.0000', 'raptor.0001', 'm x'],
                'raptor_file'   : ['w.py', '/tmp/my worker.py', './a/b.py'],
                'raptor_class'  : ['MyWorker', 'MPIWorker', 'W']}
CUR_EXTRA    = {'gpus_per_rank' : [0.5, 0.25, 1.0, 2.0, 3]}

M_EXE, M_SVC, M_FUNC, M_METH = (rp.TASK_EXECUTABLE, rp.TASK_SERVICE,
                                rp.TASK_FUNCTION,   rp.TASK_METHOD)
M_EVAL, M_EXEC, M_PROC, M_SH = (rp.TASK_EVAL, rp.TASK_EXEC, rp.TASK_PROC,
                                rp.TASK_SHELL)
M_RM, M_RW, M_AS             = (rp.RAPTOR_MASTER, rp.RAPTOR_WORKER,
                                rp.AGENT_SERVICE)

# mode -> names of which at least one must be set (docstring "required")
REQ = {M_EXE : ('executable',),
       M_SVC : ('executable',),
       M_PROC: ('executable',),
       M_FUNC: ('function',),
       M_METH: ('function', 'method'),
       M_EVAL: ('code',),
       M_EXEC: ('code',),
       M_SH  : ('command',)}
MODES    = [M_EXE, M_SVC, M_FUNC, M_METH, M_EVAL, M_EXEC, M_PROC, M_SH,
            M_RM, M_RW, M_AS, None, '']
# what a complete description of that mode carries
COMPLETE = {M_EXE : {'executable': '/bin/date'},
            M_SVC : {'executable': '/usr/bin/svc', 'info_pattern': 'stdout:.*'},
            M_PROC: {'executable': '/bin/echo'},
            M_FUNC: {'function': 'hello'},
            M_METH: {'function': 'hello'},
            M_EVAL: {'code': '1 + 1'},
            M_EXEC: {'code': 'print(1)'},
            M_SH  : {'command': 'echo a | wc -c'},
            M_RM  : {},
            M_RW  : {},
            M_AS  : {'executable': '/usr/bin/agent_svc'},
            None  : {'executable': '/bin/true'},
            ''    : {'executable': '/bin/true'}}

MUTABLE = {'arguments': list, 'environment': dict, 'pre_launch': list,
           'pre_exec': list, 'post_launch': list, 'post_exec': list,
           'input_staging': list, 'output_staging': list, 'tags': dict,
           'metadata': dict, 'services': list, 'slots': list, 'args': list,
           'kwargs': dict}

# (attribute, given, attribute which must hold it after verify, expected) -
# values which need a documented cast.  The expected values are written by hand.
CASTS = [('ranks'          , '4'      , 'ranks'          , 4      ),
         ('cores_per_rank' , '2'      , 'cores_per_rank' , 2      ),
         ('gpus_per_rank'  , 1        , 'gpus_per_rank'  , 1.0    ),
         ('gpus_per_rank'  , '0.5'    , 'gpus_per_rank'  , 0.5    ),
         ('arguments'      , [1, 'a'] , 'arguments'      , ['1', 'a']),
         ('pre_launch'     , 'cmd'    , 'pre_launch'     , ['cmd']),
         ('services'       , 'svc'    , 'services'       , ['svc']),
         ('timeout'        , '2.5'    , 'timeout'        , 2.5    ),
         ('timeout'        , 5        , 'timeout'        , 5.0    ),
         ('priority'       , '3'      , 'priority'       , 3      ),
         ('environment'    , {'A': 1} , 'environment'    , {'A': '1'}),
         ('stage_on_error' , 'yes'    , 'stage_on_error' , True   ),
         ('restartable'    , 'False'  , 'restartable'    , False  ),
         ('lfs_per_rank'   , 10.0     , 'lfs_per_rank'   , 10     ),
         ('name'           , 17       , 'name'           , '17'   ),
         # deprecated attribute with a value to cast: lands on the replacement
         ('cpu_processes'  , '4'      , 'ranks'          , 4      ),
         ('gpu_processes'  , '2'      , 'gpus_per_rank'  , 2.0    ),
         ('cpu_threads'    , 2.0      , 'cores_per_rank' , 2      )]


# ------------------------------------------------------------------------------
# contract on TaskDescription.verify
#
class ContractBroken(Exception):

    def __init__(self, failures):
        Exception.__init__(self, '; '.join(m for _, m in failures))
        self.failures = failures          # [(mechanism, message)]


_EVALS = {'alias': 0, 'unchanged': 0, 'required': 0, 'idempotent': 0,
          'alias_values': 0}
_FORM  = {'form': None}


def _snap_pre(self):
    '''state of the description when verify is entered'''
    return copy.deepcopy(self.as_dict())


def _slot_view(s):
    return [s['node_name'], s['node_index'], _idx(s['cores']),
            _idx(s['gpus']), s['lfs'], s['mem']]


def _alias_failures(pre, post, count=True):
    out = list()
    for dep, cur in ALIASES:
        given = pre.get(dep)
        if not given:
            continue
        if count:
            _EVALS['alias_values'] += 1
        allowed = [given]
        if pre.get(cur) != UNSET[cur] and pre.get(cur) != given:
            allowed.append(pre.get(cur))
        if cur not in post or not any(post[cur] == a for a in allowed):
            out.append(('alias-value-lost/%s' % dep,
                        '%s=%r given (with %s=%r): after verify %s=%r, '
                        'expected %s'
                        % (dep, given, cur, pre.get(cur), cur, post.get(cur),
                           ' or '.join(repr(a) for a in allowed))))
    return out


def _unchanged_failures(pre, post):
    out = list()
    for k, v in pre.items():
        if k in DEP2CUR or k in IGNORED:
            continue
        if k in CUR2DEP and pre.get(CUR2DEP[k]):
            continue                       # decided by the alias condition
        if k not in post:
            out.append(('verify-changed/%s' % k, '%s vanished' % k))
        elif k == 'mode':
            exp = v if v else M_EXE
            if post[k] != exp:
                out.append(('mode-default', 'mode %r -> %r' % (v, post[k])))
        elif k == 'use_mpi':
            ranks = post.get('ranks')
            exp   = v if v is not None else \
                    (isinstance(ranks, int) and ranks > 1)
            if post[k] is not exp:
                out.append(('use-mpi-default', 'use_mpi %r with ranks %r -> %r'
                            % (v, ranks, post[k])))
        elif k == 'slots':
            try:
                a = [_slot_view(s) for s in v]
                b = [_slot_view(s) for s in post[k]]
            except Exception as e:
                a, b = 'pre', 'unreadable: %r' % e
            if a != b:
                out.append(('verify-changed/slots', 'slots %r -> %r' % (a, b)))
        elif post[k] != v:
            out.append(('verify-changed/%s' % k,
                        '%s: %r -> %r' % (k, v, post[k])))
    return out


def _required_failures(post):
    mode  = post.get('mode') or M_EXE
    names = REQ.get(mode)
    if names and not any(post.get(n) for n in names):
        return [('required-not-enforced/%s' % mode,
                 'verify returned for mode %s without %s'
                 % (mode, '/'.join(names)))]
    return []


def _idempotent_failures(post):
    again = TD(from_dict=copy.deepcopy(post))
    try:
        _ORIG_VERIFY(again)
    except Exception as e:
        return [('verify-not-idempotent',
                 'verifying the verified description raised %r' % e)]
    a = again.as_dict()
    if a != post:
        diff = {k: [post.get(k), a.get(k)] for k in set(post) | set(a)
                if post.get(k) != a.get(k)}
        return [('verify-not-idempotent',
                 'second verify changed %r' % diff)]
    return []


_LAST = dict()


def c19_post_alias_values_on_replacement(OLD, result):
    _EVALS['alias'] += 1
    _LAST['alias'] = _alias_failures(OLD.pre, result.as_dict())
    return not _LAST['alias']


def c19_post_other_attributes_unchanged(OLD, result):
    _EVALS['unchanged'] += 1
    _LAST['unchanged'] = _unchanged_failures(OLD.pre, result.as_dict())
    return not _LAST['unchanged']


def c19_post_required_attributes_present(result):
    _EVALS['required'] += 1
    _LAST['required'] = _required_failures(result.as_dict())
    return not _LAST['required']


def c19_post_verify_is_idempotent(result):
    _EVALS['idempotent'] += 1
    _LAST['idempotent'] = _idempotent_failures(result.as_dict())
    return not _LAST['idempotent']


def _err_alias(OLD, result)     : return ContractBroken(_LAST['alias'])
def _err_unchanged(OLD, result) : return ContractBroken(_LAST['unchanged'])
def _err_required(result)       : return ContractBroken(_LAST['required'])
def _err_idempotent(result)     : return ContractBroken(_LAST['idempotent'])


class _Old(object):
    pass


def install_contract():
    '''wrap the real TaskDescription.verify; idempotent'''

    if _FORM['form']:
        return _FORM['form']

    def verify(self):
        return _ORIG_VERIFY(self)

    wrapped = None
    if icontract is not None:
        try:
            w = verify
            # innermost is checked last; the alias condition reports first
            w = icontract.ensure(c19_post_verify_is_idempotent,
                                 error=_err_idempotent)(w)
            w = icontract.ensure(c19_post_required_attributes_present,
                                 error=_err_required)(w)
            w = icontract.ensure(c19_post_other_attributes_unchanged,
                                 error=_err_unchanged)(w)
            w = icontract.ensure(c19_post_alias_values_on_replacement,
                                 error=_err_alias)(w)
            w = icontract.snapshot(_snap_pre, name='pre')(w)
            wrapped = w
            _FORM['form'] = 'icontract %s' % getattr(icontract, '__version__',
                                                     '?')
        except Exception as e:                        # pragma: no cover
            _FORM['note'] = 'icontract decoration failed: %r' % e
            wrapped = None

    if wrapped is None:

        def plain(self):
            old     = _Old()
            old.pre = _snap_pre(self)
            result  = _ORIG_VERIFY(self)
            if not c19_post_alias_values_on_replacement(old, result):
                raise _err_alias(old, result)
            if not c19_post_other_attributes_unchanged(old, result):
                raise _err_unchanged(old, result)
            if not c19_post_required_attributes_present(result):
                raise _err_required(result)
            if not c19_post_verify_is_idempotent(result):
                raise _err_idempotent(result)
            return result

        wrapped = plain
        _FORM['form'] = 'plain wrapper'

    TD.verify = wrapped
    return _FORM['form']


def checked_verify(td):
    '''
    run the contracted verify.  All conditions are evaluated (a failing one
    does not hide the others): returns (returned, failures, exception)
    '''
    failures = list()
    pre      = _snap_pre(td)
    try:
        td.verify()
        return True, failures, None
    except ContractBroken as e:
        failures += e.failures
    except Exception as e:
        return False, failures, e

    # a condition failed, i.e. `verify` itself returned.  The contract library
    # stops at the first failing condition: evaluate the others on the same
    # before/after pair so that one finding does not hide another.
    post = td.as_dict()
    seen = {m for m, _ in failures}
    for m, msg in (_alias_failures(pre, post, False)
                   + _unchanged_failures(pre, post)
                   + _required_failures(post) + _idempotent_failures(post)):
        if m not in seen:
            seen.add(m)
            failures.append((m, msg))
    return True, failures, None


# ------------------------------------------------------------------------------
# generators: values
#
_STRS = ['a', 'x y', "it's", 'é', '/bin/date', '$HOME/x', 'a"b',
         'task.0001', 'line1\nline2', '0', 'None', ' lead', 'trail ', 'nl\n',
         '\ttab', 'UPPER', 'True', '1.0', '[]', 'a,b', 'a=b', '~/x', '\\']


def _s(rng, empty=True):
    if empty and rng.random() < 0.1:
        return ''
    return rng.choice(_STRS)


def _val(rng, depth=0):
    '''json-native value'''
    r = rng.random()
    if depth < 2 and r < 0.15:
        return [_val(rng, depth + 1) for _ in range(rng.randint(0, 3))]
    if depth < 2 and r < 0.30:
        return {rng.choice(['k', 'z', 'n_items', 'a b', '0']):
                _val(rng, depth + 1) for _ in range(rng.randint(0, 3))}
    return rng.choice([0, 1, -1, 2, 17, 2 ** 40, 0.5, -2.0, 1e300, '', 'a',
                       'é', 'line\nbreak', None, True, False])


def _strs(rng):
    return [_s(rng) for _ in range(rng.randint(0, 3))]


def _directive(rng):
    if rng.random() < 0.5:
        return rng.choice(['input.dat', 'client:///a.txt > task:///b.txt'])
    return {'source': 'client:///%s' % _s(rng, False).replace('\n', ''),
            'target': 'task:///in.dat',
            'action': rng.choice(['Transfer', 'Copy', 'Link', 'Move']),
            'flags' : rng.choice([0, 1, 2, 3]),
            'priority': 0}


def _cmds(rng):
    out = list()
    for _ in range(rng.randint(0, 3)):
        if rng.random() < 0.25:
            out.append({str(rng.randint(0, 3)): ['export A=%d' % rng.randint(0, 9)]})
        else:
            out.append(rng.choice(['module load x', 'export B="b c"', 'true']))
    return out


def _slot_spec(rng, max_cores=6, max_gpus=3):
    n_c = rng.choice([0, 1, 1, 2, 3, 4, 6])
    n_c = min(n_c, max_cores)
    n_g = min(rng.choice([0, 0, 1, 2, 3]), max_gpus)
    return {'node_name' : rng.choice(['node0', 'n-1.cluster', 'localhost', 'a']),
            'node_index': rng.choice([0, 1, 2, 17, 4095]),
            'cores'     : sorted(rng.sample(range(0, 64), n_c)),
            'gpus'      : sorted(rng.sample(range(0, 8),  n_g)),
            'lfs'       : rng.choice([0, 0, 1, 1024]),
            'mem'       : rng.choice([0, 0, 1, 4096]),
            'occ'       : rng.choice([1.0, 1.0, 0.5, 0.25]),
            'chunk'     : rng.choice([3, 4]),
            'gmode'     : rng.choice(['rep', 'rep', 'chunk'])}


_PLAIN = {
    'uid'            : lambda r: 'task.%06d' % r.randint(0, 99),
    'name'           : _s,
    'sandbox'        : _s,
    'stdout'         : _s,
    'stderr'         : _s,
    'pilot'          : lambda r: r.choice(['', 'pilot.0000', 'pilot.0001']),
    'info_pattern'   : lambda r: r.choice(['', 'stdout:ready (.*)', 'f.txt:.*']),
    'named_env'      : lambda r: r.choice(['', 've_x', 'rp']),
    'arguments'      : _strs,
    'pre_launch'     : _strs,
    'post_launch'    : _strs,
    'services'       : _strs,
    'pre_exec'       : _cmds,
    'post_exec'      : _cmds,
    'environment'    : lambda r: {k: _s(r) for k in r.sample(
                                      ['A', 'B_C', 'PATH', 'x'], r.randint(0, 3))},
    'input_staging'  : lambda r: [_directive(r) for _ in range(r.randint(0, 2))],
    'output_staging' : lambda r: [_directive(r) for _ in range(r.randint(0, 2))],
    'stage_on_error' : lambda r: r.random() < 0.5,
    'pre_exec_sync'  : lambda r: r.random() < 0.5,
    'restartable'    : lambda r: r.random() < 0.5,
    'cleanup'        : lambda r: r.random() < 0.5,
    'priority'       : lambda r: r.choice([0, 1, -1, 10]),
    'timeout'        : lambda r: r.choice([0.0, 0.5, 10.0, 3600.0]),
    'startup_timeout': lambda r: r.choice([0.0, 1.5, 60.0]),
    'partition'      : lambda r: r.choice([None, 0, 1, 3]),
    'ranks_per_node' : lambda r: r.choice([None, 1, 2, 8]),
    'tags'           : lambda r: r.choice([{}, {'colocate': 'x'},
                                           {'colocate': 'y', 'exclusive': True}]),
    'metadata'       : lambda r: {k: _val(r) for k in r.sample(
                                      ['app', 'step', 'm n'], r.randint(0, 2))},
    'args'           : lambda r: [_val(r) for _ in range(r.randint(0, 3))],
    'kwargs'         : lambda r: {k: _val(r) for k in r.sample(
                                      ['k', 'z', 'tag'], r.randint(0, 2))},
    'code'           : lambda r: r.choice(['', '2 * 3', 'import os']),
    'command'        : lambda r: r.choice(['', 'ls -l | wc']),
    'function'       : lambda r: r.choice(['', 'my_func']),
    'executable'     : lambda r: r.choice(['', '/bin/sleep', 'a.out']),
    'slots'          : lambda r: [_new_int_slot(_slot_spec(r))
                                  for _ in range(r.randint(1, 2))],
}


def _new_int_slot(spec):
    return {'cores': list(spec['cores']), 'gpus': list(spec['gpus']),
            'lfs': spec['lfs'], 'mem': spec['mem'],
            'node_index': spec['node_index'], 'node_name': spec['node_name'],
            'version': 1}


# ------------------------------------------------------------------------------
# task descriptions
#
def gen_td(rng, allow_missing=True, allow_cast=True):

    mode  = rng.choice(MODES)
    attrs = dict()

    # other, well typed attributes
    for k, g in _PLAIN.items():
        if k in ('code', 'command', 'function', 'executable'):
            p = 0.08
        elif k == 'slots':
            p = 0.08
        else:
            p = 0.22
        if rng.random() < p:
            attrs[k] = g(rng)
    if mode in (M_FUNC, M_METH):
        attrs.pop('named_env', None)

    attrs.update(copy.deepcopy(COMPLETE[mode]))

    # aliases
    states = dict()
    for dep, cur in ALIASES:
        st = rng.choice(['none'] * 9 + ['dep'] * 4 + ['cur'] * 3 + ['same']
                        + ['diff'] * 3)
        pool = ALIAS_VALUES[cur]
        v1   = rng.choice(pool)
        v2   = rng.choice([v for v in pool if v != v1])
        if   st == 'dep' : attrs[dep] = v1; attrs.pop(cur, None)
        elif st == 'cur' : attrs[cur] = rng.choice(pool + CUR_EXTRA.get(cur, []))
        elif st == 'same': attrs[dep] = v1; attrs[cur] = v1
        elif st == 'diff': attrs[dep] = v1; attrs[cur] = v2
        else             : attrs.pop(cur, None)
        if st != 'none':
            states[dep] = st
    for k in IGNORED:
        if rng.random() < 0.1:
            attrs[k] = 2 if k == 'gpu_threads' else rng.choice(['MPI', 'CUDA'])
    if rng.random() < 0.3:
        attrs['use_mpi'] = rng.choice([True, False, None])

    case = {'kind': 'td', 'mode': mode, 'attrs': attrs, 'states': states,
            'style': rng.choice(['from_dict', 'setattr', 'setitem']),
            'missing': None, 'cast': []}

    # required attribute missing
    names = REQ.get(mode or M_EXE)
    if allow_missing and names and mode != M_AS and rng.random() < 0.25:
        how = rng.choice(['absent', 'empty', 'none'])
        for n in names:
            if   how == 'absent': attrs.pop(n, None)
            elif how == 'empty' : attrs[n] = ''
            elif n != 'method'  : attrs[n] = None
        attrs.pop('method', None)
        case['missing'] = how

    # values which need a cast
    elif allow_cast and rng.random() < 0.15:
        for a, given, tgt, exp in rng.sample(CASTS, rng.randint(1, 3)):
            if any(tgt == c[2] for c in case['cast']):
                continue
            for k in (tgt, CUR2DEP.get(tgt), a):
                attrs.pop(k, None)
                states.pop(k, None)
            attrs[a] = copy.deepcopy(given)
            case['cast'].append([a, copy.deepcopy(given), tgt,
                                 copy.deepcopy(exp)])
        if any(c[2] == 'ranks' for c in case['cast']):
            attrs.pop('use_mpi', None)

    return case


def build_td(case):
    '''real TaskDescription, every mutable attribute a fresh container'''

    attrs = copy.deepcopy(case['attrs'])
    data  = {k: t() for k, t in MUTABLE.items()}
    if case['mode'] is not None:
        data['mode'] = case['mode']
    data.update(attrs)

    style = case.get('style', 'from_dict')
    if style == 'from_dict':
        return TD(from_dict=data)
    td = TD()
    for k, v in data.items():
        if style == 'setattr': setattr(td, k, v)
        else                 : td[k] = v
    return td


def _mode_key(mode):
    return mode if mode else 'unset'


def check_roundtrip(cls, obj, res, ctx, stage):
    '''cls(obj.as_dict()).as_dict() == obj.as_dict(), also after transport'''

    name = cls.__name__
    a    = obj.as_dict()
    a0   = copy.deepcopy(a)
    ok   = True

    def via_dict(x)   : return x
    def via_msgpack(x): return rus.from_msgpack(rus.to_msgpack(x))
    def via_json(x)   : return json.loads(json.dumps(x))
    def via_ru_json(x): return rus.from_json(rus.to_json(x))

    for via in (via_dict, via_msgpack, via_json, via_ru_json):
        label = via.__name__[4:]
        try:
            wire = via(a)
            back = cls(wire)
            b    = back.as_dict()
        except Exception as e:
            res.violation('dict-roundtrip/%s/%s' % (name, label),
                          '%s (%s) from its %s dictionary raised %r'
                          % (name, stage, label, e), ctx)
            ok = False
            continue
        res.count('roundtrips_checked')
        res.see('roundtrip_cells', '%s/%s/%s' % (name, stage, label))
        if b != a0:
            diff = {k: [a0.get(k), b.get(k)] for k in set(a0) | set(b)
                    if a0.get(k) != b.get(k)}
            res.violation('dict-roundtrip/%s/%s' % (name, label),
                          '%s (%s) -> as_dict -> %s -> %s(...) differs: %r'
                          % (name, stage, label, name, diff), ctx)
            ok = False
    return ok


def run_td(case, res):

    mode = case['mode']
    ctx  = {'case': case}
    res.see('modes', _mode_key(mode))
    res.see('build_styles', case['style'])

    try:
        td = build_td(case)
    except Exception as e:
        res.violation('td-construct-raised', 'TaskDescription(...) raised %r'
                      % e, ctx)
        return

    check_roundtrip(TD, td, res, ctx, 'raw')

    # ---- values needing a cast: the real, unwrapped verify ------------------
    if case['cast']:
        try:
            r = _ORIG_VERIFY(td)
        except Exception as e:
            res.violation('verify-rejected-valid/%s' % _mode_key(mode),
                          'verify raised %r on castable values %r'
                          % (e, case['cast']), ctx)
            return
        post = (r if r is not None else td).as_dict()
        for a, given, tgt, want in case['cast']:
            res.count('cast_values_checked')
            res.see('cast_cells', '%s=%r' % (a, given))
            got = post.get(tgt)
            if got != want or type(got) is not type(want):
                mech = 'alias-value-lost/%s' % a if a in DEP2CUR else \
                       'verify-changed/%s' % a
                res.violation(mech, '%s=%r given: after verify %s=%r (%s), '
                              'expected %r' % (a, given, tgt, got,
                                               type(got).__name__, want), ctx)
        for m, msg in _idempotent_failures(post) + _required_failures(post):
            res.violation(m, msg, ctx)
        res.count('td_idempotence_checked')
        check_roundtrip(TD, td, res, ctx, 'verified')
        return

    # ---- the contracted verify ------------------------------------------------
    n0 = _EVALS['alias_values']
    returned, failures, exc = checked_verify(td)
    res.count('alias_values_checked', _EVALS['alias_values'] - n0)
    for dep, st in case['states'].items():
        res.see('alias_cells', '%s/%s' % (dep, st))
    for dep, _ in ALIASES:
        if dep not in case['states']:
            res.see('alias_cells', '%s/none' % dep)

    for m, msg in failures:
        res.violation(m, msg, ctx)

    if case['missing']:
        res.see('required_cells', '%s/%s' % (_mode_key(mode), case['missing']))
        if returned:
            if not any(m.startswith('required-not-enforced') for m, _ in failures):
                res.violation('required-not-enforced/%s' % (mode or M_EXE),
                              'verify returned although %s is %s'
                              % ('/'.join(REQ[mode or M_EXE]), case['missing']),
                              ctx)
        else:
            res.count('required_missing_raised')
        return

    if not returned:
        res.violation('verify-rejected-valid/%s' % _mode_key(mode),
                      'verify raised %r on a complete, well typed description'
                      % exc, ctx)
        return

    res.count('td_verify_returned')

    # ---- verify(verify(d)) on the same object ---------------------------------
    a1 = copy.deepcopy(td.as_dict())
    try:
        r2 = _ORIG_VERIFY(td)
        a2 = (r2 if r2 is not None else td).as_dict()
        res.count('td_idempotence_checked')
        if a2 != a1:
            diff = {k: [a1.get(k), a2.get(k)] for k in set(a1) | set(a2)
                    if a1.get(k) != a2.get(k)}
            res.violation('verify-not-idempotent',
                          'second verify on the same object changed %r' % diff,
                          ctx)
    except Exception as e:
        res.violation('verify-not-idempotent',
                      'second verify on the same object raised %r' % e, ctx)

    check_roundtrip(TD, td, res, ctx, 'verified')

    # ---- the verified dictionary, transported, rebuilt and verified again ----
    try:
        wire = rus.from_msgpack(rus.to_msgpack(a1))
        back = _ORIG_VERIFY(TD(wire))
        res.count('roundtrips_checked')
        if back.as_dict() != a1:
            b = back.as_dict()
            diff = {k: [a1.get(k), b.get(k)] for k in set(a1) | set(b)
                    if a1.get(k) != b.get(k)}
            res.violation('verify-not-idempotent',
                          'verified description re-verified after msgpack '
                          'transport changed %r' % diff, ctx)
    except Exception as e:
        res.violation('verify-not-idempotent',
                      'verified description re-verified after msgpack '
                      'transport raised %r' % e, ctx)


def td_nontrivial(case):
    return bool(case['states'] or case['missing'] or case['cast'])


# ------------------------------------------------------------------------------
# pilot descriptions
#
def gen_pd(rng):

    attrs = {'resource': rng.choice(['local.localhost', 'ornl.frontier',
                                     'anl.polaris']),
             'runtime' : rng.choice([1, 10, 60, 1440])}
    if rng.random() < 0.5:
        attrs['cores'] = rng.choice([1, 4, 128])
        if rng.random() < 0.5:
            attrs['gpus'] = rng.choice([0, 1, 8])
    else:
        attrs['nodes'] = rng.choice([1, 2, 100])
        if rng.random() < 0.3:
            attrs['backup_nodes'] = rng.choice([1, 2])

    opt = {'uid'           : lambda r: 'pilot.%04d' % r.randint(0, 9),
           'access_schema' : lambda r: r.choice(['local', 'ssh', 'interactive']),
           'queue'         : lambda r: r.choice(['debug', 'batch q']),
           'job_name'      : _s,
           'project'       : lambda r: r.choice(['ABC123', 'p-1']),
           'sandbox'       : lambda r: r.choice(['/tmp/sbox', '$HOME/rp']),
           'memory'        : lambda r: r.choice([0, 1024]),
           'cleanup'       : lambda r: r.random() < 0.5,
           'exit_on_error' : lambda r: r.random() < 0.5,
           'enable_ep'     : lambda r: r.random() < 0.5,
           'reconfig_src'  : lambda r: r.choice(['', '/tmp/reconf.py']),
           'app_comm'      : lambda r: r.sample(['ch_a', 'ch_b', 'c d'],
                                                r.randint(0, 3)),
           'input_staging' : lambda r: r.sample(['a.dat', 'b c.dat'],
                                                r.randint(0, 2)),
           'output_staging': lambda r: r.sample(['o.dat', 'p.dat'],
                                                r.randint(0, 2)),
           'prepare_env'   : lambda r: r.choice(
               [{}, {'ve_x': {'type': 'venv', 'version': '3.9',
                              'setup': ['numpy', 'radical.pilot']}}])}
    for k, g in opt.items():
        if rng.random() < 0.35:
            attrs[k] = g(rng)

    services = list()
    for _ in range(rng.choice([0, 0, 1, 2])):
        t = gen_td(rng, allow_missing=False, allow_cast=False)
        t['as'] = rng.choice(['dict', 'object'])
        services.append(t)

    return {'kind': 'pd', 'attrs': attrs, 'services': services}


def build_pd(case):
    data = {'app_comm': list(), 'input_staging': list(),
            'output_staging': list(), 'prepare_env': dict(),
            'services': list()}
    data.update(copy.deepcopy(case['attrs']))
    for t in case['services']:
        td = build_td(t)
        data['services'].append(td if t['as'] == 'object' else td.as_dict())
    return PD(from_dict=data)


def run_pd(case, res):

    ctx = {'case': case}
    try:
        pd = build_pd(case)
    except Exception as e:
        res.violation('pd-construct-raised', 'PilotDescription(...) raised %r'
                      % e, ctx)
        return

    check_roundtrip(PD, pd, res, ctx, 'raw')

    n0 = _EVALS['alias_values']
    try:
        pd.verify()
    except ContractBroken as e:
        # nested service description broke the TaskDescription contract
        res.count('alias_values_checked', _EVALS['alias_values'] - n0)
        for m, msg in e.failures:
            res.violation(m, 'service description of a pilot: %s' % msg, ctx)
        return
    except Exception as e:
        res.violation('verify-rejected-valid/PilotDescription',
                      'PilotDescription.verify raised %r' % e, ctx)
        return
    res.count('alias_values_checked', _EVALS['alias_values'] - n0)
    res.count('pd_verified')
    res.count('pd_services_verified', len(case['services']))

    a1 = copy.deepcopy(pd.as_dict())

    # nothing lost on the pilot's own attributes
    for k, v in case['attrs'].items():
        if a1.get(k) != v:
            res.violation('verify-changed/PilotDescription.%s' % k,
                          '%s: %r -> %r' % (k, v, a1.get(k)), ctx)

    try:
        TD.verify = _ORIG_VERIFY          # second pass decided by equality
        try:
            pd.verify()
        finally:
            TD.verify = _CONTRACT['wrapped']
        a2 = pd.as_dict()
        if a2 != a1:
            diff = {k: [a1.get(k), a2.get(k)] for k in set(a1) | set(a2)
                    if a1.get(k) != a2.get(k)}
            res.violation('verify-not-idempotent/PilotDescription',
                          'second verify changed %r' % diff, ctx)
    except Exception as e:
        res.violation('verify-not-idempotent/PilotDescription',
                      'second verify raised %r' % e, ctx)

    check_roundtrip(PD, pd, res, ctx, 'verified')


_CONTRACT = {'wrapped': None}


# ------------------------------------------------------------------------------
# function transport
#
# module level functions (pickled by reference)
def mf_flex(*args, **kwargs):
    return ['mf_flex', list(args), sorted(kwargs.items())]


def mf_defaults(a=1, b='b', *rest, c=None, d=4, **kw):
    return ['mf_defaults', a, b, list(rest), c, d, sorted(kw.items())]


def mf_noargs():
    return ['mf_noargs', 42]


def mf_apply(func, *args, **kwargs):
    return ['mf_apply', func(*args, **kwargs)]


async def mf_async(*args, **kwargs):
    return ['mf_async', list(args), sorted(kwargs.items())]


class CallableObj(object):

    def __init__(self, k):
        self.k = k

    def __call__(self, *args, **kwargs):
        return ['obj', self.k, list(args), sorted(kwargs.items())]

    def meth(self, *args, **kwargs):
        return ['meth', self.k, list(args), sorted(kwargs.items())]


def make_closure(c, lst):
    def inner(*args, **kwargs):
        return ['closure', c, list(lst), list(args), sorted(kwargs.items())]
    return inner


def make_closure2(c):
    def mid(x):
        return [c, x]

    def inner(*args, **kwargs):
        return ['closure2', mid(len(args)), list(args), sorted(kwargs.items())]
    return inner


def make_closure_defaults(c1, c2):
    def inner(x=c1, *rest, y=c2, **kw):
        return ['cdef', x, list(rest), y, sorted(kw.items())]
    return inner


def make_lambda(c):
    return lambda *a, **k: ['lambda', c, list(a), sorted(k.items())]


def make_wrapped(c, depth):
    '''a function under `functools.wraps` decorators which change its result
    (unit conversion, tagging, retry ...): the decorated callable is what the
    application hands over, not the function underneath'''
    def tagging(tag):
        def deco(f):
            @functools.wraps(f)
            def wrapper(*args, **kwargs):
                return ['wrapped:%s' % tag, f(*args, **kwargs)]
            return wrapper
        return deco

    def plain(*args, **kwargs):
        return ['plain', c, list(args), sorted(kwargs.items())]

    f = plain
    for i in range(depth):
        f = tagging('%s.%d' % (c, i))(f)
    return f


def make_cached(c):
    @functools.lru_cache(maxsize=None)
    def cached(*args):
        return ('cached', c, args)
    return cached


class WithStatics(object):
    K = 'cls-k'

    @staticmethod
    def smeth(*args, **kwargs):
        return ['smeth', list(args), sorted(kwargs.items())]

    @classmethod
    def cmeth(cls, *args, **kwargs):
        return ['cmeth', cls.K, list(args), sorted(kwargs.items())]


def make_lambda_defaults(c):
    return lambda x=c, y=None: ['lambda_d', c, x, y]


_EXEC_SRC = '''
K = %r
def helper(x):
    return [K, x]
def f(*args, **kwargs):
    return ['exec_main', helper(len(args)), list(args), sorted(kwargs.items())]
'''

# the same, but the function finds its helpers at call time (dispatch tables,
# `eval` of an expression, optional knobs): nothing in its code names them
_EXEC_DYN_SRC = '''
K = %r
KNOB_present = 'knob'
def op_len(x):
    return [K, x]
def f(*args, **kwargs):
    op   = globals()['op_' + 'len']
    knob = globals().get('KNOB_' + 'present', 'default')
    return ['exec_main_dyn', op(len(args)), eval('K'), knob, list(args),
            sorted(kwargs.items())]
'''

_BUILTINS = {'len'    : len,
             'sorted' : sorted,
             'divmod' : divmod,
             'max'    : max,
             'opadd'  : operator.add,
             'strjoin': ', '.join}

FLEX_KINDS = ['mf_flex', 'mf_defaults', 'closure', 'closure2', 'cdef',
              'lambda', 'obj', 'meth', 'exec_main', 'async', 'wrapped',
              'smeth', 'cmeth', 'exec_main_dyn']
FUNC_KINDS = FLEX_KINDS + ['mf_noargs', 'lambda_d', 'partial', 'partial2',
                           'partial_apply', 'builtin']
FORMS      = ['new3', 'new3list', 'new2', 'newkw', 'new1', 'decor',
              'rp.pythontask']


def build_func(spec):
    fk = spec['fk']
    if fk == 'mf_flex'    : return mf_flex
    if fk == 'mf_defaults': return mf_defaults
    if fk == 'mf_noargs'  : return mf_noargs
    if fk == 'async'      : return mf_async
    if fk == 'obj'        : return CallableObj(spec['c'])
    if fk == 'meth'       : return CallableObj(spec['c']).meth
    if fk == 'closure'    : return make_closure(spec['c'], list(spec['lst']))
    if fk == 'closure2'   : return make_closure2(spec['c'])
    if fk == 'cdef'       : return make_closure_defaults(spec['c'], spec['c2'])
    if fk == 'lambda'     : return make_lambda(spec['c'])
    if fk == 'wrapped'    : return make_wrapped(spec['c'], spec.get('depth', 1))
    if fk == 'smeth'      : return WithStatics.smeth
    if fk == 'cmeth'      : return WithStatics.cmeth
    if fk == 'cached'     : return make_cached(spec['c'])
    if fk == 'lambda_d'   : return make_lambda_defaults(spec['c'])
    if fk == 'builtin'    : return _BUILTINS[spec['name']]
    if fk == 'exec_main':
        ns = {'__name__': '__main__'}
        exec(_EXEC_SRC % (spec['c'],), ns)                   # noqa
        return ns['f']
    if fk == 'exec_main_dyn':
        ns = {'__name__': '__main__'}
        exec(_EXEC_DYN_SRC % (spec['c'],), ns)               # noqa
        return ns['f']
    if fk == 'partial':
        return functools.partial(build_func(spec['base']),
                                 *copy.deepcopy(spec['pa']),
                                 **copy.deepcopy(spec['pk']))
    if fk == 'partial2':
        inner = functools.partial(build_func(spec['base']),
                                  *copy.deepcopy(spec['pa']))
        return functools.partial(inner, **copy.deepcopy(spec['pk']))
    if fk == 'partial_apply':
        # the form of PythonTask's docstring: partial(func_A, func_AB)
        return functools.partial(mf_apply, build_func(spec['base']))
    raise ValueError(fk)


def _flex_spec(rng, kinds=None):
    fk   = rng.choice(kinds or FLEX_KINDS)
    spec = {'fk': fk}
    if fk in ('obj', 'meth', 'closure', 'closure2', 'cdef', 'lambda',
              'exec_main', 'wrapped', 'exec_main_dyn'):
        spec['c'] = rng.choice([0, 7, -1, 'c', 'c d', 2.5, None])
    if fk == 'wrapped':
        spec['depth'] = rng.choice([1, 1, 2, 3])
    if fk == 'closure':
        spec['lst'] = [rng.randint(0, 9) for _ in range(rng.randint(0, 3))]
    if fk == 'cdef':
        spec['c2'] = rng.choice([1, 'y', None])
    return spec


_KW_POOL = ['k', 'z', 'tag', 'n_items']


def gen_func(rng):

    fk = rng.choice(FUNC_KINDS)
    max_pos, kw_pool = None, list(_KW_POOL)

    if fk in FLEX_KINDS:
        spec = _flex_spec(rng, [fk])
        if fk == 'mf_defaults': kw_pool += ['c', 'd']
        if fk == 'cdef'       : kw_pool += ['y']
    elif fk == 'mf_noargs':
        spec, max_pos, kw_pool = {'fk': fk}, 0, []
    elif fk == 'lambda_d':
        spec    = {'fk': fk, 'c': rng.choice([0, 7, 'c'])}
        max_pos = rng.choice([0, 1, 2])
        kw_pool = []
    elif fk in ('partial', 'partial2'):
        base = _flex_spec(rng, [k for k in FLEX_KINDS if k != 'async'])
        spec = {'fk': fk, 'base': base,
                'pa': [_val(rng) for _ in range(rng.randint(0, 2))],
                'pk': {k: _val(rng) for k in rng.sample(['pk1', 'pk2'],
                                                        rng.randint(0, 2))}}
    elif fk == 'partial_apply':
        base = _flex_spec(rng, [k for k in FLEX_KINDS if k != 'async'])
        spec = {'fk': fk, 'base': base}
    else:
        name = rng.choice(sorted(_BUILTINS))
        spec = {'fk': fk, 'name': name}

    form = rng.choice(FORMS)

    if fk == 'builtin':
        ints = [rng.randint(-9, 9) for _ in range(rng.randint(1, 4))]
        name = spec['name']
        kw   = dict()
        if   name == 'len'    : args = [ints]
        elif name == 'sorted' :
            args = [ints]
            if rng.random() < 0.5: kw = {'reverse': rng.random() < 0.5}
        elif name == 'divmod' : args = [rng.randint(-99, 99), rng.randint(1, 9)]
        elif name == 'max'    : args = ints + [0]
        elif name == 'opadd'  : args = [rng.randint(0, 9), rng.randint(0, 9)]
        else                  : args = [[_s(rng) for _ in range(rng.randint(0, 3))]]
        form = rng.choice(['new3', 'new3list', 'decor', 'rp.pythontask'] +
                          ([] if kw else ['new2']))
        return {'kind': 'func', 'func': spec, 'form': form, 'args': args,
                'kwargs': kw}

    n_pos = rng.choice([0, 0, 1, 2, 3])
    if max_pos is not None:
        n_pos = min(n_pos, max_pos)
    n_kw  = rng.choice([0, 0, 1, 2])
    if form in ('new1', 'newkw'): n_pos = 0
    if form in ('new1', 'new2') : n_kw  = 0
    args   = [_val(rng) for _ in range(n_pos)]
    kwargs = {k: _val(rng) for k in rng.sample(kw_pool,
                                               min(n_kw, len(kw_pool)))}

    return {'kind': 'func', 'func': spec, 'form': form, 'args': args,
            'kwargs': kwargs}


def encode(case, f):
    '''the real encoders, in the call form of the case'''
    form   = case['form']
    args   = copy.deepcopy(case['args'])
    kwargs = copy.deepcopy(case['kwargs'])
    PT     = m_pytask.PythonTask
    if form == 'new3'         : return PT(f, tuple(args), kwargs)
    if form == 'new3list'     : return PT(f, args, kwargs)
    if form == 'new2'         : return PT(f, tuple(args))
    if form == 'newkw'        : return PT(f, kwargs=kwargs)
    if form == 'new1'         : return PT(f)
    if form == 'decor'        : return PT.pythontask(f)(*args, **kwargs)
    if form == 'rp.pythontask': return rp.pythontask(f)(*args, **kwargs)
    raise ValueError(form)


_LOOP = {'loop': None, 'worker': None}


def _loop():
    if _LOOP['loop'] is None:
        _LOOP['loop'] = asyncio.new_event_loop()
    return _LOOP['loop']


def _close_loop():
    if _LOOP['loop'] is not None:
        try:
            _LOOP['loop'].close()
        except Exception:
            pass
        _LOOP['loop'] = None


def _call(func, args, kwargs):
    '''the call statement of Worker._dispatch_func'''
    if asyncio.iscoroutinefunction(func):
        return _loop().run_until_complete(func(*args, **kwargs))
    return func(*args, **kwargs)


def _worker():
    if _LOOP['worker'] is None and m_worker is not None:
        w = m_worker.Worker.__new__(m_worker.Worker)
        w._log  = NullLog()
        w._prof = NullProf()
        w._uid  = 'worker.0000'
        _LOOP['worker'] = w
    return _LOOP['worker']


def decode_direct(enc):
    '''get_func_attr + the worker's call; returns dict'''
    out = {'kwargs_none': False}
    try:
        func, args, kwargs = m_pytask.PythonTask.get_func_attr(enc)
    except Exception as e:
        out['decode_error'] = repr(e)
        return out
    out['kwargs_none'] = kwargs is None
    out['callable']    = callable(func)
    try:
        out['value'] = _call(func, args, kwargs)
    except Exception as e:
        out['call_error'] = repr(e)
    return out


def decode_dispatch(enc):
    '''description -> verify -> msgpack -> real Worker._dispatch_func'''
    out = {}
    w   = _worker()
    td  = TD(from_dict={'mode': M_FUNC, 'function': enc, 'uid': 'task.f',
                        'args': list(), 'kwargs': dict(),
                        'environment': dict()})
    _ORIG_VERIFY(td)
    descr = rus.from_msgpack(rus.to_msgpack(td.as_dict()))
    out['function_intact'] = descr.get('function') == enc
    task  = {'uid': 'task.f', 'description': descr}
    env, so, se = os.environ, sys.stdout, sys.stderr
    try:
        r = _loop().run_until_complete(w._dispatch_func(task))
        out['out'], out['err'], out['ret'], out['value'], out['exc'] = r
    except Exception as e:
        out['dispatch_error'] = repr(e)
    finally:
        os.environ = env
        sys.stdout, sys.stderr = so, se
    return out


# ------------------------------------------------------------------------------
# wrapper sequences: ONE `pythontask` wrapper used for several submissions (the
# documented use: decorate once, call per task) while the state the function
# captures changes between the encodings.  Every payload must decode to a call
# which gives what f gave when the payload was made.
#
class Accum(object):

    def __init__(self, k):
        self.k     = k
        self.items = list()

    def total(self, x=0, **kw):
        return ['total', self.k, list(self.items), x, sorted(kw.items())]


def make_counter_closure(start):
    cell = {'n': start, 'log': list()}

    def bump(v):
        cell['n'] += v
        cell['log'].append(v)

    def f(x=0, **kw):
        return ['counter', cell['n'], list(cell['log']), x, sorted(kw.items())]
    return f, bump


def make_nonlocal_closure(start):
    n = start

    def bump(v):
        nonlocal n
        n = n + v

    def f(x=0, **kw):
        return ['nonlocal', n, x, sorted(kw.items())]
    return f, bump


SEQ_KINDS = ['method', 'counter', 'nonlocal', 'stateless']


def gen_funcseq(rng):
    steps = list()
    for _ in range(rng.randint(2, 5)):
        steps.append({'bump': rng.choice([0, 0, 1, 2, 5]),
                      'x'   : rng.choice([0, 1, 'a', None, 2.5]),
                      'kw'  : {k: rng.randint(0, 9)
                               for k in rng.sample(_KW_POOL, rng.randint(0, 2))}})
    return {'kind': 'funcseq', 'sk': rng.choice(SEQ_KINDS),
            'start': rng.randint(0, 5), 'steps': steps,
            'form': rng.choice(['decor', 'rp.pythontask']),
            'decode': rng.choice(['each', 'end', 'end'])}


def funcseq_nontrivial(case):
    return case['sk'] != 'stateless' and \
           any(st['bump'] for st in case['steps'][1:])


def run_funcseq(case, res):

    ctx = {'case': case}
    sk  = case['sk']
    if sk == 'method':
        obj  = Accum(case['start'])
        f    = obj.total
        def bump(v):
            obj.k += v
            obj.items.append(v)
    elif sk == 'counter':
        f, bump = make_counter_closure(case['start'])
    elif sk == 'nonlocal':
        f, bump = make_nonlocal_closure(case['start'])
    else:
        f, bump = mf_flex, lambda v: None

    deco = m_pytask.PythonTask.pythontask if case['form'] == 'decor' \
           else rp.pythontask
    try:
        wrapper = deco(f)                      # once, as `@rp.pythontask` does
    except Exception as e:
        res.violation('func-encode-raised', 'pythontask(f) raised %r' % e, ctx)
        return

    res.see('funcseq_kinds', sk)
    pending = list()
    for i, st in enumerate(case['steps']):
        if st['bump']:
            bump(st['bump'])
        args = [] if sk == 'stateless' and st['x'] is None else [st['x']]
        exp  = f(*copy.deepcopy(args), **copy.deepcopy(st['kw']))
        try:
            enc = wrapper(*copy.deepcopy(args), **copy.deepcopy(st['kw']))
        except Exception as e:
            res.violation('func-encode-raised', 'encoding step %d raised %r'
                          % (i, e), ctx)
            return
        pending.append((i, enc, exp))
        if case['decode'] == 'each':
            _judge_seq(res, ctx, pending.pop())
    for item in pending:
        _judge_seq(res, ctx, item)


def _judge_seq(res, ctx, item):
    i, enc, exp = item
    d = decode_direct(enc)
    res.count('funcseq_payloads_checked')
    if d.get('decode_error') or d.get('call_error'):
        res.violation('func-call-failed', 'payload %d of one wrapper: %s'
                      % (i, d.get('decode_error') or d.get('call_error')),
                      dict(ctx, step=i))
    elif not _same(d.get('value'), exp):
        res.violation('func-result-differs/wrapper-reused',
                      'payload %d made by one pythontask wrapper decodes to a '
                      'call giving %r; f gave %r when the payload was made'
                      % (i, d.get('value'), exp), dict(ctx, step=i))


def _clean(text):
    '''no memory addresses in messages (they go into replay file names)'''
    return re.sub(r'0x[0-9a-fA-F]+', '0x..', str(text))


def _same(a, b):
    try:
        return a == b and repr(a) == repr(b)
    except Exception:
        return False


def run_func(case, res, child_batch=None, fdir=None):

    ctx = {'case': case}
    res.see('func_kinds', case['func']['fk'])
    res.see('func_forms', case['form'])

    try:
        f   = build_func(case['func'])
        exp = _call(f, copy.deepcopy(case['args']),
                    copy.deepcopy(case['kwargs']))
    except Exception as e:
        res.inconc('generator produced a %s call which fails by itself: %s'
                   % (case['func']['fk'], type(e).__name__))
        return

    try:
        enc = encode(case, f)
    except Exception as e:
        res.violation('func-encode-raised', 'encoding (%s) raised %r'
                      % (case['form'], e), ctx)
        return
    if not isinstance(enc, str):
        res.violation('func-encoded-not-str', 'encoded payload is %s'
                      % type(enc).__name__, ctx)
        return

    def judge(route, d):
        c = dict(ctx, route=route, expected=jsonable(exp),
                 observed=json.loads(_clean(json.dumps(jsonable(d)))))
        d = {k: (_clean(v) if isinstance(v, str) else v) for k, v in d.items()}
        if d.get('exc'):
            d['exc'] = [_clean(d['exc'][0]), None]
        if d.get('decode_error'):
            res.violation('func-decode-raised', '%s: get_func_attr raised %s'
                          % (route, d['decode_error']), c)
        elif d.get('kwargs_none'):
            res.violation('pytask-kwargs-none',
                          '%s: %s encodes kwargs=None; the worker\'s '
                          'to_call(*args, **kwargs) gives %s instead of %r'
                          % (route, _form_text(case['form']),
                             d.get('call_error') or d.get('exc', [None])[0]
                             or repr(d.get('value')), exp), c)
        elif d.get('dispatch_error'):
            res.violation('func-dispatch-raised', '%s: _dispatch_func raised '
                          '%s' % (route, d['dispatch_error']), c)
        elif d.get('call_error') or d.get('ret', 0) != 0:
            res.violation('func-call-failed', '%s: decoded call failed: %s'
                          % (route, d.get('call_error') or d.get('exc')), c)
        elif d.get('function_intact') is False:
            res.violation('func-payload-changed', '%s: description.function '
                          'differs from the encoded payload' % route, c)
        elif not _same(d.get('value'), exp):
            res.violation('func-result-differs', '%s: decoded call gave %r, '
                          'f(*a, **k) gave %r' % (route, d.get('value'), exp),
                          c)

    d = decode_direct(enc)
    res.count('func_direct_calls')
    if d.get('callable') is False:
        res.violation('func-decoded-not-callable', 'get_func_attr returned a '
                      'non-callable', ctx)
    judge('direct', d)

    # the same payload decoded again (a worker runs a request per rank, a
    # master resubmits): what an earlier decode's call left in ITS arguments
    # must not show in a later decode
    if not d.get('decode_error') and not d.get('kwargs_none'):
        try:
            f1, a1, k1 = m_pytask.PythonTask.get_func_attr(enc)
            before = copy.deepcopy([a1, k1])
            if isinstance(a1, list):
                for x in a1:
                    if isinstance(x, list):   x.append('left-by-first-run')
                    elif isinstance(x, dict): x['left-by-first-run'] = 1
                    elif isinstance(x, set):  x.add('left-by-first-run')
                a1.append('left-by-first-run')
            if isinstance(k1, dict):
                for x in k1.values():
                    if isinstance(x, list):   x.append('left-by-first-run')
                    elif isinstance(x, dict): x['left-by-first-run'] = 1
                k1['comm'] = 'COMM-of-first-run'
            f2, a2, k2 = m_pytask.PythonTask.get_func_attr(enc)
            res.count('func_repeated_decodes')
            if not _same([a2, k2], before):
                res.violation('func-decode-depends-on-earlier-decode',
                              'second decode of the same payload gave '
                              'arguments %r, the first gave %r (the first '
                              'decode\'s objects were changed in between)'
                              % ([a2, k2], before), ctx)
            else:
                judge('second decode', {'value': _call(f2, a2, k2)})
        except Exception as e:
            res.violation('func-decode-raised', 'repeated decode raised %s'
                          % _clean(repr(e)), ctx)

    # the serializer functions underneath, on the same callable and arguments
    ser  = m_ser
    data = [copy.deepcopy(case['args']), copy.deepcopy(case['kwargs'])]
    try:
        g  = ser.deserialize_obj(ser.serialize_obj(f))
        judge('serialize_obj', {'value': _call(g, copy.deepcopy(data[0]),
                                               copy.deepcopy(data[1]))})
        d2 = ser.deserialize_obj(ser.serialize_obj(data))
        d3 = ser.deserialize_bson(ser.serialize_bson(data))
        res.count('serializer_roundtrips', 3)
        if not _same(d2, data) or not _same(d3, data):
            res.violation('serializer-roundtrip/data', 'arguments %r came '
                          'back as %r (obj) / %r (bson)' % (data, d2, d3), ctx)
        if fdir and len(enc) % 8 == 0:
            path = os.path.join(fdir, 'c19_obj.pkl')
            ser.serialize_file(f, fname=path)
            g = ser.deserialize_file(path)
            res.count('serializer_roundtrips')
            res.count('serializer_file_roundtrips')
            judge('serialize_file', {'value': _call(
                       g, copy.deepcopy(data[0]), copy.deepcopy(data[1]))})
    except Exception as e:
        res.violation('serializer-roundtrip/raised', 'serializer round trip '
                      'raised %s' % _clean(repr(e)), ctx)

    if _worker() is not None:
        d2 = decode_dispatch(enc)
        # classification needs to know what the decoder handed over
        d2['kwargs_none'] = d.get('kwargs_none', False)
        res.count('func_worker_dispatches')
        judge('worker', d2)

    if child_batch is not None:
        child_batch.append({'case': case, 'enc': enc, 'exp': repr(exp)})


def _form_text(form):
    return {'new1': 'PythonTask(f)', 'new2': 'PythonTask(f, args)',
            'newkw': 'PythonTask(f, kwargs=k)'}.get(form, form)


def func_nontrivial(case):
    return bool(case['args'] or case['kwargs'] or
                case['form'] in ('new1', 'new2', 'newkw'))


# -- decoding in a fresh interpreter ---------------------------------------------
def _child_main(path_in, path_out):
    '''runs in the child: decode and call, report repr of the values'''
    with open(path_in) as fin:
        batch = json.load(fin)
    out = list()
    for item in batch:
        d  = decode_direct(item['enc'])
        r  = {'kwargs_none': d.get('kwargs_none', False),
              'error': d.get('decode_error') or d.get('call_error')}
        if 'value' in d:
            r['repr'] = repr(d['value'])
        if _worker() is not None:
            d2 = decode_dispatch(item['enc'])
            r['w_error'] = d2.get('dispatch_error') or \
                           (d2.get('exc') or [None])[0]
            r['w_ret']   = d2.get('ret')
            if d2.get('ret') == 0:
                r['w_repr'] = repr(d2.get('value'))
        out.append(r)
    with open(path_out, 'w') as fout:
        json.dump(out, fout)
    _close_loop()


def run_child_batch(batch, res, ctx):

    if not batch:
        return
    p_in  = os.path.join(ctx.workdir or '.', 'c19_child_in.json')
    p_out = os.path.join(ctx.workdir or '.', 'c19_child_out.json')
    with open(p_in, 'w') as fout:
        json.dump([{'enc': b['enc']} for b in batch], fout)
    code = ('from rpverif.props.c19 import _child_main; '
            '_child_main(%r, %r)' % (p_in, p_out))
    try:
        p = subprocess.run(['/venv/bin/python', '-c', code], env=_boot.env(),
                           cwd=ctx.workdir or '.', timeout=120,
                           stdout=subprocess.PIPE, stderr=subprocess.PIPE)
    except subprocess.TimeoutExpired:
        res.inconc('fresh-interpreter decode: watchdog (120s) fired')
        return
    if p.returncode != 0 or not os.path.isfile(p_out):
        res.inconc('fresh-interpreter decode died rc=%s: %s'
                   % (p.returncode, p.stderr.decode(errors='replace')[-300:]))
        return
    with open(p_out) as fin:
        got = json.load(fin)

    for b, g in zip(batch, got):
        res.count('func_child_decodes')
        c = {'case': b['case'], 'route': 'fresh-interpreter', 'observed': g,
             'expected': b['exp']}
        if g['kwargs_none']:
            res.violation('pytask-kwargs-none',
                          'fresh interpreter: %s encodes kwargs=None; the '
                          'worker call gives %s instead of %s'
                          % (_form_text(b['case']['form']),
                             g.get('error') or g.get('w_error'), b['exp']), c)
        elif g.get('error'):
            res.violation('func-call-failed', 'fresh interpreter: %s'
                          % g['error'], c)
        elif g.get('repr') != b['exp']:
            res.violation('func-result-differs', 'fresh interpreter: decoded '
                          'call gave %s, f(*a, **k) gave %s'
                          % (g.get('repr'), b['exp']), c)
        elif 'w_ret' in g and (g['w_ret'] != 0 or g.get('w_repr') != b['exp']):
            res.violation('func-call-failed' if g['w_ret'] else
                          'func-result-differs',
                          'fresh interpreter, Worker._dispatch_func: ret=%s '
                          'value %s error %s, expected %s'
                          % (g['w_ret'], g.get('w_repr'), g.get('w_error'),
                             b['exp']), c)


# ------------------------------------------------------------------------------
# slots
#
NEW_FORMS = ['Slot', 'Slot.as_dict', 'v1-int']
OLD_FORMS = ['int', 'rodict', 'RO', 'pair-tuple', 'pair-list', 'lol1', 'lolN']
CTOR_FORMS = ['ctor-int', 'ctor-rodict', 'ctor-RO', 'ctor-kw-int',
              'ctor-kw-RO',
              # cores and gpus in different (legal) notations
              'ctor-mix-int-rodict', 'ctor-mix-RO-int', 'ctor-mix-rodict-RO',
              'ctor-mix-int-RO']


def _idx(seq):
    '''
    index list of a cores/gpus value in any of the documented element forms
    (reference reader, independent of the conversion code)
    '''
    out = list()
    for x in (seq or []):
        if isinstance(x, bool):
            raise TypeError('bool in index list')
        if isinstance(x, int):
            out.append(x)
        elif isinstance(x, dict):                      # RO is a dict subclass
            out.append(x['index'])
        elif isinstance(x, (list, tuple)):
            if len(x) == 2 and isinstance(x[1], float):
                out.append(x[0])                       # (index, occupation)
            else:
                out.extend(_idx(x))                    # list of indices
        else:
            raise TypeError('unknown element %r' % (x,))
    return out


def _chunks(lst, n):
    return [lst[i:i + n] for i in range(0, len(lst), n)]


def build_slot(spec, form):
    '''returns (slot object, expected cores, expected gpus)'''

    RO, Slot = m_rc.RO, m_rc.Slot
    occ   = spec['occ']
    cores = list(spec['cores'])
    gpus  = list(spec['gpus'])
    exp_c, exp_g = list(cores), list(gpus)
    base  = {'lfs': spec['lfs'], 'mem': spec['mem'],
             'node_index': spec['node_index'], 'node_name': spec['node_name']}

    def ros(ix): return [RO(index=i, occupation=occ) for i in ix]
    def rds(ix): return [{'index': i, 'occupation': occ} for i in ix]

    if form in ('Slot', 'ctor-kw-RO'):
        s = Slot(cores=ros(cores), gpus=ros(gpus), **base)
    elif form == 'Slot.as_dict':
        s = Slot(cores=ros(cores), gpus=ros(gpus), **base).as_dict()
    elif form == 'v1-int':
        s = dict(base, cores=cores, gpus=gpus, version=1)
    elif form == 'int':
        s = dict(base, cores=cores, gpus=gpus)
    elif form == 'rodict':
        s = dict(base, cores=rds(cores), gpus=rds(gpus))
    elif form == 'RO':
        s = dict(base, cores=ros(cores), gpus=ros(gpus))
    elif form == 'pair-tuple':
        s = dict(base, cores=[(i, occ) for i in cores],
                       gpus =[(i, occ) for i in gpus])
    elif form == 'pair-list':
        s = dict(base, cores=[[i, occ] for i in cores],
                       gpus =[[i, occ] for i in gpus])
    elif form == 'lol1':
        # what convert_slots_to_old writes
        s = dict(base, cores=[[i] for i in cores], gpus=[[i] for i in gpus])
    elif form == 'lolN':
        # what ContinuousJsrun._find_resources writes: one core list per rank,
        # the gpu list repeated per rank
        n     = spec['chunk']
        cores = cores[:len(cores) - len(cores) % n] if len(cores) >= n else []
        cmap  = _chunks(cores, n)
        if spec['gmode'] == 'rep' and len(gpus) != 2:
            gmap = [list(gpus) for _ in cmap] if cmap else \
                   ([list(gpus)] if gpus else [])
        else:
            gmap = [[g] for g in gpus]
        s = dict(base, cores=cmap, gpus=gmap)
        exp_c = [i for c in cmap for i in c]
        exp_g = [i for g in gmap for i in g]
    elif form == 'ctor-int':
        s = Slot(dict(base, cores=cores, gpus=gpus))
    elif form == 'ctor-rodict':
        s = Slot(dict(base, cores=rds(cores), gpus=rds(gpus)))
    elif form == 'ctor-RO':
        s = Slot(from_dict=dict(base, cores=ros(cores), gpus=ros(gpus)))
    elif form == 'ctor-kw-int':
        s = Slot(cores=cores, gpus=gpus, **base)
    elif form == 'ctor-mix-int-rodict':
        s = Slot(dict(base, cores=cores, gpus=rds(gpus)))
    elif form == 'ctor-mix-RO-int':
        s = Slot(cores=ros(cores), gpus=gpus, **base)
    elif form == 'ctor-mix-rodict-RO':
        s = Slot(dict(base, cores=rds(cores), gpus=ros(gpus)))
    elif form == 'ctor-mix-int-RO':
        s = Slot(from_dict=dict(base, cores=cores, gpus=ros(gpus)))
    else:
        raise ValueError(form)

    return s, exp_c, exp_g


def gen_slots(rng):
    route = rng.choice(['new-old-new', 'old-new-old', 'old-new-old', 'ctor',
                        'passthrough'])
    if   route == 'new-old-new': form = rng.choice(NEW_FORMS)
    elif route == 'old-new-old': form = rng.choice(OLD_FORMS)
    elif route == 'ctor'       : form = rng.choice(CTOR_FORMS)
    else                       : form = rng.choice(NEW_FORMS + OLD_FORMS +
                                                   ['empty', 'none'])
    n = rng.choice([1, 1, 2, 3])
    return {'kind': 'slots', 'route': route, 'form': form,
            'slots': [_slot_spec(rng) for _ in range(n)]}


def _is_index_lists(slots):
    '''cores or gpus given as list of index lists (not pairs)?'''
    try:
        for s in slots:
            for k in ('cores', 'gpus'):
                v = s[k]
                if v and isinstance(v[0], (list, tuple)) and \
                   not (len(v[0]) == 2 and isinstance(v[0][1], float)):
                    return True
    except Exception:
        pass
    return False


def _fields(s):
    return {'node_name': s['node_name'], 'node_index': s['node_index'],
            'cores': _idx(s['cores']), 'gpus': _idx(s['gpus']),
            'lfs': s['lfs'], 'mem': s['mem']}


def _compare(step, got, want, res, ctx, prefix='slots-not-preserved'):
    '''want: list of field dicts; got: list of slot objects'''
    res.count('slot_steps_checked')
    if got is None or len(got) != len(want):
        res.violation('%s/count' % prefix, '%s: %s slots out, %d in'
                      % (step, 'no' if got is None else len(got), len(want)),
                      dict(ctx, step=step))
        return False
    ok = True
    for i, (g, w) in enumerate(zip(got, want)):
        try:
            f = _fields(g)
        except Exception as e:
            res.violation('%s/unreadable' % prefix,
                          '%s: slot %d of the result is unreadable (%r): %r'
                          % (step, i, e, g), dict(ctx, step=step))
            ok = False
            continue
        for k in ('node_name', 'node_index', 'cores', 'gpus', 'lfs', 'mem'):
            if f[k] != w[k]:
                res.violation('%s/%s' % (prefix, k),
                              '%s: slot %d %s %r -> %r'
                              % (step, i, k, w[k], f[k]),
                              dict(ctx, step=step))
                ok = False
    return ok


def _convert(which, slots, res, ctx, step):
    fn = getattr(m_misc, 'convert_slots_to_%s' % which)
    try:
        return True, fn(slots)
    except Exception as e:
        if which == 'new' and _is_index_lists(slots):
            res.violation('slots-to-new-rejects-index-lists',
                          '%s: convert_slots_to_new cannot read cores/gpus '
                          'given as lists of index lists (the form '
                          'convert_slots_to_old writes): %r on %r'
                          % (step, e, jsonable(slots)), dict(ctx, step=step))
        else:
            res.violation('slots-convert-raised/to_%s' % which,
                          '%s: convert_slots_to_%s raised %r on %r'
                          % (step, which, e, jsonable(slots)),
                          dict(ctx, step=step))
        return False, None


def run_slots(case, res):

    ctx   = {'case': case}
    route = case['route']
    form  = case['form']
    res.see('slot_routes', route)

    if form in ('empty', 'none'):
        inp = list() if form == 'empty' else None
        for which in ('new', 'old'):
            ok, out = _convert(which, inp, res, ctx, 'to_%s(%s)' % (which, form))
            if ok:
                res.count('slot_steps_checked')
                if out != inp:
                    res.violation('slots-not-preserved/count',
                                  'to_%s(%r) -> %r' % (which, inp, out), ctx)
        return

    res.see('slot_forms', form)
    try:
        built = [build_slot(s, form) for s in case['slots']]
    except Exception as e:
        if route == 'ctor':
            res.violation('slot-ctor-raised', 'Slot(...) (%s) raised %r'
                          % (form, e), ctx)
        else:
            res.inconc('slot generator failed: %r' % e)
        return

    slots = [b[0] for b in built]
    want  = [{'node_name': s['node_name'], 'node_index': s['node_index'],
              'cores': b[1], 'gpus': b[2], 'lfs': s['lfs'], 'mem': s['mem']}
             for s, b in zip(case['slots'], built)]

    if route == 'ctor':
        res.count('slot_ctor_checked')
        _compare('Slot(%s)' % form, slots, want, res, ctx,
                 'slot-ctor-not-preserved')
        for s in slots:
            a = s.as_dict()
            for label, wire in (('dict', a),
                                ('msgpack', rus.from_msgpack(rus.to_msgpack(a)))):
                try:
                    b = m_rc.Slot(copy.deepcopy(wire))
                    b.verify()
                    if b.as_dict() != a:
                        res.violation('dict-roundtrip/Slot/%s' % label,
                                      'Slot(as_dict) differs: %r -> %r'
                                      % (a, b.as_dict()), ctx)
                except Exception as e:
                    res.violation('dict-roundtrip/Slot/%s' % label,
                                  'Slot(as_dict) raised %r on %r' % (e, a), ctx)
                res.count('roundtrips_checked')
        return

    if route == 'passthrough':
        # a list already in the target format must come back unchanged
        which = 'new' if form in NEW_FORMS else 'old'
        ok, out = _convert(which, slots, res, ctx, 'to_%s(%s)' % (which, form))
        if ok:
            _compare('to_%s(%s)' % (which, form), out, want, res, ctx)
        return

    first, second = ('old', 'new') if route == 'new-old-new' else ('new', 'old')

    ok, mid = _convert(first, slots, res, ctx, 'to_%s(%s)' % (first, form))
    if not ok:
        return
    if not _compare('to_%s(%s)' % (first, form), mid, want, res, ctx):
        return
    ok, end = _convert(second, mid, res, ctx,
                       'to_%s(to_%s(%s))' % (second, first, form))
    if not ok:
        return
    if not _compare('to_%s(to_%s(%s))' % (second, first, form), end, want,
                    res, ctx):
        return

    # and once more: the result is in the format we started from
    ok, again = _convert(first, end, res, ctx,
                         'to_%s(to_%s(to_%s(%s)))' % (first, second, first,
                                                      form))
    if ok:
        _compare('to_%s(to_%s(to_%s(%s)))' % (first, second, first, form),
                 again, want, res, ctx)


def slots_nontrivial(case):
    return case['form'] not in ('empty', 'none') and \
           any(s['cores'] or s['gpus'] for s in case['slots'])


# ------------------------------------------------------------------------------
#
def _setup(res):
    form = install_contract()
    _CONTRACT['wrapped'] = TD.verify
    res.see('contract_form', form)
    if not form.startswith('icontract'):
        res.note('icontract not usable (%s): same conditions run in a plain '
                 'wrapper' % _FORM.get('note', 'import failed'))
    if m_worker is None:
        res.note('radical.pilot.raptor.worker not importable (%s): decoded '
                 'payloads are only called directly' % _WORKER_ERR)


# ------------------------------------------------------------------------------
# one long-lived description: verified, edited in place, verified again
#
def gen_tdseq(rng):
    edits = list()
    for _ in range(rng.randint(1, 3)):
        edits.append(rng.choice([
            ['append_arg', rng.choice([42, 'x y', 3.5])],
            ['set_env', rng.choice(['K', 'OMP']), rng.choice([4, 'v', 2.5])],
            ['set_tag', 'colocate', rng.choice([0, 't'])],
            ['append_pre', rng.choice(['true', 'echo a'])],
            ['clear'],
            ['assign', 'cores_per_rank', rng.choice([2, '4'])]]))
    return {'kind': 'tdseq', 'edits': edits,
            'ranks': rng.choice([1, 2]),
            'args': rng.choice([[], ['a'], ['a', 'b']])}


def _apply_edit(td, e):
    if   e[0] == 'append_arg': td.arguments.append(e[1])
    elif e[0] == 'set_env'   : td.environment[e[1]] = e[2]
    elif e[0] == 'set_tag'   : td.tags[e[1]] = e[2]
    elif e[0] == 'append_pre': td.pre_exec.append(e[1])
    elif e[0] == 'clear'     : td.clear()
    elif e[0] == 'assign'    : td[e[1]] = e[2]


def run_tdseq(case, res):
    from ..harness import make_td
    ctx = {'case': case}

    def fresh():
        return make_td(uid='t.seq', ranks=case['ranks'],
                       arguments=list(case['args']))

    def outcome(td):
        try:
            r = _ORIG_VERIFY(td)
            return ('ok', (r if r is not None else td).as_dict())
        except Exception as e:
            return ('raised', type(e).__name__)

    # the long-lived one: verify, edit in place, verify
    lived = fresh()
    first = outcome(lived)
    if first[0] != 'ok':
        res.inconc('tdseq: plain description does not verify: %s' % (first,))
        return
    for e in case['edits']:
        try:
            _apply_edit(lived, e)
        except Exception:
            pass                  # e.g. an edit of a container after clear()
    got = outcome(lived)

    # the reference: a fresh description with the same edits, verified once
    ref = fresh()
    for e in case['edits']:
        try:
            _apply_edit(ref, e)
        except Exception:
            pass
    want = outcome(ref)

    # defaults which verify *derives* from other attributes the first time
    # (use_mpi from ranks) are not part of the comparison: only what verify
    # guarantees about the values given (schema casts, required attributes)
    for o in (got, want):
        if o[0] == 'ok':
            o[1].pop('use_mpi', None)
    res.count('td_sequences_checked')
    if got != want:
        what = 'outcome'
        if got[0] == want[0] == 'ok':
            what = sorted(k for k in set(got[1]) | set(want[1])
                          if got[1].get(k) != want[1].get(k))
        res.violation('verify-depends-on-history',
                      'a description verified before its last in-place edits '
                      'verifies differently from a fresh one with the same '
                      'content: %s (again: %s, fresh: %s)'
                      % (what, str(got)[:300], str(want)[:300]), ctx)


def _flush_evals(res, base):
    n = 0
    for k in ('alias', 'unchanged', 'required', 'idempotent'):
        d = _EVALS[k] - base[k]
        res.count('contract_evals/%s' % k, d)
        n += d
    res.count('contract_evals', n)


# ------------------------------------------------------------------------------
# several application threads build function tasks at the same time (each
# submitter thread of an application does): every payload decodes to the call
# its own thread made
#
def _mark(tag, x, y=0, scale=1):
    return '%s:%s' % (tag, (x + y) * scale)


def encode_threads(res, rng, idx):
    import time
    import inspect
    import threading as mt
    from ..popsim import Perturb

    seed = rng.randint(0, 2 ** 30)
    # every function of the module (the encoder may be split over helpers)
    funcs = [f for _, f in inspect.getmembers(m_pytask, inspect.isfunction)
             if getattr(f, '__module__', '') == m_pytask.__name__]
    for _, f in inspect.getmembers(m_pytask.PythonTask):
        f = getattr(f, '__func__', f)
        if inspect.isfunction(f):
            funcs.append(f)
    pert = Perturb(seed, 0.3, funcs=funcs)
    old  = sys.getswitchinterval()
    sys.setswitchinterval(1e-5)
    wrapped = m_pytask.PythonTask.pythontask(_mark)
    results, errs = dict(), list()

    def submitter(k):
        import random
        r = random.Random(seed + k)
        try:
            for j in range(r.randint(2, 5)):
                tag  = 'th%d.%d' % (k, j)
                x, y = r.randint(1, 10 ** 6), r.choice([0, 1, 5])
                if r.random() < 0.5:
                    enc = m_pytask.PythonTask(_mark, (tag, x), {'y': y})
                else:
                    enc = wrapped(tag, x, y=y, scale=2)
                    x, y = x * 2, y * 2     # (x + y) * 2
                results[tag] = (enc, '%s:%s' % (tag, x + y))
                time.sleep(0)
        except Exception as e:
            errs.append('submitter %d: %r' % (k, e))

    ts = [mt.Thread(target=submitter, args=[k], daemon=True,
                    name='submit-%d' % k) for k in range(rng.choice([2, 3, 4]))]
    try:
        for t in ts: t.start()
        for t in ts: t.join(timeout=30)
    finally:
        sys.setswitchinterval(old)
        pert.stop()
    res.count('encode_thread_histories')
    ctx_ = {'seed': seed, 'errors': errs}
    if any(t.is_alive() for t in ts):
        res.inconc('encode threads still busy after 30 s')
        return
    for e in errs:
        res.violation('encode-threads/raised', e, ctx_)
        return
    for tag, (enc, exp) in sorted(results.items()):
        res.count('encode_thread_payloads_checked')
        try:
            f, a, k = m_pytask.PythonTask.get_func_attr(enc)
            got = _call(f, a, k)
        except Exception as e:
            res.violation('encode-threads/decode-raised', '%s: %r' % (tag, e),
                          ctx_)
            return
        if got != exp:
            res.violation('encode-threads/foreign-payload', 'the payload '
                          'thread %s built decodes to a call which gives %r, '
                          'its own call gives %r' % (tag, got, exp), ctx_)
            return


# ------------------------------------------------------------------------------
# `as_dict()` gives a plain copy: what a component does to that copy (the agent
# appends to `pre_exec`, fills `environment` ...) must neither change the
# description it came from nor the descriptions created afterwards
#
def as_dict_aliasing(res, rng):
    kind = rng.choice(['task', 'task', 'pilot', 'slot'])
    verified = False
    if kind == 'task':
        mk = lambda: rp.TaskDescription({'executable': '/bin/true'})
        verified = rng.random() < 0.5
    elif kind == 'pilot':
        mk = lambda: rp.PilotDescription({'resource': 'local.localhost',
                                          'cores': 2, 'runtime': 5})
    else:
        mk = lambda: m_rc.Slot(cores=[1], node_index=0, node_name='n0')
    try:
        pristine = jsonable(mk().as_dict())
        obj = mk()
        if verified:
            obj.verify()
        before = jsonable(obj.as_dict())
        d = obj.as_dict()
        touched = list()
        for k, v in d.items():
            if isinstance(v, list) and not v:
                v.append('left-by-a-component'); touched.append(k)
            elif isinstance(v, dict) and not v:
                v['left-by-a-component'] = 1;    touched.append(k)
        res.count('as_dict_copies_modified')
        after = jsonable(obj.as_dict())
        fresh = jsonable(mk().as_dict())
    except Exception as e:
        res.violation('as-dict-aliasing/raised', repr(e), {'kind': kind})
        return
    ctx = {'kind': kind, 'verified': verified, 'touched': touched}
    if after != before:
        diff = {k: (before.get(k), after.get(k)) for k in after
                if after.get(k) != before.get(k)}
        res.violation('as-dict-copy-shares-state', 'changing the dict which '
                      'as_dict() returned changed the %s description: %s'
                      % (kind, diff), ctx)
    elif fresh != pristine:
        diff = {k: (pristine.get(k), fresh.get(k)) for k in fresh
                if fresh.get(k) != pristine.get(k)}
        res.violation('as-dict-copy-shares-defaults', 'after changing a dict '
                      'which as_dict() returned, a NEW %s description is '
                      'born with %s' % (kind, diff), ctx)


def run(ctx):

    res  = Result()
    _setup(res)
    base = dict(_EVALS)

    rng = ctx.rng('as-dict')
    for i in range(ctx.n(400, 20000)):
        as_dict_aliasing(res, rng)
        if len(res.violations) > 5:
            break
    if res.violations:
        # the class-level defaults of this process are changed now: nothing
        # which follows would mean anything
        return res

    rng = ctx.rng('encode-threads')
    for i in range(ctx.n(320, 16000)):
        encode_threads(res, rng, i)
        if len(res.violations) > 5:
            break

    def sample(case):
        kinds = {s.get('kind') for s in res.samples}
        if case['kind'] not in kinds and len(res.samples) < 3:
            res.samples.append(jsonable(case))

    # -- task descriptions -----------------------------------------------------
    rng = ctx.rng('td')
    for _ in range(ctx.n(10000, 480000)):
        case = gen_td(rng)
        res.evaluations += 1
        if td_nontrivial(case):
            res.digests.add(digest(case))
            sample(case)
        run_td(case, res)

    rng = ctx.rng('tdseq')
    for _ in range(ctx.n(3000, 120000)):
        case = gen_tdseq(rng)
        res.evaluations += 1
        res.digests.add(digest(case))
        run_tdseq(case, res)

    # -- pilot descriptions ------------------------------------------------------
    rng = ctx.rng('pd')
    for _ in range(ctx.n(1200, 40000)):
        case = gen_pd(rng)
        res.evaluations += 1
        res.digests.add(digest(case))
        run_pd(case, res)

    # -- function transport -------------------------------------------------------
    rng   = ctx.rng('func')
    batch = list()
    n_ch  = 40 if ctx.quick else 400
    for _ in range(ctx.n(5000, 240000)):
        case = gen_func(rng)
        res.evaluations += 1
        if func_nontrivial(case):
            res.digests.add(digest(case))
            sample(case)
        run_func(case, res, batch if len(batch) < n_ch else None,
                 fdir=ctx.workdir)
    run_child_batch(batch, res, ctx)

    rng = ctx.rng('funcseq')
    for _ in range(ctx.n(1500, 60000)):
        case = gen_funcseq(rng)
        res.evaluations += 1
        if funcseq_nontrivial(case):
            res.digests.add(digest(case))
            sample(case)
        run_funcseq(case, res)

    # -- slots ---------------------------------------------------------------------
    rng = ctx.rng('slots')
    for _ in range(ctx.n(10000, 320000)):
        case = gen_slots(rng)
        res.evaluations += 1
        if slots_nontrivial(case):
            res.digests.add(digest(case))
            sample(case)
        run_slots(case, res)

    _flush_evals(res, base)
    _close_loop()
    return res


def replay(case, ctx):

    res  = Result()
    _setup(res)
    base = dict(_EVALS)
    c    = case['case']
    kind = c.get('kind')
    if   kind == 'td'   : run_td(c, res)
    elif kind == 'tdseq': run_tdseq(c, res)
    elif kind == 'pd'   : run_pd(c, res)
    elif kind == 'slots': run_slots(c, res)
    elif kind == 'funcseq': run_funcseq(c, res)
    elif kind == 'func' :
        batch = list()
        run_func(c, res, batch, fdir=ctx.workdir)
        if case.get('route') == 'fresh-interpreter':
            run_child_batch(batch, res, ctx)
    else:
        res.inconc('unknown case kind %r' % kind)
    _flush_evals(res, base)
    _close_loop()
    res.evaluations = 1
    return res
