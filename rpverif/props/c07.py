'''
C07 - The executor finishes each task exactly once.

Monitor: per-uid event record extracted from the transport log of executor
histories (rpverif/popsim.py): real Popen / NOOP component, real child
processes, cancel requests / run-time limits / launch failures placed at every
point of a task's life, thread-schedule perturbation and targeted delay points.
'''

import os
import shutil

from ..core    import Result, digest, pid_space_small
from ..harness import rp, ru, rps, rpc
from ..popsim  import ExecSim, gen_case, TARGETS

ID     = 'C07'
LEVEL  = 'fault_enumeration'
MANIFEST = {
    'technique': 'runtime monitoring: exactly-once oracle over the transport '
                 'event log of the real Popen/NOOP executor with real child '
                 'processes, enumerated fault/cancel placements and '
                 'sys.monitoring schedule perturbation',
    'text': 'For every task the executor accepted the monitor requires exactly '
            'one start announcement, then exactly one hand-over (a push to '
            'output staging whose target_state/exit_code agree with how the '
            'process ended, or one FAILED advance when launching raised), '
            'exactly one unschedule publication, no child process left, and '
            'nothing left behind.  Cancel requests are placed before intake, '
            'before/after the spawn, at named source lines of the executor '
            '(located by pattern at run time), while running, racing the '
            'exit and after it; run-time limits race the exit; launching '
            'fails at each step of _handle_task.'
            '  Second session: endings include death by signal; launching also fails right after the spawn (run-time limit registration) and the kill command of the late cancel check can fail inside the work routine.'
            "  Third session: tasks with a start-up limit whose 'started' reports arrive in one burst; the executor's watcher threads must be alive at the end of every history (executor-thread-died)."
            '  Tasks with both a start-up and a generous run-time limit which outlive the start-up limit must end truthfully; a task whose process does not end on its own must be ended by its run-time limit - decided in cycles of the timeout watcher (counting proxy around its lock), not in seconds (left-behind/run-time-limit).'
            '  A cancel request may be served completely (task killed and handed over by the control thread) before a launch step after the spawn fails.'
            '  Burst histories (110-230 tasks in one bulk) hold the watcher inside one pass until the whole bulk is spawned (70%): more tasks wait for one take-over than the watcher takes per pass, none may be left behind.',
    'note': 'observes real threads: a history is reproduced by seed only '
            'statistically (replay re-runs it several times); the 1 s idle '
            'sleep of the timeout watcher is shortened to 20 ms; wall clock '
            'is used only as a watchdog (a history that does not settle '
            'although nothing runs any more is a left-behind verdict, a '
            'watchdog with live processes is inconclusive).'}
RULE   = ('seeded executor histories: 1-6 tasks in 1-2 bulks, endings exit 0 / '
          'exit k / killed by signal / long runner, cancel placement in {before_intake, '
          'in_spawn_before, in_spawn_after, at_target(line), running, '
          'race_exit, after_exit}, timeout / timeout racing exit, launch '
          'failure in {find_launcher, exec_script, launch_script, popen}, '
          'LINE perturbation prob {0, .02, .1}, targeted delay at one of %d '
          'source lines; non-trivial = a cancel/timeout/poison or a target was '
          'actually hit; distinct = digest of per-uid event orders + hits.'
          % len(TARGETS))
ASSUMPTIONS = ['a hand-over is a push to the output staging queue or a '
               'FAILED/CANCELED advance published by the executor',
               'a task dropped by the intake cancel filter was never accepted '
               'by the executor (its resources are C03/C08 business)']
SHARDS   = {'quick': 16, 'thorough': 16}
TIMEOUT  = {'quick': 600, 'thorough': 5400}
REQUIRED = {'uids_checked': 400, 'set:hits': 12, 'cancels_placed': 100,
            'poisons_hit': 30, 'line_events': 5000}


# ------------------------------------------------------------------------------
#
def judge(sim, rec, res, case):

    ctx = {'case': case, 'records': rec, 'hits': sorted(sim.hits),
           'notes': sim.notes, 'loop_errors': sim.loop_errors[:3],
           'callback_errors': [e[2] for e in sim.env.net.errors[:3]]}

    def viol(mech, msg):
        res.violation(mech, msg, ctx)

    serial = any('serialize' in e for e in sim.loop_errors) or \
             any('serialize' in e[2] for e in sim.env.net.errors)

    # the process watcher and the timeout watcher are needed for every later
    # task: one which ended (an exception nobody caught) leaves tasks behind
    dead = sim.dead_threads()
    res.count('watcher_liveness_checks')
    if dead:
        ctx['thread_errors'] = sim.thread_errors[:3]
        viol('executor-thread-died', 'thread(s) %s of the executor ended: %s'
             % (dead, sim.thread_errors[:2]))
    if 'startup_reported' in sim.hits:
        res.count('startup_reports_delivered')
    for n in sim.notes:
        if n.startswith('limit-not-enforced:'):
            viol('left-behind/run-time-limit', '%s: its process does not end '
                 'on its own, its run-time limit passed and the timeout '
                 'watcher went through 500 more cycles without ending it'
                 % n.split(':', 1)[1])
    res.count('hanging_tasks_with_limit',
              sum(1 for t in case['tasks'] if t['ending'] == 'hang'))

    for uid, r in rec.items():
        spec = sim.specs[uid]
        if not r['accepted']:
            res.count('never_reached_executor')
            continue
        if r['dropped']:
            res.count('dropped_at_intake')
            continue
        res.count('uids_checked')
        kinds = [h['kind'] for h in r['handovers']]
        res.see('event_orders', ' '.join(r['order']))

        late = spec['cancel'] in ('in_spawn_before', 'in_spawn_after',
                                  'at_target')

        if r['starts'] != 1:
            viol('start-announced-%d-times' % r['starts'],
                 '%s: %s' % (uid, r['order']))

        if len(kinds) == 0:
            if 'watchdog' in sim.notes:
                # the hard wall-clock limit fired while the history was still
                # moving (a loaded machine): no verdict
                res.inconc('watchdog fired before the history went idle '
                           '(%s not handed over yet)' % uid)
            elif late and serial:
                viol('late-cancel-unserialisable-task-left-behind',
                     '%s: cancel during spawn -> %s; errors %s'
                     % (uid, r['order'], sim.loop_errors[:1]))
            elif serial:
                viol('bulk-abandoned-after-serialisation-error',
                     '%s never launched/handed over: %s' % (uid, r['order']))
            else:
                viol('left-behind', '%s: %s' % (uid, r['order']))
        elif len(kinds) > 1:
            mech = 'handed-over-twice/%s' % '+'.join(sorted(kinds))
            viol(mech, '%s: %s' % (uid, r['order']))

        if r['unschedules'] != 1 and kinds:
            viol('unschedule-published-%d-times' % r['unschedules'],
                 '%s: %s' % (uid, r['order']))

        # hand-over content agrees with how the process ended
        for h in r['handovers'][:1]:
            if h['kind'] == 'staging':
                ts, ec = h['target_state'], h['exit_code']
                ok = (ts == rps.DONE and ec == 0) or \
                     (ts == rps.FAILED and ec not in (0, None)) or \
                     (ts == rps.CANCELED and ec is None) or \
                     (sim.case['spawner'] == 'NOOP' and ts == rps.DONE)
                if not ok:
                    viol('outcome-inconsistent', '%s: target %s exit %s'
                         % (uid, ts, ec))
                if ts == rps.CANCELED and not r['cancel_req']:
                    viol('canceled-unrequested', '%s' % uid)
                if not r['cancel_req'] and not spec['poison'] and \
                        sim.case['spawner'] == 'POPEN':
                    exp = (rps.DONE, 0) if spec['ending'] != 'exit' \
                          else (rps.FAILED, spec['code'])
                    if spec['ending'] == 'signal':
                        res.count('signal_endings_judged')
                        exp = (rps.FAILED, ec if ec not in (0, None) else
                                           'non-zero')
                    if (ts, ec) != exp and ec in (-9, -15) and \
                            spec['ending'] != 'signal' and pid_space_small():
                        res.count('possible_pid_reuse_not_judged')
                    elif (ts, ec) != exp:
                        viol('outcome-untruthful', '%s: got %s/%s, process '
                             'ended %s' % (uid, ts, ec, exp))
                if spec['poison'] and r['cancel_req'] and ts == rps.CANCELED:
                    # the launch step failed after the spawn while a cancel
                    # request owned the task already: one CANCELED hand-over
                    res.count('cancel_won_over_launch_fault')
                elif spec['poison']:
                    viol('poisoned-task-collected', '%s: launch failed at %s '
                         'but task was pushed to staging' % (uid,
                                                             spec['poison']))
            elif h['kind'] == 'advance:FAILED':
                exc_txt = str(h.get('exception'))
                if not spec['poison'] and any(x in exc_txt for x in
                        ('BlockingIOError', 'Resource temporarily unavailable',
                         'Cannot allocate memory', 'Too many open files')):
                    # the *sandbox* ran out of pids/memory/descriptors: the
                    # executor failing the task is right, nothing to judge
                    res.count('environment_exhaustion_not_judged')
                elif uid in sim.cancel_faults:
                    # the kill command raised inside the work routine: one
                    # FAILED hand-over (and one release) is what is required
                    res.count('late_cancel_kill_faults_judged')
                elif not spec['poison']:
                    viol('failed-without-launch-error', '%s: %s'
                         % (uid, h.get('exception')))
            elif h['kind'] == 'advance:CANCELED':
                if not r['cancel_req']:
                    viol('canceled-unrequested', '%s' % uid)

        if r['order'] and r['order'][0] != 'start' and r['starts']:
            viol('handover-before-start', '%s: %s' % (uid, r['order']))

        if r['pid'] is not None and kinds and uid not in sim.cancel_faults \
                and sim.alive(r['pid'], grace=2.0):
            viol('process-left-running', '%s pid %s alive after hand-over %s'
                 % (uid, r['pid'], kinds))

        left = getattr(sim.comp, '_tasks', None)
        if isinstance(left, dict) and uid in left and not kinds:
            res.count('left_in_tasks_dict')


def run_case(ctx, res, case, idx=0):

    wd = os.path.join(ctx.workdir or os.getcwd(), 'ex%05d' % idx)
    os.makedirs(wd, exist_ok=True)
    sim = None
    try:
        sim = ExecSim(wd, case)
        rec = sim.run()
        judge(sim, rec, res, case)
        res.evaluations += 1
        for h in sim.hits:
            res.see('hits', h)
            if h.startswith('cancel:'): res.count('cancels_placed')
            if h.startswith('poison:'): res.count('poisons_hit')
        if sim.perturb:
            res.count('line_events', sim.perturb.events)
            res.count('target_hits', sim.perturb.hit)
        for n in sim.notes:
            if n not in ('watchdog', 'idle-exit') and \
                    not n.startswith('limit-not-enforced'):
                res.note(n)
        sig = digest([sorted((u, r['order']) for u, r in rec.items()),
                      sorted(sim.hits)])
        if sim.hits:
            res.digests.add(sig)
        if len(res.samples) < 2 and sim.hits:
            res.samples.append({'case': case,
                                'orders': {u: r['order']
                                           for u, r in rec.items()},
                                'hits': sorted(sim.hits)})
    finally:
        if sim:
            sim.close()
        os.chdir(ctx.workdir or '/')
        shutil.rmtree(wd, ignore_errors=True)


def burst_case(rng):
    n = rng.choice([110, 130, 230])
    tasks = [{'uid': 't.%d' % i, 'ending': rng.choice(['ok', 'ok', 'exit']),
              'dur': rng.choice([0, 0, 0.05]), 'code': 3, 'sig': 'TERM',
              'cancel': None, 'cancel_at': None, 'timeout': 0.0,
              'poison': None, 'bulk': 0} for i in range(n)]
    for t in tasks:
        if t['ending'] != 'exit':
            t['code'] = 0
    return {'seed': rng.randint(0, 2 ** 30), 'spawner': 'POPEN',
            'tasks': tasks, 'perturb': 0.0, 'target': None,
            'target_delay': 0.0, 'switch': None, 'kind': 'burst',
            'hold_watcher': rng.random() < 0.7}


def run(ctx):
    res = Result()
    rng = ctx.rng('exec')
    n   = ctx.n(640, 12000)
    for i in range(n):
        spawner = 'NOOP' if i % 8 == 7 else 'POPEN'
        case = gen_case(rng, spawner)
        if i == 1 or (not ctx.quick and i % 400 == 1):
            # a burst: more tasks at once than the watcher takes over per pass
            # (its bulk limit is crossed), all ending at about the same time
            case = burst_case(rng)
            res.count('burst_histories')
        run_case(ctx, res, case, i)
        if len(res.violations) > 40:
            break
    return res


def replay(case, ctx):
    res = Result()
    for i in range(5):
        run_case(ctx, res, case['case'], i)
        if res.violations:
            break
    return res
