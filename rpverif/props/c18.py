'''
C18 - The pilot offers exactly the nodes it was allocated.

Monitor: the real `ResourceManager.create(name, cfg, rcfg, log, prof)` of Fork,
Debug, Slurm, PBSPro, LSF, Cobalt, Torque and CCM is run "from scratch" in a
generated batch environment (node files, $SLURM_NODELIST expressions, a fake
`qstat` on $PATH, $COBALT_PARTNAME, ~/.crayccm, ./services, agent layouts,
SMT and blocked-resource settings, requested/backup node counts), ONE case per
fresh interpreter.  The only seams are `ru.zmq.RegistryClient` (an in-memory
registry which keeps values msgpack-encoded, as on the wire) and the `Process`
name of resource_manager/base.py (the `ssh <node> hostname` probe; per-node
reachability is part of the case).  The `RMInfo` which comes out, and the
`RMInfo` a second component obtains from the registry alone (pristine process
forked before the first initialisation, batch environment removed), are judged
in the shard process against the *generating model* of the environment - the
oracle never parses the node file or the node list expression it wrote.
'''

import os
import sys
import json
import time
import base64
import shutil
import signal
import subprocess
import multiprocessing

import concurrent.futures as cf

from ..core    import Result, digest, VERIF
from ..        import boot as _boot

ID     = 'C18'
LEVEL  = 'exploration'
MANIFEST = {
    'technique': 'runtime monitoring: the real resource-manager constructors '
                 'run in generated batch environments, one per fresh '
                 'interpreter; model-based oracle on the resulting RMInfo and '
                 'on the RMInfo a second component reads from the registry',
    'text': 'For each generated allocation (host names, slots per host, '
            'login/batch pseudo nodes, SMT, blocked cores/GPUs, sub-agent and '
            'service nodes, requested/backup node counts, per-node ssh '
            'reachability) the environment of one batch system is written out '
            '(node file in grouped/cyclic/shuffled order, Slurm bracket '
            'expression, qstat -f record, Cobalt part name, ~/.crayccm) and the '
            'real ResourceManager.create() builds its RMInfo from it.  The '
            'oracle compares node_list / agent_node_list / service_node_list '
            'with the allocation the environment was generated from: names, '
            'unique indices, cores and GPUs per entry, DOWN marks, sizes, '
            'disjointness, bounds by requested nodes; then a pristine forked '
            'process with the batch environment removed creates the RM again '
            'from the registry and its info must be equal.'
            '  PBSPro jobs whose exec_vnode chunks have different sizes: the pilot refuses to start, or every offered node has the one node size it announces (cores_per_node) and no more cores than its vnode.'
            '  The platform config carries the physical core count, the agent config the hardware thread count (as the launcher writes them).',
    'note': 'in-memory ru.zmq.RegistryClient and a fake rc.process.Process '
            '(ssh probe) are the only substitutions; launch methods are FORK '
            'only; sampled, not enumerated.'}
RULE   = ('seeded cases, stratified round-robin over 10 RM sources (FORK, DEBUG, '
          'SLURM, PBSPRO via qstat, PBSPRO via node file after qstat failed / '
          'gave nothing usable, LSF, COBALT node file, COBALT part name, TORQUE, '
          'CCM) x 1-5 requested nodes x 0-2 backup nodes x allocation size '
          'requested+backup-1..+2 x 0-2 sub-agent nodes x services file x SMT '
          '{-,1,2,4} (config and $RADICAL_SMT) x 0-3 blocked cores x blocked '
          'GPUs x host naming styles (unpadded numbers crossing a digit '
          'boundary, zero padded, several prefixes, words, FQDN) x node file '
          'layouts.  Non-trivial = the case has at least one of: repeated host '
          'lines, a bracket/range expression, pseudo nodes, SMT > 1, blocked '
          'resources, sub-agent/service nodes, backup nodes, allocation size '
          '!= requested; distinct = case digest.')
ASSUMPTIONS = [
    'cfg.cores_per_node counts hardware threads (the pilot launcher multiplies '
    'the platform value by SMT before writing the agent config), so every node '
    'entry must carry exactly that many cores; LSF derives it as host-file '
    'lines x SMT and asserts equality with the configured value',
    'node files are what the batch systems write: one host name per line, no '
    'blank lines, no inner white space; Torque/CCM/LSF files have one line '
    'per slot with the same slot count on every compute host, and a '
    'configured cores_per_node (if any) consistent with it',
    'Slurm node list expressions are sorted sets with one bracket group per '
    'prefix, host numbers either all unpadded or all zero padded to one width '
    '(what Slurm emits); no multi-dimensional expressions',
    'LSF compute hosts have at least 2 slots and names without "login"/'
    '"batch"; pseudo nodes have exactly one line',
    'PBSPro exec_vnode chunks name one vnode per host; qstat is always on '
    '$PATH (succeeding or failing); when qstat succeeds the chunk size '
    '(ncpus) is what was allocated, whatever cores_per_node the platform '
    'config carries',
    'cfg.nodes >= 1, or 0 when the config carries no cores_per_node (the '
    'launcher then sizes in usable cores only); GPU environment variables '
    'of Slurm agree with each other',
    'a resource manager which refuses to start (raises) offers no list; that '
    'is accepted when the allocation is smaller than requested or no compute '
    'node can remain, and reported as unexpected-refusal otherwise',
    'the backup_list attribute is not part of the property and not judged']
SHARDS   = {'quick': 8, 'thorough': 16}
TIMEOUT  = {'quick': 400, 'thorough': 5400}
REQUIRED = {'rm_offers_checked'        : 150,
            'second_component_compared': 150,
            'node_entries_checked'     : 400,
            'blocked_marks_checked'    : 50,
            'agent_nodes_checked'      : 30,
            'service_nodes_checked'    : 20,
            'truncations_checked'      : 20,
            'probe_filtered_checked'   : 10,
            'pseudo_nodes_cases'       : 8,
            'qstat_called'             : 10,
            'expected_refusals'        : 5,
            'set:rm_sources'           : 10,
            'set:cells'                : 40}

PY       = '/venv/bin/python'
FIXTURES = os.path.join(VERIF, 'fixtures', 'c18')
CASE_TIMEOUT = 120            # generous watchdog per case, seconds

SOURCES  = ['FORK', 'SLURM', 'PBSPRO-qstat', 'LSF', 'COBALT-nodefile', 'TORQUE',
            'DEBUG', 'SLURM', 'PBSPRO-nodefile', 'LSF', 'COBALT-partname', 'CCM']
RM_NAME  = {'FORK': 'FORK', 'DEBUG': 'DEBUG', 'SLURM': 'SLURM', 'LSF': 'LSF',
            'PBSPRO-qstat': 'PBSPRO', 'PBSPRO-nodefile': 'PBSPRO',
            'COBALT-nodefile': 'COBALT', 'COBALT-partname': 'COBALT',
            'TORQUE': 'TORQUE', 'CCM': 'CCM'}
LOCALHOST_SOURCES = ('FORK', 'DEBUG')

BATCH_ENV_PREFIXES = ('SLURM_', 'PBS_', 'LSB_', 'COBALT_', 'GPU_DEVICE_ORDINAL',
                      'RADICAL_SMT', 'C18_')


# ------------------------------------------------------------------------------
# generating model: host names
#
def _gen_hosts(rng, n, kind):
    '''
    n distinct host names as structured records {name, prefix, num, w}
    (w = zero padded width, 0 = unpadded, num = None for non-numeric names).
    kind: 'slurm' (numeric suffixes or words), 'file' (additionally FQDNs).
    '''

    styles = ['unpadded', 'unpadded', 'padded', 'twoprefix', 'words']
    if kind == 'file':
        styles.append('fqdn')
    style = rng.choice(styles)

    def numbers(cnt, limit=None):
        start = rng.choice([0, 1, 1, 3, 7, 8, 9, 97, 98, 99])
        nums, cur = list(), start
        for _ in range(cnt):
            nums.append(cur)
            cur += rng.choice([1, 1, 1, 1, 2, 3])
        return nums

    hosts = list()
    if style in ('unpadded', 'padded', 'fqdn'):
        prefix = rng.choice(['node', 'c', 'nid', 'gpu-a', 'cn-', 'x3006c0s',
                             'node-b1-'])
        w = 0
        if style == 'padded' or (style == 'fqdn' and rng.random() < 0.5):
            w = rng.choice([3, 4, 5])
        dom = '.hpc.example.org' if style == 'fqdn' else ''
        for v in numbers(n):
            name = '%s%0*d%s' % (prefix, w, v, dom) if w else \
                   '%s%d%s'   % (prefix, v, dom)
            hosts.append({'name': name, 'prefix': prefix, 'num': v, 'w': w})
            if dom:
                hosts[-1]['num'] = None

    elif style == 'twoprefix':
        n1 = rng.randint(1, n) if n > 1 else 1
        p1, p2 = rng.sample(['cpu', 'gpu', 'rack-a', 'himem', 'n'], 2)
        w2 = rng.choice([0, 2, 3])
        for v in numbers(n1):
            hosts.append({'name': '%s%d' % (p1, v), 'prefix': p1, 'num': v,
                          'w': 0})
        for v in numbers(n - n1):
            name = '%s%0*d' % (p2, w2, v) if w2 else '%s%d' % (p2, v)
            hosts.append({'name': name, 'prefix': p2, 'num': v, 'w': w2})

    else:
        words = ['alpha', 'bravo', 'charlie', 'delta', 'echo', 'foxtrot',
                 'golf', 'hotel', 'india', 'juliett', 'kilo', 'lima']
        for name in rng.sample(words, n):
            hosts.append({'name': name, 'prefix': name, 'num': None, 'w': 0})

    assert len({h['name'] for h in hosts}) == n
    return hosts


def _ranges(nums, w):
    '''[1,2,3,7] -> "1-3,7"; numbers printed zero padded to w if w'''
    fmt  = (lambda v: '%0*d' % (w, v)) if w else (lambda v: '%d' % v)
    nums = sorted(set(nums))
    out, i = list(), 0
    while i < len(nums):
        j = i
        while j + 1 < len(nums) and nums[j + 1] == nums[j] + 1:
            j += 1
        out.append(fmt(nums[i]) if i == j else
                   '%s-%s' % (fmt(nums[i]), fmt(nums[j])))
        i = j + 1
    return ','.join(out)


def _slurm_expr(hosts):
    '''
    the compressed node list Slurm would put into $SLURM_NODELIST for this set
    of hosts: one bracket group per prefix (numbers unpadded, or padded to the
    common width), a single host is written out, groups comma separated
    '''
    groups, order = dict(), list()
    for h in hosts:
        key = (h['prefix'], h['w']) if h['num'] is not None else \
              (h['name'], None)
        if key not in groups:
            groups[key] = list()
            order.append(key)
        groups[key].append(h['num'])

    parts = list()
    for key in sorted(order, key=lambda k: k[0]):
        prefix, w = key
        nums = groups[key]
        if w is None:
            parts.append(prefix)
        elif len(nums) == 1:
            parts.append('%s%s' % (prefix, _ranges(nums, w)))
        else:
            parts.append('%s[%s]' % (prefix, _ranges(nums, w)))
    return ','.join(parts)


def _nodefile(rng, counts, layout=None):
    '''
    node file text for [(host, lines), ...] in one of the orders batch systems
    (and hostile users) produce; optional trailing blanks, missing last newline
    '''
    layout = layout or rng.choice(['grouped', 'grouped', 'cyclic', 'shuffled'])
    lines  = list()
    if layout == 'grouped':
        for host, cnt in counts:
            lines += [host] * cnt
    elif layout == 'cyclic':
        left = [[host, cnt] for host, cnt in counts]
        while any(c for _, c in left):
            for item in left:
                if item[1]:
                    lines.append(item[0])
                    item[1] -= 1
    else:
        for host, cnt in counts:
            lines += [host] * cnt
        rng.shuffle(lines)

    deco = rng.choice(['', '', '', ' ', '\t'])
    text = '\n'.join(line + deco for line in lines)
    if rng.random() < 0.85:
        text += '\n'
    return text, layout


# ------------------------------------------------------------------------------
# generating model: one case
#
def gen_case(rng, idx):

    src = SOURCES[idx % len(SOURCES)]

    R      = rng.choice([1, 1, 2, 2, 3, 3, 4, 5])
    B      = rng.choice([0, 0, 0, 1, 1, 2])
    delta  = rng.choice([0, 0, 0, 0, 1, 2, -1])
    k      = rng.choice([0, 0, 0, 1, 1, 2])
    s      = rng.choice([0, 0, 1])
    if rng.random() < 0.85:
        # mostly leave at least one compute node after the reservations
        R  = max(R, k + s + 1)

    smt_cfg = rng.choice([None, None, 1, 2, 4])
    smt_env = rng.choice([None, None, None, None, '1', '2', '4', ''])
    smt     = int(smt_env) if smt_env else (smt_cfg or 1)

    phys = rng.choice([1, 2, 2, 3, 4, 8, 16])
    if src == 'LSF':
        phys = max(phys, 2)
    C    = phys * smt                  # cores (hw threads) each node entry has
    G    = rng.choice([0, 0, 1, 2, 4])

    nb   = min(rng.choice([0, 0, 0, 1, 2, 3]), C - 1)
    pool = list(range(C))
    bc   = set()
    if nb:
        for cand in rng.sample([0, C - 1], 2):
            if len(bc) < nb and rng.random() < 0.6:
                bc.add(cand)
        while len(bc) < nb:
            bc.add(rng.choice(pool))
    bc   = sorted(bc)
    nbg  = rng.choice([0, 0, 0, 1, G]) if G else 0
    bg   = sorted(rng.sample(range(G), min(nbg, G))) if nbg else []

    n_alloc = max(1, R + B + delta)
    if src == 'FORK' : n_alloc = R + B      # the RM creates these itself
    if src == 'DEBUG': n_alloc = R

    cfg_cpn = C
    cfg_gpn = G
    env     = dict()
    files   = dict()
    may     = list()
    feat    = set()
    extra   = dict()
    pseudo  = list()
    hosts   = None
    names   = None

    sys_arch = dict()
    if smt_cfg is not None: sys_arch['smt'] = smt_cfg
    if smt_env is not None: env['RADICAL_SMT'] = smt_env
    if bc or rng.random() < 0.3: sys_arch['blocked_cores'] = bc
    if bg or rng.random() < 0.3: sys_arch['blocked_gpus']  = bg

    rcfg = {'system_architecture': sys_arch,
            'mem_per_node'       : rng.choice([0, 0, 1024]),
            'launch_methods'     : {'order': ['FORK'], 'FORK': {}}}

    # --- per source environment ----------------------------------------------
    if src == 'FORK':
        detected = multiprocessing.cpu_count()
        fake     = rng.random() < 0.75
        rcfg['fake_resources'] = fake
        if not fake:
            # a real localhost: one node, possibly detected core count
            if rng.random() < 0.5:
                cfg_cpn, C = 0, detected
                bc  = [b for b in bc if b < C]
                sys_arch['blocked_cores'] = bc
        extra['detected'] = detected

    elif src == 'DEBUG':
        pass

    else:
        hosts = _gen_hosts(rng, n_alloc, 'slurm' if src == 'SLURM' else 'file')
        names = [h['name'] for h in hosts]

    if src == 'SLURM':
        expr = _slurm_expr(hosts)
        var  = rng.choice(['SLURM_NODELIST', 'SLURM_JOB_NODELIST', 'both'])
        if var in ('SLURM_NODELIST',     'both'): env['SLURM_NODELIST']     = expr
        if var in ('SLURM_JOB_NODELIST', 'both'): env['SLURM_JOB_NODELIST'] = expr
        env['SLURM_JOB_ID'] = '4711'
        if rng.random() < 0.4:
            cfg_cpn = 0
        if not cfg_cpn or rng.random() < 0.5:
            env['SLURM_CPUS_ON_NODE'] = str(C)
        if G and rng.random() < 0.5:
            # GPUs detected from the (mutually consistent) environment
            cfg_gpn = 0
            ids     = ','.join(str(i) for i in range(G))
            which   = rng.choice(['on_node', 'job', 'step', 'ordinal', 'all'])
            if which in ('on_node', 'all'): env['SLURM_GPUS_ON_NODE'] = str(G)
            if which in ('job',     'all'): env['SLURM_JOB_GPUS']     = ids
            if which in ('step',    'all'): env['SLURM_STEP_GPUS']    = ids
            if which in ('ordinal', 'all'): env['GPU_DEVICE_ORDINAL'] = ids
        extra['expr'] = expr
        if '[' in expr:
            feat.add('bracket')

    elif src in ('PBSPRO-qstat', 'PBSPRO-nodefile'):
        env['PBS_JOBID'] = '%d.pbs01' % rng.randint(1000, 99999)
        if src == 'PBSPRO-qstat':
            mode = 'ok'
            r = rng.random()
            if r < 0.4:
                cfg_cpn = 0
            elif r < 0.65:
                # the platform config says one thing, the job's select
                # statement (`ncpus` of the chunks) another: what qstat reports
                # is what was allocated, and it is what every node entry and
                # `cores_per_node` have to show
                cfg_cpn = rng.choice([C * 2, C + 1, max(1, C // 2)])
                if cfg_cpn != C:
                    feat.add('pbspro-config-differs-from-ncpus')
        else:
            mode = rng.choice(['fail', 'fail', 'no-vnode', 'extras'])

        # vnodes of different sizes (a job whose chunks differ): the pilot
        # works with ONE node size, so it must either refuse to start or offer
        # no node with more cores than its vnode has
        hetero = dict()
        if src == 'PBSPRO-qstat' and len(names) >= 2 and \
                rng.random() < 0.6:
            small = rng.choice(names[1:])
            hetero = {n_: C for n_ in names}
            hetero[small] = rng.choice([max(1, C // 2), max(1, C // 4)])
            if hetero[small] != C:
                extra['vnode_cores'] = hetero
                feat.add('pbspro-vnodes-of-different-sizes')
                may.append('pbspro: vnodes of different sizes')
            else:
                hetero = dict()
        chunks = list()
        for name in names:
            c = '(%s:ncpus=%d' % (name, hetero.get(name, C))
            if mode == 'extras':
                c += ':ngpus=%d' % max(G, 1)
            chunks.append(c + ')')
        vn = '+'.join(chunks)
        width = rng.choice([0, 0, 23, 41, 66])
        if width:
            wrapped = [vn[i:i + width] for i in range(0, len(vn), width)]
            vn = '\n\t'.join(wrapped)
            feat.add('wrapped-vnode')
        rec  = ['Job Id: %s'                % env['PBS_JOBID'],
                '    Job_Name = pilot.0000',
                '    Job_Owner = user@login1',
                '    job_state = R',
                '    queue = workq',
                '    exec_host = %s' % '+'.join('%s/0*%d' % (n_, C)
                                               for n_ in names)]
        if mode != 'no-vnode':
            rec.append('    exec_vnode = %s' % vn)
        rec += ['    Hold_Types = n',
                '    Resource_List.ncpus = %d' % (C * len(names)),
                '    Resource_List.nodect = %d' % len(names),
                '']
        files['qstat.out']    = '\n'.join(rec)
        env['C18_QSTAT_OUT']  = '@DIR@/qstat.out'
        env['C18_QSTAT_RC']   = '1' if mode == 'fail' else '0'
        extra['qstat_mode']   = mode

        if mode != 'ok' or rng.random() < 0.5:
            per = rng.choice([1, 1, 1, 2, C])
            text, layout = _nodefile(rng, [(n_, per) for n_ in names])
            files['pbs_nodefile'] = text
            env['PBS_NODEFILE']   = '@DIR@/pbs_nodefile'
            extra['layout']       = layout
            if per > 1:
                feat.add('repeated-lines')

    elif src == 'LSF':
        L      = phys
        pseudo = rng.choice([[], ['batch'], ['batch'], ['login', 'batch'],
                             ['unmarked'], ['login']])
        pnames = {'batch': 'batch%d' % rng.randint(1, 5),
                  'login': 'login%d' % rng.randint(1, 5),
                  'unmarked': 'lassen%d' % rng.randint(700, 720)}
        pseudo = [pnames[p] for p in pseudo]
        counts = [(n_, L) for n_ in names]
        if rng.random() < 0.7:
            counts = [(p, 1) for p in pseudo] + counts
            layout = 'grouped'
            text, layout = _nodefile(rng, counts, layout)
        else:
            counts = counts + [(p, 1) for p in pseudo]
            text, layout = _nodefile(rng, counts)
        files['lsb_hostfile']    = text
        env['LSB_DJOB_HOSTFILE'] = '@DIR@/lsb_hostfile'
        env['LSB_JOBID']         = '815'
        extra['layout']          = layout
        if rng.random() < 0.5:
            cfg_cpn = 0
        feat.add('repeated-lines')
        if pseudo:
            feat.add('pseudo')

    elif src == 'COBALT-nodefile':
        per = rng.choice([1, 1, 2, C])
        text, layout = _nodefile(rng, [(n_, per) for n_ in names])
        files['cobalt_nodefile'] = text
        env['COBALT_NODEFILE']   = '@DIR@/cobalt_nodefile'
        env['COBALT_JOBID']      = '99'
        extra['layout']          = layout
        if per > 1:
            feat.add('repeated-lines')

    elif src == 'COBALT-partname':
        start = rng.choice([0, 1, 8, 98, 3830])
        ids, cur = list(), start
        for _ in range(n_alloc):
            ids.append(cur)
            cur += rng.choice([1, 1, 1, 2, 5])
        names = ['nid%05d' % i for i in ids]
        env['COBALT_PARTNAME'] = _ranges(ids, 0)
        env['COBALT_JOBID']    = '99'
        extra['partname']      = env['COBALT_PARTNAME']
        if '-' in env['COBALT_PARTNAME'] or ',' in env['COBALT_PARTNAME']:
            feat.add('bracket')

    elif src in ('TORQUE', 'CCM'):
        text, layout = _nodefile(rng, [(n_, C) for n_ in names])
        extra['layout'] = layout
        if C > 1:
            feat.add('repeated-lines')
        if rng.random() < 0.5:
            cfg_cpn = 0
        if src == 'TORQUE':
            files['pbs_nodefile'] = text
            env['PBS_NODEFILE']   = '@DIR@/pbs_nodefile'
            env['PBS_JOBID']      = '31337.torque'
        else:
            files['.crayccm/nodelist.2002'] = text
            if rng.random() < 0.6:
                # an older node list of a previous job and an unrelated file
                files['.crayccm/nodelist.1001'] = 'stale1\nstale1\nstale2\n'
                files['.crayccm/other.txt']     = 'ignored\n'
                extra['older'] = ['.crayccm/nodelist.1001']
                feat.add('stale-ccm-nodelist')

    # --- common parts ---------------------------------------------------------
    agents = dict()
    if k or rng.random() < 0.5:
        agents['agent_0'] = {'target': 'local'}
    for i in range(k):
        agents['agent_%d' % (i + 1)] = {'target': 'node'}
    if s:
        files['services'] = 'service.0000\n'

    reach, reach_seq = dict(), list()
    if B:
        st = lambda: rng.choice(['ok'] * 8 + ['fail', 'timeout'])
        if names is not None:
            reach = {n_: st() for n_ in names}
        else:
            reach_seq = [st() for _ in range(n_alloc)]

    cores_usable = C - len(bc)
    cfg = {'pid'              : 'pilot.0000',
           'resource'         : 'verif.c18',
           'reg_addr'         : 'mem://registry',
           'nodes'            : R,
           'backup_nodes'     : B,
           'cores'            : R * cores_usable,
           'gpus'             : R * (G - len(bg)),
           'cores_per_node'   : cfg_cpn,
           'gpus_per_node'    : cfg_gpn,
           'lfs_size_per_node': rng.choice([0, 0, 512]),
           'lfs_path_per_node': '/tmp',
           'agents'           : agents}
    if not cfg_cpn and rng.random() < 0.5:
        # the platform config knows no node size: the launcher could only size
        # the pilot in cores (usable ones) and tells the agent no node count;
        # the resource manager derives it from the node size it detects
        cfg['nodes'] = 0
        feat.add('nodes-derived-by-rm')
    if not agents and rng.random() < 0.5:
        del cfg['agents']
    # the platform file gives physical cores; what the launcher writes into
    # the agent config (above) is scaled by the hardware threads per core
    rcfg['cores_per_node'] = cfg_cpn // smt if smt > 1 and cfg_cpn % smt == 0 \
                             else cfg_cpn
    rcfg['gpus_per_node']  = cfg_gpn

    if src == 'FORK' and not rcfg['fake_resources']:
        det     = extra['detected']
        cpn_eff = cfg_cpn or det
        if det < cfg['cores'] or (cpn_eff <= det and cpn_eff < cfg['cores']):
            may.append('fork: real resource smaller than request')

    if n_alloc < R:
        may.append('allocation smaller than requested nodes')

    if smt > 1      : feat.add('smt')
    if bc or bg     : feat.add('blocked')
    if k            : feat.add('agents')
    if s            : feat.add('services')
    if B            : feat.add('backup')
    if n_alloc != R : feat.add('alloc!=requested')

    return {'src'   : src,
            'rm'    : RM_NAME[src],
            'cfg'   : cfg,
            'rcfg'  : rcfg,
            'env'   : env,
            'files' : files,
            'reach' : reach,
            'reach_seq': reach_seq,
            'extra' : extra,
            'expect': {'names'   : names,          # None: all 'localhost'
                       'pseudo'  : pseudo,
                       'n_alloc' : n_alloc,
                       'cores'   : C,
                       'gpus'    : G,
                       'bc'      : bc,
                       'bg'      : bg,
                       'R'       : R,
                       'B'       : B,
                       'k'       : k,
                       's'       : s,
                       'smt'     : smt,
                       'may_raise': may,
                       'features': sorted(feat)}}


# ------------------------------------------------------------------------------
# execution of one case in a fresh interpreter (shard side)
#
def exec_case(case, workdir, tag, attempts=3):
    '''
    run the case in a fresh interpreter.  A runner which disappears without
    leaving an observation (killed from outside, watchdog) says nothing about
    the property: the case is run again, up to `attempts` times.
    '''
    obs = None
    for attempt in range(attempts):
        obs = _exec_case(case, workdir, '%s.%d' % (tag, attempt))
        if not obs.get('harness'):
            obs['attempts'] = attempt + 1
            break
    return obs


def _exec_case(case, workdir, tag):

    sdir = os.path.join(workdir, 'case.%s' % tag)
    shutil.rmtree(sdir, ignore_errors=True)
    os.makedirs(os.path.join(sdir, 'env'))
    os.makedirs(os.path.join(sdir, 'bin'))
    os.makedirs(os.path.join(sdir, '.crayccm'))

    for rel, text in case['files'].items():
        path = os.path.join(sdir, rel)
        os.makedirs(os.path.dirname(path), exist_ok=True)
        with open(path, 'w') as fout:
            fout.write(text)
    now = time.time()
    for rel in case['extra'].get('older', []):
        os.utime(os.path.join(sdir, rel), (now - 86400, now - 86400))

    # what the launch method base class evaluates: the bootstrapper's env dump
    with open(os.path.join(sdir, 'env', 'bs0_orig.env'), 'w') as fout:
        fout.write("export PATH='/usr/bin:/bin'\nexport C18_ORIG='1'\n")

    qstat = os.path.join(sdir, 'bin', 'qstat')
    shutil.copyfile(os.path.join(FIXTURES, 'qstat'), qstat)
    os.chmod(qstat, 0o755)

    with open(os.path.join(sdir, 'case.json'), 'w') as fout:
        json.dump(case, fout)

    env = _boot.env()
    for key in list(env):
        if key.startswith(BATCH_ENV_PREFIXES):
            del env[key]
    env['HOME']   = sdir
    env['TMPDIR'] = sdir
    env['RADICAL_BASE'] = sdir
    env['PATH']   = os.path.join(sdir, 'bin') + ':' + env['PATH']
    for key, val in case['env'].items():
        env[key] = val.replace('@DIR@', sdir)

    cmd  = [PY, '-m', 'rpverif.props.c18', '--run-case', sdir]
    proc = subprocess.Popen(cmd, env=env, cwd=sdir, stdout=subprocess.PIPE,
                            stderr=subprocess.PIPE, start_new_session=True)
    obs  = None
    try:
        _, err = proc.communicate(timeout=CASE_TIMEOUT)
        opath  = os.path.join(sdir, 'obs.json')
        if os.path.isfile(opath):
            with open(opath) as fin:
                obs = json.load(fin)
            calls = os.path.join(sdir, 'qstat.calls')
            obs['qstat_calls'] = 0
            if os.path.isfile(calls):
                with open(calls) as fin:
                    obs['qstat_calls'] = len(fin.readlines())
        else:
            obs = {'harness': 'runner died rc=%s: %s'
                              % (proc.returncode,
                                 err.decode(errors='replace')[-400:])}
    except subprocess.TimeoutExpired:
        try:
            os.killpg(proc.pid, signal.SIGKILL)
        except Exception:
            pass
        proc.communicate()
        obs = {'harness': 'watchdog (%ds) fired' % CASE_TIMEOUT}

    shutil.rmtree(sdir, ignore_errors=True)
    return obs


# ------------------------------------------------------------------------------
# oracle (shard side): observation vs generating model
#
def _classify_names(case, bad, alloc):
    '''mechanism for offered names which are not allocated'''
    src = case['src']
    if src == 'SLURM':
        # allocated unpadded host numbers which come back zero padded
        strip = dict()
        for h in alloc:
            strip.setdefault(_strip_zeros(h), h)
        if all(b not in alloc and _strip_zeros(b) in strip for b in bad):
            return 'slurm-unpadded-range-zero-padded'
    return 'unallocated-node-offered/%s' % src


def _strip_zeros(name):
    i = len(name)
    while i and name[i - 1].isdigit():
        i -= 1
    num = name[i:].lstrip('0') or ('0' if name[i:] else '')
    return name[:i] + num


def judge(case, obs, res):

    src = case['src']
    exp = case['expect']
    ctx = {'case': case, 'observed': obs}

    def bad(mech, msg):
        res.violation(mech, '[%s] %s' % (src, msg), ctx)

    if obs.get('harness'):
        res.inconc('case could not be run: %s' % obs['harness'])
        return

    res.see('rm_sources', src)
    if obs.get('attempts', 1) > 1:
        res.count('runner_retries')
    if obs.get('qstat_calls'):
        res.count('qstat_called')

    R, B, k, s = exp['R'], exp['B'], exp['k'], exp['s']
    local = exp['names'] is None

    # nodes the RM may use
    if local:
        usable   = None
        n_usable = exp['n_alloc'] if not B else \
                   sum(1 for st in case['reach_seq'] if st == 'ok')
    else:
        usable   = [n for n in exp['names']
                    if not B or case['reach'].get(n) == 'ok']
        n_usable = len(usable)

    lo = min(n_usable, R) - k - s          # fewer compute nodes: one is lost
    hi = min(R, n_usable - k - s)

    first = obs['first']

    # the RM probed hosts which are not in the allocation: its idea of the
    # allocation is wrong, size expectations below do not apply
    misnamed = list()
    if not local:
        known    = set(exp['names']) | set(exp['pseudo'])
        misnamed = sorted({cmd.split()[2] for cmd in first.get('probe_cmds', [])
                           if len(cmd.split()) == 4} - known)
        if misnamed:
            bad(_classify_names(case, misnamed, set(exp['names'])),
                'probed %s, allocated %s' % (misnamed, sorted(exp['names'])))

    # --- the RM refused to start ----------------------------------------------
    if not first['ok']:
        if 'no valid launch methods' in (first['exc'] or ''):
            res.inconc('launch method FORK could not be initialised: %s'
                       % first['exc'])
            return
        if misnamed:
            pass
        elif exp['may_raise'] or lo < 1:
            res.count('expected_refusals')
            res.see('refusal_reasons', (exp['may_raise'] or
                                        ['no compute node can remain'])[0])
        else:
            bad('unexpected-refusal/%s' % src,
                'RM raised %s although %d usable nodes were allocated for %d '
                'requested (%d agent, %d service nodes)'
                % (first['exc'], n_usable, R, k, s))
        return

    # --- the RM offers a list ---------------------------------------------------
    res.count('rm_offers_checked')
    info = first['info']
    nl   = info.get('node_list')         or []
    al   = info.get('agent_node_list')   or []
    sl   = info.get('service_node_list') or []
    if info.get('backup_list'):
        res.count('backup_list_nonempty')
    elif B and n_usable > R:
        res.count('backup_list_empty_with_spare_nodes')

    if first.get('scratch_calls') != 1:
        res.inconc('first RM did not initialise from scratch (%s)'
                   % first.get('scratch_calls'))
        return

    # sizes
    if not nl:
        bad('node-list-empty/%s' % src, 'node_list is empty')
    if len(nl) > R:
        bad('node-list-longer-than-requested/%s' % src,
            '%d nodes offered, %d requested' % (len(nl), R))
    elif len(nl) > max(hi, 0):
        bad('more-nodes-than-usable/%s' % src,
            '%d nodes offered, only %d usable after setting aside %d agent and '
            '%d service nodes' % (len(nl), n_usable, k, s))
    if nl and len(nl) < lo and not misnamed:
        bad('usable-node-not-offered/%s' % src,
            '%d nodes offered; %d usable, %d requested, %d agent, %d service '
            'nodes' % (len(nl), n_usable, R, k, s))
    if n_usable > R:
        res.count('truncations_checked')
    if B and n_usable < exp['n_alloc']:
        res.count('probe_filtered_checked')
        if first.get('probes', 0) < exp['n_alloc']:
            res.note('fewer ssh probes than allocated nodes seen')
    if exp['pseudo']:
        res.count('pseudo_nodes_cases')

    if len(al) != k:
        bad('agent-node-count/%s' % src,
            '%d agent nodes reserved for %d sub-agents on nodes' % (len(al), k))
    if len(sl) != s:
        bad('service-node-count/%s' % src,
            '%d service nodes reserved, services file present: %s'
            % (len(sl), bool(s)))

    # entries
    every = [('node_list', n) for n in nl] + \
            [('agent_node_list', n) for n in al] + \
            [('service_node_list', n) for n in sl]

    vc = case['extra'].get('vnode_cores')
    if vc:
        # different vnode sizes, and the RM started anyway
        res.count('different_vnode_sizes_offered')
        for where, node in every:
            have = vc.get(node.get('name'))
            n_c  = len(node.get('cores') or [])
            if have is not None and n_c > have * exp['smt']:
                bad('node-offered-with-more-cores-than-allocated/%s' % src,
                    '%s %s is offered with %d cores, its vnode has ncpus=%d'
                    % (where, node.get('name'), n_c, have))
            # one node size is what the pilot tells its scheduler and
            # launchers: every entry has to have it
            elif n_c != info.get('cores_per_node'):
                bad('node-size-differs-from-cores-per-node/%s' % src,
                    '%s %s has %d cores, info.cores_per_node is %s (vnodes: '
                    '%s)' % (where, node.get('name'), n_c,
                             info.get('cores_per_node'), vc))
        return

    C, G   = exp['cores'], exp['gpus']
    bc, bg = exp['bc'], exp['bg']
    seen_idx, seen_name = dict(), dict()

    for where, node in every:

        res.count('node_entries_checked')
        if not isinstance(node, dict) or \
           any(key not in node for key in ('name', 'index', 'cores', 'gpus')):
            bad('malformed-node-entry/%s' % src, '%s: %r' % (where, node))
            continue

        name, index = node['name'], node['index']

        # index
        if not isinstance(index, int) or isinstance(index, bool):
            bad('node-index-not-int/%s' % src, '%s %s: %r' % (where, name,
                                                              index))
        elif index in seen_idx:
            if where == 'node_list' and seen_idx[index] == 'node_list':
                bad('duplicate-node-index/%s' % src,
                    'index %d used twice in node_list' % index)
            else:
                bad('reserved-node-in-node-list/%s' % src,
                    'index %d is in %s and in %s' % (index, seen_idx[index],
                                                     where))
        else:
            seen_idx[index] = where

        # name
        if local:
            if name != 'localhost':
                bad('node-name/%s' % src, '%s: %r, expected localhost'
                                          % (where, name))
        else:
            if name in seen_name:
                if where == 'node_list' and seen_name[name] == 'node_list':
                    bad('duplicate-node-name/%s' % src,
                        'host %s has two entries in node_list' % name)
                else:
                    bad('reserved-node-in-node-list/%s' % src,
                        'host %s is in %s and in %s' % (name, seen_name[name],
                                                        where))
            seen_name.setdefault(name, where)

        # cores
        cores = node['cores']
        if not isinstance(cores, list) or len(cores) != C:
            n_c = len(cores) if isinstance(cores, list) else -1
            if src == 'PBSPRO-nodefile' and exp['smt'] > 1 and \
               n_c == C * exp['smt']:
                bad('pbspro-nodefile-smt-applied-twice',
                    '%s %s has %d cores, cores_per_node (hw threads, SMT=%d '
                    'included) is %d, info.cores_per_node=%s'
                    % (where, name, n_c, exp['smt'], C,
                       info.get('cores_per_node')))
            else:
                bad('node-core-count/%s' % src,
                    '%s %s has %d cores, expected %d' % (where, name, n_c, C))
        else:
            for i, c in enumerate(cores):
                if i in bc:
                    res.count('blocked_marks_checked')
                    if c is not None:
                        bad('blocked-core-not-down/%s' % src,
                            '%s %s core %d is %r, blocked cores %s'
                            % (where, name, i, c, bc))
                        break
                elif c != 0:
                    bad('unblocked-core-not-free/%s' % src,
                        '%s %s core %d is %r, blocked cores %s'
                        % (where, name, i, c, bc))
                    break

        # gpus
        gpus = node['gpus']
        if not isinstance(gpus, list) or len(gpus) != G:
            bad('node-gpu-count/%s' % src,
                '%s %s has %s gpus, expected %d'
                % (where, name, len(gpus) if isinstance(gpus, list) else gpus,
                   G))
        else:
            for i, g in enumerate(gpus):
                if i in bg:
                    res.count('blocked_marks_checked')
                    if g is not None:
                        bad('blocked-gpu-not-down/%s' % src,
                            '%s %s gpu %d is %r, blocked gpus %s'
                            % (where, name, i, g, bg))
                        break
                elif g != 0:
                    bad('unblocked-gpu-not-free/%s' % src,
                        '%s %s gpu %d is %r, blocked gpus %s'
                        % (where, name, i, g, bg))
                    break

        if where == 'agent_node_list'  : res.count('agent_nodes_checked')
        if where == 'service_node_list': res.count('service_nodes_checked')

    # names vs allocation
    if not local:
        offered = [n['name'] for _, n in every
                   if isinstance(n, dict) and 'name' in n]
        alloc   = set(exp['names'])
        pseudo  = [n for n in offered if n in exp['pseudo']]
        if pseudo:
            bad('pseudo-node-offered/%s' % src,
                'login/batch nodes offered: %s' % pseudo)
        foreign = [n for n in offered
                   if n not in alloc and n not in exp['pseudo']]
        if foreign:
            bad(_classify_names(case, foreign, alloc),
                'offered %s, allocated %s' % (sorted(set(foreign)),
                                              sorted(alloc)))
        if B:
            dead = [n for n in offered if n in alloc and n not in usable]
            if dead:
                bad('unreachable-node-offered/%s' % src,
                    'nodes %s did not answer the probe (%s)'
                    % (dead, {n: case['reach'][n] for n in dead}))
    elif B and len(every) > n_usable:
        bad('unreachable-node-offered/%s' % src,
            '%d nodes kept, %d answered the probe' % (len(every), n_usable))

    # announced per node capacity
    if info.get('cores_per_node') != C - len(bc):
        bad('cores-per-node-value/%s' % src,
            'cores_per_node=%r, node entries have %d cores of which %d are '
            'blocked' % (info.get('cores_per_node'), C, len(bc)))
    if info.get('gpus_per_node') != G - len(bg):
        bad('gpus-per-node-value/%s' % src,
            'gpus_per_node=%r, node entries have %d gpus of which %d are '
            'blocked' % (info.get('gpus_per_node'), G, len(bg)))

    # --- hand-over to the other components ------------------------------------
    if not any(key.startswith('rm.') for key in first.get('registry_keys', [])):
        bad('registry-missing/%s' % src,
            'no rm.* entry in the registry (%s)' % first.get('registry_keys'))
        return

    second = obs.get('second') or {}
    if not second or second.get('harness'):
        res.inconc('second component could not be run: %s'
                   % second.get('harness'))
        return
    if not second.get('ok'):
        bad('second-component-failed/%s' % src,
            'RM from registry raised %s' % second.get('exc'))
        return
    if second.get('scratch_calls') or second.get('probes'):
        bad('second-component-not-from-registry/%s' % src,
            'second RM initialised from scratch (%s calls, %s probes)'
            % (second.get('scratch_calls'), second.get('probes')))
        return

    res.count('second_component_compared')
    if second['info'] != info:
        diff = sorted(key for key in set(info) | set(second['info'])
                      if info.get(key) != second['info'].get(key))
        bad('second-component-info-differs/%s' % src,
            'attributes %s differ: %s' % (diff,
                 {key: [info.get(key), second['info'].get(key)]
                  for key in diff}))


# ------------------------------------------------------------------------------
#
def _record(case, res, idx):
    res.evaluations += 1
    feats = case['expect']['features']
    if feats:
        res.digests.add(digest(case))
    for f in feats:
        res.see('features', f)
    res.see('cells', (case['src'], min(case['expect']['B'], 1),
                      min(case['expect']['k'], 1), case['expect']['s']))
    if len(res.samples) < 3 and idx % 5 == 2:
        res.samples.append(case)


def run(ctx):

    res = Result()
    rng = ctx.rng('cases')
    n   = ctx.n(320, 12000)

    if not os.path.isfile(os.path.join(FIXTURES, 'qstat')):
        res.inconc('fixture %s/qstat missing' % FIXTURES)
        return res

    # round robin over the sources, shifted per shard so every shard sees all
    cases   = [gen_case(rng, i + ctx.shard) for i in range(n)]
    ncpu    = len(os.sched_getaffinity(0)) if hasattr(os, 'sched_getaffinity') \
              else (os.cpu_count() or 4)
    workers = max(1, ncpu // max(1, ctx.nshards))

    def work(item):
        idx, case = item
        return idx, case, exec_case(case, ctx.workdir, '%05d' % idx)

    with cf.ThreadPoolExecutor(max_workers=workers) as pool:
        for idx, case, obs in pool.map(work, list(enumerate(cases))):
            _record(case, res, idx)
            judge(case, obs, res)

    return res


def replay(case, ctx):
    res  = Result()
    case = case['case']
    obs  = exec_case(case, ctx.workdir, 'replay')
    res.evaluations = 1
    judge(case, obs, res)
    return res


# ==============================================================================
# runner: one resource manager case in this (fresh) interpreter
#
def _write_all(fd, data):
    while data:
        n    = os.write(fd, data)
        data = data[n:]


def _runner(sdir):

    os.chdir(sdir)
    with open('case.json') as fin:
        case = json.load(fin)

    from ..harness import rp, ru, NullLog, NullProf          # boots the shim

    import radical.utils.serialize                      as rus
    import radical.pilot.agent.resource_manager.base    as rmb
    import radical.pilot.resource_config                as rprc

    from radical.pilot.agent.resource_manager import ResourceManager

    # --- seam 1: registry -------------------------------------------------------
    store = dict()                     # key -> msgpack bytes, as on the wire

    class MemRegistryClient(object):

        def __init__(self, url, pwd=None):
            self._url = url
            self._pwd = pwd

        def _key(self, key):
            return self._pwd + '.' + key if self._pwd else key

        def get(self, key, default=None):
            key = self._key(key)
            if key not in store:
                return default
            return rus.from_msgpack(store[key])

        def put(self, key, val):
            store[self._key(key)] = rus.to_msgpack(val)

        def __getitem__(self, key):      return self.get(key)
        def __setitem__(self, key, val): return self.put(key, val)
        def __delitem__(self, key):      store.pop(self._key(key), None)
        def __contains__(self, key):     return self._key(key) in store
        def keys(self):                  return list(store.keys())
        def close(self):                 pass

    ru.zmq.RegistryClient = MemRegistryClient

    # --- seam 2: the ssh probe --------------------------------------------------
    probes = list()

    class FakeProcess(object):
        '''`ssh -oBatchMode=yes <node> hostname` with a scripted outcome'''

        def __init__(self, cmd, *args, **kwargs):
            self.cmd     = cmd
            self.stdout  = ''
            self.stderr  = ''
            self.retcode = None
            self._status = None
            self._seq    = len(probes)
            probes.append(cmd)

        def start(self):
            words = self.cmd.split()
            if len(words) != 4 or words[0] != 'ssh' or words[3] != 'hostname':
                self._status = 'fail'
                self.stderr  = 'unexpected probe command'
                return
            name = words[2]
            if case['reach_seq']:
                self._status = case['reach_seq'][self._seq] \
                               if self._seq < len(case['reach_seq']) else 'fail'
            else:
                self._status = case['reach'].get(name, 'fail')
            self._name = name

        def wait(self, timeout=None):
            if   self._status == 'ok':
                self.retcode, self.stdout = 0, self._name + '\n'
            elif self._status == 'fail':
                self.retcode = 255
                self.stderr  = 'ssh: connect to host: No route to host\n'
            # 'timeout': still running, retcode stays None

        def cancel(self):
            pass

        kill = cancel

    rmb.Process = FakeProcess

    # --- monitor: which initialisation path ran -------------------------------
    counts = {'scratch': 0}
    _orig  = ResourceManager._init_from_scratch

    def _spy(self):
        counts['scratch'] += 1
        return _orig(self)

    ResourceManager._init_from_scratch = _spy

    def build():
        cfg  = ru.Config(cfg=json.loads(json.dumps(case['cfg'])))
        rdef = rprc.ResourceConfig().as_dict()
        rdef.update(json.loads(json.dumps(case['rcfg'])))
        rdef['resource_manager'] = case['rm']
        rcfg = ru.Config(cfg=rdef)
        return cfg, rcfg

    def create():
        out = {'ok': False, 'exc': None, 'info': None}
        log = NullLog()
        try:
            cfg, rcfg = build()
            rm = ResourceManager.create(case['rm'], cfg, rcfg, log, NullProf())
            out['ok']       = True
            out['rm_class'] = type(rm).__name__
            out['info']     = json.loads(json.dumps(rm.info.as_dict(),
                                                    default=repr))
            out['launch_order'] = list(rm._launch_order)
        except BaseException as e:
            out['exc'] = '%s: %s' % (type(e).__name__, str(e)[:300])
        out['scratch_calls'] = counts['scratch']
        out['probes']        = len(probes)
        out['probe_cmds']    = list(probes)
        out['log_exceptions'] = [x[1] for x in log.exceptions][:3]
        return out

    # --- the "second component": a pristine copy of this interpreter ----------
    p2c_r, p2c_w = os.pipe()
    c2p_r, c2p_w = os.pipe()
    sys.stdout.flush()
    sys.stderr.flush()
    child = os.fork()

    if child == 0:
        rc = 0
        try:
            os.close(p2c_w)
            os.close(c2p_r)
            data = b''
            while True:
                chunk = os.read(p2c_r, 65536)
                if not chunk:
                    break
                data += chunk
            if data:
                for key, val in json.loads(data.decode()).items():
                    store[key] = base64.b64decode(val)
                # no batch system information besides the registry
                for key in list(os.environ):
                    if key.startswith(BATCH_ENV_PREFIXES):
                        del os.environ[key]
                os.environ['HOME'] = os.path.join(sdir, 'nonexistent')
                if os.path.isfile('services'):
                    os.unlink('services')
                out = create()
                _write_all(c2p_w, json.dumps(out).encode())
        except BaseException as e:
            rc = 1
            try:
                os.write(c2p_w, json.dumps({'harness': 'child: %r' % e}
                                           ).encode())
            except Exception:
                pass
        os._exit(rc)

    os.close(p2c_r)
    os.close(c2p_w)

    first = create()
    first['registry_keys'] = sorted(store.keys())

    obs = {'first'   : first,
           'rm_class': first.get('rm_class') or
                       ResourceManager.get_manager(case['rm']).__name__,
           'second'  : None}

    if first['ok']:
        payload = json.dumps({key: base64.b64encode(val).decode()
                              for key, val in store.items()}).encode()
        _write_all(p2c_w, payload)
    os.close(p2c_w)

    data = b''
    while True:
        chunk = os.read(c2p_r, 65536)
        if not chunk:
            break
        data += chunk
    os.waitpid(child, 0)
    if data:
        obs['second'] = json.loads(data.decode())
    if first['ok'] and (not obs['second'] or obs['second'].get('harness')):
        obs['harness'] = 'second component process failed: %s' \
                         % (obs['second'] or {}).get('harness')

    tmp = 'obs.json.tmp'
    with open(tmp, 'w') as fout:
        json.dump(obs, fout)
    os.replace(tmp, 'obs.json')
    return 0


if __name__ == '__main__':
    if len(sys.argv) == 3 and sys.argv[1] == '--run-case':
        sys.exit(_runner(sys.argv[2]))
    sys.stderr.write('usage: python -m rpverif.props.c18 --run-case DIR\n')
    sys.exit(2)
