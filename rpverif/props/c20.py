'''
C20 - Raptor workers and masters account for every request.

Four monitors, all on real repository code:

  dispatch : the real `Worker._dispatch_func/_meth/_eval/_exec/_proc/_shell`
             on a `Worker` built with `__new__`, sequences of requests in one
             forked process (as the ranks of an MPI worker run them).  Before /
             after each request: `os.environ`, `sys.stdout`, `sys.stderr`, cwd,
             the environment a freshly spawned child of the process sees, and
             what a child spawned BY THE NEXT REQUEST reports.
  worker   : the real `DefaultWorker` (`__new__`, real `_request_cb`, `_alloc`,
             `_dealloc`, `_dispatch` in forked children, `_result_watcher`,
             `_result_cb`) fed by the real `Master.submit_tasks` through the
             in-memory queues; results go back through the real
             `Master._result_cb`.  Ledger over `task['slots']`, exactly-once
             accounting of deallocations / results / advances.
  master   : request routing and exit-code -> target-state mapping of the real
             `Master` on generated requests / reported results.
  sched    : the gated real agent scheduler (rpverif.schedsim): forwarding of
             raptor tasks, backlog, register / unregister, `raptor_seen` and
             RAPTOR_WORKER tasks, and the loop scheduler -> master -> scheduler.
'''

import io
import os
import sys
import copy
import json
import time
import errno
import shlex
import signal
import shutil
import asyncio
import threading       as mt
import subprocess      as sp
import multiprocessing as _real_mp

from collections import Counter, defaultdict

from ..core    import Result, digest
from ..harness import rp, ru, rps, rpc, NullLog, NullProf
from ..        import memzmq

import radical.pilot.raptor.worker          as m_w       # noqa (after boot)
import radical.pilot.raptor.worker_default  as m_wd      # noqa
import radical.pilot.raptor.master          as m_m       # noqa
import radical.pilot.utils.component        as m_comp    # noqa

from radical.pilot.task_description import (TASK_EXECUTABLE, TASK_FUNC,
        TASK_METH, TASK_EVAL, TASK_EXEC, TASK_PROC, TASK_SHELL, RAPTOR_WORKER)

ID     = 'C20'
LEVEL  = 'exploration'
MANIFEST = {
    'technique': 'runtime monitoring: ledger / exactly-once oracles on the '
                 'real raptor worker (forked request processes), master and '
                 'scheduler forwarding; before/after state oracle with child '
                 'process probes on the real dispatchers',
    'text': 'Generated request streams (cores/GPUs 1..worker size, payloads '
            'that return, print, raise, sys.exit, modify os.environ, spawn a '
            'child reporting its environment, run into their timeout, plus '
            'injected fork failures) run through the real Master.submit_tasks '
            '-> DefaultWorker._request_cb/_alloc/_dispatch/_result_watcher/'
            '_result_cb/_dealloc -> Master._result_cb chain.  The ledger '
            'requires disjoint task[\'slots\'] among live requests, one '
            'deallocation and one result per accepted request, _resources all '
            'zero at quiescence, one advance to AGENT_STAGING_OUTPUT_PENDING '
            'with target_state DONE iff exit code 0.  The dispatchers are run '
            'as request sequences in one process; environment, streams, cwd '
            'and the environment seen by children of the process and of the '
            'next request are compared with the state before.  Master routing '
            'and the scheduler\'s raptor forwarding / backlog / unregister '
            'handling are decided on generated histories of the gated real '
            'scheduler.'
            '  Exec requests carry pre_exec statements (import, export, print): their output is captured, their exports undone.'
            "  The master's task service: `_run_task` on service threads while the results go through `_result_cb` on a getter thread, possibly at once - every answered request returns, no bookkeeping is left."
            '  State updates for executable requests carry the raptor id they were addressed with (none, empty, this master, any master `*`): each is advanced exactly once.'
            '  Two thirds of the worker cases with GPUs run with a non-identity CUDA_VISIBLE_DEVICES exported to the worker (the node GPUs it was placed on).',
    'note': 'objects are built with __new__ plus constructor attributes; the '
            'ZMQ queues are the in-memory shim; quiescence is decided '
            'logically (request processes exited, sentinel passed the result '
            'queue), wall clock is only a watchdog; a timeout racing the '
            'completion is a separate stress workload (threaded, reproduced '
            'only statistically).'}
RULE   = ('seeded cases of four kinds: dispatcher sequences (2-5 requests x 7 '
          'modes x 9 payload classes x request environments), worker streams '
          '(worker 1-8 cores / 0-3 GPUs, 3-10 requests in random bulks, '
          'demands 1..size, payload classes return/print/raise/exit/setenv/'
          'child/timeout, fork failures), master cases (4-14 requests over 7 '
          'modes x 3 entry points, reported exit codes incl. missing), '
          'scheduler cases (3-8 tasks plain/forward/seen/worker x register/'
          'unregister scripts).  Non-trivial: a dispatcher sequence in which a '
          'request that changes state is followed by another request; a worker '
          'stream in which at least two requests were live at the same time; '
          'a master case with both routes and a non-zero exit code; a '
          'scheduler case with a forwarded task.  Distinct = case digest.')
ASSUMPTIONS = [
    'a request "runs" on its cores/GPUs between the return of _alloc and the '
    'call of _dealloc (the worker does not bind processes to cores)',
    'core/GPU demands are within the worker size (larger ones are refused by '
    'an assertion before anything is accounted)',
    'payload durations (<= 100 ms, no timeout or 120 s) and timeouts (0.15-0.4 s '
    'on a payload sleeping 600 s) are well apart; timeouts are only generated '
    'for the python modes (a killed shell/proc request leaves its command '
    'running, which the worker does not account for)',
    'a payload calling sys.exit may leave a dispatcher as SystemExit (then '
    'only the restoration is checked); at the worker level it must still '
    'yield one result with a non-zero exit code',
    'payloads that kill their process (os._exit, signals) are not generated',
    'for proc/shell requests a non-zero exit status carries no python '
    'exception; stderr of a failed python request may have text appended '
    'by the dispatcher',
    'only environment variables with the prefix C20_ are compared in child '
    'views (shells add variables of their own)',
    'fork failure is injected by a Process object whose start() raises EAGAIN']
SHARDS   = {'quick': 16, 'thorough': 16}
TIMEOUT  = {'quick': 600, 'thorough': 5400}
REQUIRED = {'dispatch_requests'        : 1500,
            'next_request_child_views' : 150,
            'restorations_checked'     : 1500,
            'worker_requests_accounted': 600,
            'live_pairs_checked'       : 300,
            'worker_quiescent_points'  : 60,
            'master_advances_checked'  : 1500,
            'master_routes_checked'    : 1500,
            'sched_forward_checked'    : 150,
            'sched_local_checked'      : 150,
            'race_trials'              : 12,
            'set:payload_classes'      : 9,
            'set:dispatch_modes'       : 7,
            'set:worker_outcomes'      : 4}

PFX   = 'C20_'
BASE  = {'C20_BASE1': 'base1', 'C20_BASE2': 'base2'}
KEYS  = ['C20_A', 'C20_B', 'C20_LEAK', 'C20_BASE1']
SENT  = '__c20_sentinel__'

PY_MODES = ['func', 'afunc', 'meth', 'pyfunc', 'eval', 'exec']
SH_MODES = ['proc', 'shell']
MODES    = PY_MODES + SH_MODES
RP_MODE  = {'func': TASK_FUNC, 'afunc': TASK_FUNC, 'pyfunc': TASK_FUNC,
            'meth': TASK_METH, 'eval': TASK_EVAL, 'exec': TASK_EXEC,
            'proc': TASK_PROC, 'shell': TASK_SHELL}

WATCHDOG = 150.0       # seconds without the expected progress => inconclusive
RACE_WATCHDOG = 30.0   # same for one race trial (settles in ~0.2 s)


# ------------------------------------------------------------------------------
# payloads (this code runs INSIDE requests)
#
def _child_view(env='inherit'):
    '''what a freshly spawned child process sees (C20_* variables)'''
    kw = dict()
    if env != 'inherit':
        kw['env'] = env
    p = sp.run(['env'], stdout=sp.PIPE, stderr=sp.DEVNULL, timeout=60, **kw)
    return _parse_env(p.stdout.decode())


def _parse_env(text):
    view = dict()
    for line in text.splitlines():
        if line.startswith(PFX) and '=' in line:
            k, v = line.split('=', 1)
            view[k] = v
    return view


def _trace(spec, what):
    '''payload-side evidence of when a request really runs: one line per
    event with the system-wide monotonic clock (O_APPEND: lines are atomic)'''
    path = spec.get('trace')
    if not path:
        return
    try:
        fd = os.open(path, os.O_WRONLY | os.O_APPEND | os.O_CREAT, 0o644)
        os.write(fd, ('%s %s %.6f\n' % (what, spec.get('tag'),
                                        time.monotonic())).encode())
        os.close(fd)
    except OSError:
        pass


def run_payload(spec):
    _trace(spec, 'start')
    try:
        return _run_payload(spec)
    finally:
        _trace(spec, 'end')


def _run_payload(spec):

    if spec.get('linger') is not None:
        # a payload which traps SIGTERM, finishes what it is doing (for
        # `linger` seconds) and only then ends: it is *running* on its cores
        # until then, whatever the worker believes
        import signal as _signal
        flag = {'term': None}
        def _on_term(signum, frame):
            if flag['term'] is None:
                flag['term'] = time.monotonic()
        _signal.signal(_signal.SIGTERM, _on_term)
        t0 = time.monotonic()
        while time.monotonic() - t0 < 600:
            if flag['term'] is not None and \
                    time.monotonic() - flag['term'] >= spec['linger']:
                break
            time.sleep(0.005)
        return spec.get('ret')

    if spec.get('sleep'):
        time.sleep(spec['sleep'])
    if spec.get('out'):
        sys.stdout.write(spec['out'])
    if spec.get('err'):
        sys.stderr.write(spec['err'])
    for k, v in (spec.get('setenv') or {}).items():
        os.environ[k] = v
    for k in spec.get('delenv') or []:
        os.environ.pop(k, None)
    view = None
    if spec.get('child'):
        view = _child_view()
    if spec.get('swap'):
        sys.stdout = io.StringIO()
        sys.stderr = io.StringIO()
        print('lost')
    if spec.get('raise'):
        raise ValueError(spec['raise'])
    if spec.get('exit') is not None:
        sys.exit(spec['exit'])
    if spec.get('child'):
        return {'ret': spec.get('ret'), 'view': view}
    return spec.get('ret')


class _Payloads(object):
    '''methods a custom worker class offers to function / method requests'''

    def c20_payload(self, spec):
        return run_payload(spec)

    async def c20_apayload(self, spec):
        await asyncio.sleep(0)
        return run_payload(spec)


class PWorker(_Payloads, m_w.Worker):
    pass


class PDefaultWorker(_Payloads, m_wd.DefaultWorker):
    pass


def shell_script(spec):
    parts = list()
    if spec.get('sleep'):
        parts.append('sleep %s' % spec['sleep'])
    if spec.get('out'):
        parts.append("printf '%%s' %s" % shlex.quote(spec['out']))
    if spec.get('err'):
        parts.append("printf '%%s' %s >&2" % shlex.quote(spec['err']))
    if spec.get('child'):
        parts.append('env | grep "^%s" | sort' % PFX)
    parts.append('exit %d' % (spec.get('exit') or 0))
    return '; '.join(parts)


def description(req, uid):
    '''the mode specific part of a request's task description'''

    mode, spec = req['mode'], req['spec']
    d = {'uid'           : uid,
         'mode'          : RP_MODE[mode],
         'timeout'       : req.get('timeout', 0),
         'environment'   : dict(req.get('environment') or {}),
         'ranks'         : 1,
         'cores_per_rank': 1,
         'gpus_per_rank' : 0.0,
         'sandbox'       : req.get('sandbox', ''),
         'pre_exec'      : list()}
    if mode == 'func':
        d.update({'function': 'c20_payload',  'args': [copy.deepcopy(spec)],
                  'kwargs': dict()})
    elif mode == 'afunc':
        d.update({'function': 'c20_apayload', 'args': [copy.deepcopy(spec)],
                  'kwargs': dict()})
    elif mode == 'meth':
        d.update({'method': 'c20_payload', 'args': [copy.deepcopy(spec)],
                  'kwargs': dict()})
    elif mode == 'pyfunc':
        d.update({'function': rp.PythonTask(run_payload,
                                            args=(copy.deepcopy(spec),),
                                            kwargs=dict()),
                  'args': list(), 'kwargs': dict()})
    elif mode == 'eval':
        d['code'] = "__import__('rpverif.props.c20', fromlist=['x'])" \
                    ".run_payload(%r)" % (spec,)
    elif mode == 'exec':
        d['code'] = 'import rpverif.props.c20 as _m\n' \
                    'return _m.run_payload(%r)' % (spec,)
        if req.get('pre') == 'import':
            d['pre_exec'] = ['import json as _c20json']
        elif req.get('pre') == 'setenv':
            d['pre_exec'] = ['import os',
                             'os.environ["C20PRE_%d"] = "by pre_exec"'
                             % req.get('pre_i', 0)]
        elif req.get('pre') == 'print':
            d['pre_exec'] = ['print("pre-exec output")']
    elif mode == 'shell':
        d['command'] = shell_script(spec)
    elif mode == 'proc':
        d.update({'executable': '/bin/sh',
                  'arguments' : ['-c', shell_script(spec)]})
    return d


# ------------------------------------------------------------------------------
# expectation (written from the payload spec, independent of the dispatchers)
#
def s(x):
    if isinstance(x, bytes):
        return x.decode()
    return x


def expected_view(base, req, shell_base=None):
    spec = req['spec']
    view = dict(shell_base if req['mode'] in SH_MODES else base)
    view.update(req.get('environment') or {})
    if req['mode'] in PY_MODES:
        view.update(spec.get('setenv') or {})
        for k in spec.get('delenv') or []:
            view.pop(k, None)
    return view


def judge_tuple(req, tup, view_expected):
    '''
    compare what a dispatcher (or the worker's result) reported with what the
    payload did.  Returns list of (mechanism, message) and the reported child
    view (or None).
    '''
    out, err, ret, val, exc = tup
    out, err = s(out), s(err)
    spec, mode = req['spec'], req['mode']
    bad  = list()
    view = None
    pre_missing = False
    if req.get('pre') == 'print' and not req.get('bad_sandbox'):
        if (out or '').startswith('pre-exec output\n'):
            out = out[len('pre-exec output\n'):]
        else:
            pre_missing = True

    def say(mech, msg):
        bad.append((mech, '%s %s: %s [%r]' % (mode, req['cls'], msg,
                                               (out, err, ret, val, exc))))

    if pre_missing:
        say('output-wrong', 'what the pre_exec statements printed is not in '
            'the captured output')

    if req.get('bad_sandbox'):
        # the request never ran: its sandbox could not be created.  What has
        # to come back is a failure with the reason, nothing of the payload
        if ret in (0, None):
            say('failure-reported-as-success', 'sandbox could not be created '
                'but exit code is %r' % (ret,))
        if not exc or not exc[0]:
            say('exception-not-recorded', 'sandbox could not be created, no '
                'exception in the result')
        return bad, None

    if mode in SH_MODES:
        code = spec.get('exit') or 0
        if ret != code:
            say('exit-code-wrong', 'exit status %s reported as %r'
                % (code, ret))
        exp_out = spec.get('out') or ''
        if spec.get('child'):
            view = _parse_env(out or '')
            got  = '\n'.join(l for l in (out or '').splitlines()
                             if not l.startswith(PFX))
            if got != exp_out:
                say('output-wrong', 'stdout %r, printed %r' % (got, exp_out))
        elif out != exp_out:
            say('output-wrong', 'stdout %r, printed %r' % (out, exp_out))
        if err != (spec.get('err') or ''):
            say('output-wrong', 'stderr %r, printed %r'
                % (err, spec.get('err') or ''))
        if val is not None:
            say('return-value-wrong', 'value %r from a command' % (val,))
        return bad, view

    failing = bool(spec.get('raise')) or spec.get('exit') is not None
    if failing:
        if ret == 0:
            say('failure-reported-as-success', 'payload failed, exit code 0')
        if val is not None:
            say('return-value-wrong', 'failed payload has value %r' % (val,))
        if spec.get('raise'):
            if not exc or not exc[0] or 'ValueError' not in str(exc[0]) or \
               spec['raise'] not in str(exc[0]):
                say('exception-not-recorded', 'ValueError(%r) not in %r'
                    % (spec['raise'], exc))
        elif not exc or not exc[0]:
            say('exception-not-recorded', 'sys.exit(%s) not in %r'
                % (spec['exit'], exc))
        if out is not None and out != (spec.get('out') or '') and \
                spec.get('raise'):
            say('output-wrong', 'stdout %r, printed %r'
                % (out, spec.get('out') or ''))
        if spec.get('raise') and \
                not (err or '').startswith(spec.get('err') or ''):
            say('output-wrong', 'stderr %r does not start with %r'
                % (err, spec.get('err')))
        return bad, view

    if ret != 0:
        say('success-reported-as-failure', 'payload returned, exit code %r, '
            'exception %r' % (ret, exc))
        return bad, view
    exp_val = spec.get('ret')
    if spec.get('child'):
        if not isinstance(val, dict) or 'view' not in val:
            say('return-value-wrong', 'value %r' % (val,))
            return bad, view
        view = val['view']
        val  = val.get('ret')
    if val != exp_val:
        say('return-value-wrong', 'returned %r, reported %r' % (exp_val, val))
    if out != (spec.get('out') or ''):
        say('output-wrong', 'stdout %r, printed %r' % (out, spec.get('out')))
    if err != (spec.get('err') or ''):
        say('output-wrong', 'stderr %r, printed %r' % (err, spec.get('err')))
    if exc and (exc[0] or exc[1]):
        say('exception-on-success', 'exception %r' % (exc,))
    return bad, view


# ------------------------------------------------------------------------------
# generators
#
VALUES = [0, 1, -7, 3.5, 'text', '', None, True, [1, 2, 3], {'k': [1, 'x']},
          {'a': {'b': None}}, 'line1\nline2']
TEXTS  = ['', 'hello\n', 'two\nlines\n', 'no newline', "quote ' and \" $X",
          'tab\tsep\n']
CLASSES = ['return', 'print', 'raise', 'exit', 'setenv', 'delenv', 'child',
           'swap', 'sleep']


def gen_spec(rng, cls, i, mode):
    spec = dict()
    if mode in PY_MODES:
        spec['ret'] = rng.choice(VALUES)
    if cls == 'print' or rng.random() < 0.25:
        spec['out'] = rng.choice(TEXTS)
        spec['err'] = rng.choice(TEXTS)
        if cls == 'print' and not spec['out'] and not spec['err']:
            spec['out'] = 'r%d out\n' % i
    if cls == 'raise':
        if mode in PY_MODES: spec['raise'] = 'boom-r%d' % i
        else               : spec['exit']  = rng.choice([1, 2, 7, 126, 255])
    if cls == 'exit':
        spec['exit'] = rng.choice([1, 3, 42])
    if cls == 'setenv' or (cls == 'child' and rng.random() < 0.35):
        spec['setenv'] = {rng.choice(KEYS): 'set_by_r%d' % i}
    if cls == 'delenv':
        spec['delenv'] = [rng.choice(['C20_BASE1', 'C20_BASE2'])]
    if cls == 'child':
        spec['child'] = True
        if mode in SH_MODES:
            spec.pop('out', None)
    if cls == 'swap':
        spec['swap'] = True
    if cls == 'sleep':
        spec['sleep'] = rng.choice([0.01, 0.03, 0.05])
    return spec


def gen_request(rng, i, modes=MODES, classes=CLASSES, weights=None):
    mode = rng.choice(modes)
    cls  = rng.choices(classes, weights=weights)[0] if weights \
           else rng.choice(classes)
    if mode in SH_MODES and cls in ('setenv', 'delenv', 'swap'):
        # a command cannot touch the worker: the request environment is the
        # only way such a request changes anything
        cls = 'child' if rng.random() < 0.5 else 'return'
    req = {'mode': mode, 'cls': cls, 'spec': gen_spec(rng, cls, i, mode),
           'environment': dict()}
    if rng.random() < 0.4:
        for k in rng.sample(KEYS, rng.randint(1, 2)):
            req['environment'][k] = 'env_of_r%d' % i
    if mode == 'exec' and rng.random() < 0.5:
        # the optional `pre_exec` statements of exec requests are part of the
        # request: what they print is its output, what they export is undone
        req['pre'] = rng.choice(['import', 'setenv', 'print'])
        req['pre_i'] = i
    return req


def changes_state(req):
    sp_ = req['spec']
    return bool(req['environment'] or sp_.get('setenv') or sp_.get('delenv')
                or sp_.get('swap') or sp_.get('out') or sp_.get('err'))


# ------------------------------------------------------------------------------
# part A: dispatcher sequences in one (forked) process
#
def make_plain_worker():

    w = PWorker.__new__(PWorker)
    w._log      = NullLog()
    w._prof     = NullProf()
    w._uid      = 'worker.0000'
    w._rank     = 0
    w._modes    = dict()
    w.register_mode(TASK_FUNC,  w._dispatch_func)
    w.register_mode(TASK_METH,  w._dispatch_meth)
    w.register_mode(TASK_EVAL,  w._dispatch_eval)
    w.register_mode(TASK_EXEC,  w._dispatch_exec)
    w.register_mode(TASK_PROC,  w._dispatch_proc)
    w.register_mode(TASK_SHELL, w._dispatch_shell)
    w._task_env = {k: v for k, v in os.environ.items()
                        if not k.startswith('RP_')}
    return w


def gen_dispatch_case(rng):
    k    = rng.randint(2, 5)
    reqs = list()
    w8   = [2, 2, 2, 1, 3, 1, 4, 1, 1]
    for i in range(k):
        reqs.append(gen_request(rng, i + 1, weights=w8))
    # bias: the scenario "r1 sets, r2 only looks, r3 sets and looks"
    r = rng.random()
    if r < 0.25 and k >= 3:
        for i, (cls, envd) in enumerate([('setenv', False), ('child', False),
                                         ('child', True)]):
            mode = rng.choice(PY_MODES)
            reqs[i] = {'mode': mode, 'cls': cls,
                       'spec': gen_spec(rng, cls, i + 1, mode),
                       'environment': {'C20_LEAK': 'env_of_r%d' % (i + 1)}
                                      if envd or (i == 0 and rng.random() < .5)
                                      else dict()}
            if cls == 'child':
                reqs[i]['spec'].pop('setenv', None)
    return {'requests': reqs}


def scripted_dispatch_case(mode):
    '''
    the scenario of DESIGN.md: r1 has LEAK=from_r1 in its environment, r2 sets
    nothing and spawns a child, r3 has its own LEAK=from_r3 and spawns a child
    '''
    def req(cls, env, **spec):
        d = {'ret': None}
        d.update(spec)
        return {'mode': mode, 'cls': cls, 'spec': d, 'environment': env}
    return {'scripted': True, 'requests': [
            req('return', {'C20_LEAK': 'from_r1'}),
            req('child',  {}, child=True),
            req('child',  {'C20_LEAK': 'from_r3'}, child=True),
            req('child',  {}, child=True)]}


def dispatch_sequence(case):
    '''
    runs in a forked child: returns {'violations': [...], 'counters': {...},
    'sets': {...}}.  Never raises.
    '''
    out = {'violations': list(), 'counters': Counter(), 'sets': defaultdict(set)}
    cnt = out['counters']

    for k, v in BASE.items():
        os.environ[k] = v
    for k in KEYS:
        if k not in BASE:
            os.environ.pop(k, None)

    w     = make_plain_worker()
    base  = _child_view()
    sbase = {k: v for k, v in w._task_env.items() if k.startswith(PFX)}
    if base != BASE or sbase != BASE:
        out['inconc'] = 'could not establish base environment: %s' % base
        return out

    inplace = list()         # observations explained by a not-in-place restore
    setters = dict()         # value -> request index which set it
    probe   = base           # what a new child of this process sees right now

    def viol(mech, msg, i):
        out['violations'].append({'mechanism': mech, 'message': msg,
                                  'at_request': i})

    for i, req in enumerate(case['requests'], 1):

        uid  = 'req.%04d' % i
        task = {'uid': uid, 'description': description(req, uid)}
        for v in list(req['environment'].values()) + \
                 list((req['spec'].get('setenv') or {}).values()):
            setters[v] = i

        b_env, b_out, b_err = dict(os.environ), sys.stdout, sys.stderr
        b_cwd, b_probe      = os.getcwd(), probe

        tup, raised = None, None
        try:
            disp = w.get_dispatcher(task['description']['mode'])
            if task['description']['mode'] in (TASK_FUNC, TASK_METH):
                tup = asyncio.run(disp(task))
            else:
                tup = disp(task)
        except BaseException as e:          # noqa: a payload may sys.exit
            raised = e

        a_env, a_out, a_err = dict(os.environ), sys.stdout, sys.stderr
        a_cwd = os.getcwd()
        # undo a missing stream restoration before anything else is printed
        sys.stdout, sys.stderr = b_out, b_err
        a_probe = probe = _child_view()

        cnt['dispatch_requests'] += 1
        out['sets']['dispatch_modes'].add(req['mode'])
        out['sets']['payload_classes'].add(req['cls'])

        # -- what was reported -------------------------------------------------
        view = None
        if raised is not None:
            if isinstance(raised, SystemExit) and \
                    req['spec'].get('exit') is not None and \
                    req['mode'] in PY_MODES:
                cnt['sys_exit_left_dispatcher'] += 1
            else:
                viol('dispatcher-raised', '%s %s: %r' % (req['mode'],
                                                          req['cls'], raised), i)
                break
        else:
            bad, view = judge_tuple(req, tup, None)
            cnt['tuples_checked'] += 1
            out['sets']['ret_codes'].add(str(tup[2]))
            if bad:
                viol(bad[0][0], bad[0][1], i)
                break

        # -- what the request's own child saw ---------------------------------
        if view is not None:
            exp = expected_view(base, req, sbase)
            cnt['child_views_checked'] += 1
            if i > 1:
                cnt['next_request_child_views'] += 1
            if view != exp:
                notes = list()
                for k in sorted(set(view) | set(exp)):
                    if view.get(k) == exp.get(k):
                        continue
                    who = setters.get(view.get(k))
                    own = k in exp and (k in req['environment'] or
                                  k in (req['spec'].get('setenv') or {}))
                    if own:
                        notes.append('child of request %d sees %s=%s%s instead '
                                     'of the request\'s own %s'
                                     % (i, k, view.get(k),
                                        ' (set by request %d)' % who
                                        if who is not None and who < i else '',
                                        exp[k]))
                    elif who is not None and who < i:
                        notes.append('child of request %d sees %s=%s which '
                                     'request %d set' % (i, k, view[k], who))
                    else:
                        notes.append('child of request %d sees %s=%s, '
                                     'expected %s' % (i, k, view.get(k),
                                                      exp.get(k)))
                if req['mode'] in SH_MODES:
                    viol('command-environment-wrong', '; '.join(notes), i)
                    break
                inplace += notes

        # -- restoration -------------------------------------------------------
        cnt['restorations_checked'] += 1
        if a_env != b_env:
            diff = {k: (b_env.get(k), a_env.get(k))
                    for k in set(a_env) | set(b_env)
                    if a_env.get(k) != b_env.get(k)}
            viol('environ-not-restored', 'os.environ differs after %s %s '
                 'request %d: %s' % (req['mode'], req['cls'], i, diff), i)
            break
        if a_out is not b_out or a_err is not b_err:
            viol('stdio-not-restored', 'sys.stdout/sys.stderr replaced after '
                 '%s %s request %d' % (req['mode'], req['cls'], i), i)
            break
        if a_cwd != b_cwd:
            viol('cwd-not-restored', '%s -> %s' % (b_cwd, a_cwd), i)
            break
        if a_probe != b_probe:
            inplace.append('a new child process sees %s after request %d (%s '
                           '%s), %s before it; os.environ compares equal and '
                           'is now a %s' % (a_probe, i, req['mode'],
                           req['cls'], b_probe, type(os.environ).__name__))

    if inplace and not out['violations']:
        viol('environ-restore-not-in-place', ' | '.join(inplace[:6]), 0)

    return out


def forked(fn, arg, timeout=WATCHDOG):
    '''run fn(arg) in a forked child; returns its json-able result or None'''

    rfd, wfd = os.pipe()
    sys.stdout.flush()
    sys.stderr.flush()
    pid = os.fork()
    if pid == 0:
        code = 0
        try:
            os.close(rfd)
            try:
                ret = fn(arg)
            except BaseException as e:        # noqa
                import traceback
                ret = {'crash': '%r\n%s' % (e, traceback.format_exc())}
            data = json.dumps(ret, default=_jdefault).encode()
            with os.fdopen(wfd, 'wb') as f:
                f.write(data)
        except BaseException:                 # noqa
            code = 3
        finally:
            os._exit(code)

    os.close(wfd)
    buf  = b''
    t0   = time.time()
    done = False
    os.set_blocking(rfd, False)
    import select
    while time.time() - t0 < timeout:
        r, _, _ = select.select([rfd], [], [], 0.5)
        if r:
            chunk = os.read(rfd, 1 << 16)
            if not chunk:
                done = True
                break
            buf += chunk
    os.close(rfd)
    if not done:
        try:
            os.kill(pid, signal.SIGKILL)
        except OSError:
            pass
    os.waitpid(pid, 0)
    if not done or not buf:
        return None
    return json.loads(buf.decode())


def _jdefault(o):
    if isinstance(o, (set, frozenset)):
        return sorted(o, key=repr)
    if isinstance(o, Counter):
        return dict(o)
    return repr(o)


def absorb(res, rep, case_repr):
    '''merge a child's report into the shard result; True if no violation'''
    if rep is None:
        res.inconc('forked case did not report (watchdog %ss)' % WATCHDOG)
        return False
    if 'crash' in rep:
        res.inconc('forked case crashed: %s' % rep['crash'][-300:])
        return False
    if rep.get('inconc'):
        res.inconc(rep['inconc'])
    for k, v in rep['counters'].items():
        res.count(k, v)
    for k, vs in rep['sets'].items():
        for v in vs:
            res.see(k, v)
    for v in rep['violations']:
        c = dict(case_repr)
        c['at_request'] = v.get('at_request')
        res.violation(v['mechanism'], v['message'], c)
    return not rep['violations']


def run_dispatch_case(case, res):
    rep = forked(dispatch_sequence, case)
    return absorb(res, rep, {'part': 'dispatch', 'case': case})


# ------------------------------------------------------------------------------
# master / worker construction (the idiom of the upstream unit tests)
#
class _MSession(object):
    '''the part of rp.Session the master uses; sandbox methods are the real ones'''

    _get_task_sandbox  = rp.Session._get_task_sandbox
    _get_pilot_sandbox = rp.Session._get_pilot_sandbox

    def __init__(self, reg, path):
        self.uid  = self._uid = 'rp.session.verif'
        self._reg = reg
        self.path = path

    def _get_logger(self, name, level=None, debug=None):
        return NullLog()

    def _get_profiler(self, name):
        return NullProf()


QUEUES  = [rpc.AGENT_STAGING_INPUT_QUEUE, rpc.AGENT_STAGING_OUTPUT_QUEUE]
PUBSUBS = [rpc.STATE_PUBSUB, rpc.CONTROL_PUBSUB]
REQ_URL = 'mem://raptor/req'
RES_URL = 'mem://raptor/res'


def fresh_net(seed, random_bulk=True):
    net = memzmq.install(memzmq.Net(seed=seed, mode='pumped',
                                    random_bulk=random_bulk))
    reg = memzmq.RegistryClient(url='mem://reg')
    for q in QUEUES:
        reg['bridges.%s' % q] = {'addr_put': 'mem://agent/%s' % q,
                                 'addr_get': 'mem://agent/%s' % q}
    for p in PUBSUBS:
        reg['bridges.%s' % p] = {'addr_pub': 'mem://agent/%s' % p,
                                 'addr_sub': 'mem://agent/%s' % p}
    return net, reg


def make_master(reg, workdir, uid='master.0000'):

    M = m_m.Master
    m = M.__new__(M)

    psbox = os.path.join(workdir, 'pilot.0000')
    m._uid        = uid
    m._pid        = 'pilot.0000'
    m._sid        = 'rp.session.verif'
    m._name       = uid
    m._sbox       = os.path.join(psbox, uid)
    m._psbox      = psbox
    m._ssbox      = workdir
    m._rsbox      = os.path.dirname(workdir)
    m._reg_addr   = 'mem://reg'
    m._workers    = dict()
    m._tasks      = dict()
    m._exec_tasks = list()
    m._term       = mt.Event()
    m._thread     = None
    m._session    = _MSession(reg, workdir)

    ccfg = ru.Config(from_dict={'uid': uid, 'sid': m._sid,
                                'owner': m._pid, 'reg_addr': m._reg_addr})
    m_comp.BaseComponent.__init__(m, ccfg, m._session)     # real base c'tor
    m._initialize()                                        # real: publishers

    m.register_output(rps.AGENT_STAGING_INPUT_PENDING,
                      rpc.AGENT_STAGING_INPUT_QUEUE)
    m.register_output(rps.AGENT_STAGING_OUTPUT_PENDING,
                      rpc.AGENT_STAGING_OUTPUT_QUEUE)

    m._req_put = ru.zmq.Putter('raptor_tasks', REQ_URL)
    m._task_service_data = dict()
    m._info    = {'req_addr_get': REQ_URL, 'res_addr_put': RES_URL,
                  'task_service': None}
    return m


class _FailingProcess(_real_mp.Process):
    def start(self):
        raise OSError(errno.EAGAIN, 'Resource temporarily unavailable '
                                    '(injected)')


class _MPProxy(object):
    '''`mp` of worker_default.py: records request processes, injects fork
    failures for poisoned uids; everything else is multiprocessing'''

    def __init__(self):
        self.procs  = list()          # (uid, Process)
        self.poison = set()
        self.lock   = mt.Lock()

    def Process(self, *args, **kwargs):
        a    = kwargs.get('args') or ()
        task = a[0] if a and isinstance(a[0], dict) and 'uid' in a[0] else None
        if task is not None and task['uid'] in self.poison:
            return _FailingProcess(*args, **kwargs)
        p = _real_mp.Process(*args, **kwargs)
        if task is not None:
            with self.lock:
                self.procs.append((task['uid'], p))
        return p

    def __getattr__(self, name):
        return getattr(_real_mp, name)


class _StopQueue(object):
    def get(self, *a, **kw):
        raise SystemExit()


def make_default_worker(sbox, n_cores, n_gpus):

    w = PDefaultWorker.__new__(PDefaultWorker)

    # DefaultWorker.__init__ (before super)
    w._res_evt   = _real_mp.Event()
    w._my_term   = mt.Event()
    # Worker.__init__
    w._manager   = True
    w._rank      = 0
    w._raptor_id = 'master.0000'
    w._reg_event = mt.Event()
    w._sbox      = sbox
    w._uid       = 'worker.0000'
    w._sid       = 'rp.session.verif'
    w._ranks     = 1
    w._log       = NullLog()
    w._prof      = NullProf()
    w._modes     = dict()
    w.register_mode(TASK_FUNC,  w._dispatch_func)
    w.register_mode(TASK_METH,  w._dispatch_meth)
    w.register_mode(TASK_EVAL,  w._dispatch_eval)
    w.register_mode(TASK_EXEC,  w._dispatch_exec)
    w.register_mode(TASK_PROC,  w._dispatch_proc)
    w.register_mode(TASK_SHELL, w._dispatch_shell)
    w._task_env  = {k: v for k, v in os.environ.items()
                         if not k.startswith('RP_')}
    # DefaultWorker.__init__ (after super)
    w._res_put   = ru.zmq.Putter('result', RES_URL)
    w._descr     = dict()
    w._n_cores   = n_cores
    w._n_gpus    = n_gpus
    w._rlock     = mt.Lock()
    w._resources = {'cores': [0] * n_cores, 'gpus': [0] * n_gpus}
    w._res_evt.set()
    w._pool      = dict()
    w._plock     = mt.Lock()
    w._result_queue  = _real_mp.Queue()
    w._result_thread = mt.Thread(target=w._result_watcher)
    w._result_thread.daemon = True
    # started by the caller, after the monitor is in place
    return w


# ------------------------------------------------------------------------------
# part B: worker streams
#
class _Abort(BaseException):
    pass


class WorkerMonitor(object):
    '''boundary recorder + ledger for one DefaultWorker instance'''

    def __init__(self, w, res):
        self.w        = w
        self.res      = res
        self.lock     = mt.Lock()
        self.live     = dict()         # uid -> slots (between alloc / dealloc)
        self.accepted = list()
        self.slots    = dict()
        self.deallocs = Counter()
        self.arrivals = Counter()      # results reaching _result_cb
        self.puts     = Counter()      # results put on the result queue
        self.put_data = dict()
        self.findings = list()         # (mechanism, message) found online
        self.max_live = 0
        self.pairs    = 0
        self.fails    = 0              # consecutive failed _alloc attempts
        self.attempts = 0
        self.success  = 0
        self.blocked  = None
        self.abort    = False
        self.sentinel = -1
        self.cb_errors = list()
        self.events   = list()

        r_alloc, r_dealloc = w._alloc, w._dealloc
        r_cb, r_put        = w._result_cb, w._res_put.put

        def alloc(task):
            if self.abort:
                raise _Abort()
            ok = r_alloc(task)
            with self.lock:
                self.attempts += 1
                if not ok:
                    self.fails  += 1
                    self.blocked = task['uid']
                    return ok
                self.fails, self.blocked = 0, None
                self.success += 1
                self._on_alloc(task)
            return ok

        def dealloc(task):
            with self.lock:
                uid = task['uid']
                self.deallocs[uid] += 1
                self.live.pop(uid, None)
                self.events.append(('dealloc', uid))
            return r_dealloc(task)

        def result_cb(result):
            if isinstance(result, list) and result and result[0] == SENT:
                self.sentinel = result[1]
                return
            with self.lock:
                uid = result[0]['uid']
                self.arrivals[uid] += 1
                self.events.append(('arrive', uid))
            try:
                return r_cb(result)
            except BaseException as e:         # noqa
                self.cb_errors.append((uid, repr(e)))
                raise

        def put(msgs, qname=None):
            with self.lock:
                for t in ru.as_list(msgs):
                    self.puts[t['uid']] += 1
                    self.put_data.setdefault(t['uid'], copy.deepcopy(t))
                    self.events.append(('result', t['uid']))
            return r_put(msgs, qname=qname)

        w._alloc, w._dealloc, w._result_cb = alloc, dealloc, result_cb
        w._res_put.put = put

    def snapshot(self):
        with self.lock:
            return (self.blocked, self.success, self.attempts)

    def _on_alloc(self, task):
        uid   = task['uid']
        slots = copy.deepcopy(task.get('slots'))
        self.accepted.append(uid)
        self.slots[uid] = slots
        self.events.append(('alloc', uid, slots))
        w = self.w
        try:
            cores, gpus = slots[0]['cores'], slots[0]['gpus']
            ok = len(slots) == 1 and \
                 len(cores) == task.get('cores', 1) == len(set(cores)) and \
                 len(gpus)  == task.get('gpus',  0) == len(set(gpus))  and \
                 all(0 <= c < w._n_cores for c in cores) and \
                 all(0 <= g < w._n_gpus  for g in gpus)
        except Exception:
            ok, cores, gpus = False, [], []
        if not ok:
            self.findings.append(('slot-shape', '%s asked %s cores %s gpus, '
                                  'got %s' % (uid, task.get('cores'),
                                              task.get('gpus'), slots)))
        for other, oslots in self.live.items():
            self.pairs += 1
            oc, og = oslots[0]['cores'], oslots[0]['gpus']
            if set(oc) & set(cores):
                self.findings.append(('core-double-booked', 'cores %s given '
                    'to %s while %s holds %s' % (cores, uid, other, oc)))
            if set(og) & set(gpus):
                self.findings.append(('gpu-double-booked', 'gpus %s given '
                    'to %s while %s holds %s' % (gpus, uid, other, og)))
        if uid in self.live:
            self.findings.append(('request-allocated-twice', uid))
        self.live[uid] = slots
        self.max_live  = max(self.max_live, len(self.live))


TIMEOUT_ERR = 'TimeoutError'


def gen_worker_case(rng):

    n_cores = rng.choice([1, 2, 3, 4, 4, 6, 8])
    n_gpus  = rng.choice([0, 0, 1, 2, 3])
    n       = rng.randint(3, 10)
    reqs    = list()
    classes = ['return', 'print', 'raise', 'exit', 'setenv', 'child',
               'timeout', 'sleep', 'linger']
    weights = [4, 2, 3, 0.7, 1, 2, 1.3, 3, 0.8]
    n_tout  = 0
    for i in range(n):
        mode = rng.choice(MODES)
        cls  = rng.choices(classes, weights=weights)[0]
        if cls == 'timeout' and (mode in SH_MODES or n_tout >= 2):
            cls = 'sleep'
        if mode in SH_MODES and cls == 'setenv':
            cls = 'child'
        bad_sbox = False
        if rng.random() < 0.05:
            # the request's sandbox cannot be created (its parent is a file)
            cls, bad_sbox = 'return', True
        if cls == 'linger' and (mode not in PY_MODES or n_tout >= 2
                                or mode not in ('func', 'meth')):
            cls = 'sleep'
        if cls == 'linger':
            # runs into its time limit, traps the SIGTERM and keeps running
            # on its cores for a moment
            n_tout += 1
            spec = {'linger': rng.choice([0.2, 0.35, 0.5]), 'ret': i + 1}
            tout = rng.choice([0.15, 0.25])
        elif cls == 'timeout':
            n_tout += 1
            spec = {'sleep': 600}
            tout = rng.choice([0.15, 0.25, 0.4])
        else:
            spec = gen_spec(rng, cls, i + 1, mode)
            spec['sleep'] = rng.choice([0, 0.01, 0.02, 0.04, 0.07, 0.1])
            tout = rng.choice([0, 0, 120])
        edge  = rng.random()
        cores = n_cores if edge < 0.12 else \
                rng.randint(1, n_cores) if edge < 0.45 else \
                rng.randint(1, max(1, n_cores // 3))
        gpus  = n_gpus  if edge < 0.08 else \
                rng.randint(0, n_gpus) if edge < 0.45 else \
                rng.choice([0, 0, min(1, n_gpus)])
        req = {'uid': 'req.%04d' % i, 'mode': mode, 'cls': cls, 'spec': spec,
               'timeout': tout, 'cores': cores, 'gpus': gpus,
               'environment': dict(), 'poison': False,
               'bad_sandbox': bad_sbox}
        if rng.random() < 0.3:
            req['environment'][rng.choice(KEYS)] = 'env_of_r%d' % (i + 1)
        if rng.random() < 0.06:
            req['poison'] = True
        reqs.append(req)
    # partition into bulks
    bulks, i = list(), 0
    while i < n:
        k = rng.choice([1, 1, 2, 3, n])
        bulks.append([r['uid'] for r in reqs[i:i + k]])
        i += k
    case = {'n_cores': n_cores, 'n_gpus': n_gpus, 'requests': reqs,
            'bulks': bulks, 'seed': rng.randint(0, 2 ** 30)}
    # the agent's executor exports the node GPUs the worker was placed on:
    # unset (no GPUs), the identity (0..n-1), or any other subset of the node
    case['cuda_visible'] = None
    if n_gpus and case['seed'] % 3:
        first = 1 + case['seed'] % 4
        step  = 1 + (case['seed'] >> 3) % 2
        devs  = [first + step * i for i in range(n_gpus)]
        if (case['seed'] >> 5) % 2:
            devs.reverse()
        case['cuda_visible'] = ','.join(str(d) for d in devs)
    return case


def request_task(req):
    return {'uid'        : req['uid'],
            'type'       : 'task',
            'state'      : rps.AGENT_SCHEDULING_PENDING,
            'origin'     : 'raptor',
            'pilot'      : 'pilot.0000',
            'cores'      : req['cores'],
            'gpus'       : req['gpus'],
            'description': description(req, req['uid'])}


def expected_outcome(req):
    if req['poison']                      : return 'dispatch-error'
    if req.get('bad_sandbox')             : return 'raise'
    if req['cls'] in ('timeout', 'linger'): return 'timeout'
    if req['spec'].get('raise')           : return 'raise'
    if req['spec'].get('exit') is not None:
        return 'exit' if req['mode'] in PY_MODES else 'raise'
    return 'return'


class WorkerRig(object):
    '''master + worker + monitor over one in-memory net'''

    def __init__(self, workdir, n_cores, n_gpus, seed, res):
        self.workdir = workdir
        self.net, self.reg = fresh_net(seed)
        self.master = make_master(self.reg, workdir)
        self.mp     = _MPProxy()
        m_wd.mp     = self.mp
        sbox = os.path.join(workdir, 'pilot.0000', 'worker.0000')
        os.makedirs(sbox, exist_ok=True)
        self.w   = make_default_worker(sbox, n_cores, n_gpus)
        self.mon = WorkerMonitor(self.w, res)
        self.w._result_thread.start()
        self.staged    = list()      # tasks the master pushed to output staging
        self.n_sent    = 0
        self.t_progress = time.time()

    # -- master side ---------------------------------------------------------
    def pump_results(self):
        n = 0
        while True:
            msgs = self.net.q_get(RES_URL, 'default', who='driver')
            if not msgs:
                break
            self.master._result_cb(msgs)
            n += len(msgs)
        for q in (rpc.AGENT_STAGING_OUTPUT_QUEUE,):
            while True:
                got = self.net.q_get('mem://agent/%s' % q, 'default',
                                     who='driver')
                if not got:
                    break
                self.staged.extend(got)
        return n

    # -- logical quiescence ---------------------------------------------------
    def procs_alive(self):
        with self.mp.lock:
            procs = list(self.mp.procs)
        return [(u, p) for u, p in procs
                if p._popen is not None and p.exitcode is None]

    def flush_watcher(self, timeout=WATCHDOG):
        '''all results written so far have passed _result_cb when this returns
        True (FIFO pipe, single reader)'''
        self.n_sent += 1
        self.w._result_queue.put([SENT, self.n_sent])
        t0 = time.time()
        while self.mon.sentinel < self.n_sent:
            if not self.w._result_thread.is_alive():
                return False
            if time.time() - t0 > timeout:
                return None
            time.sleep(0.002)
        return True

    def close(self):
        for u, p in self.procs_alive():
            try:
                p.kill()
            except Exception:
                pass
        with self.mp.lock:
            procs = list(self.mp.procs)
        for u, p in procs:
            if p._popen is not None:
                p.join(timeout=5)
        self.w._result_queue_real = self.w._result_queue
        self.w._result_queue = _StopQueue()
        self.w._result_thread.join(timeout=2)
        try:
            self.w._result_queue_real.close()
            self.w._result_queue_real.cancel_join_thread()
        except Exception:
            pass
        m_wd.mp = _real_mp
        self.net.close()
        memzmq.uninstall()


STUCK_AFTER_END = 12.0     # seconds (payload's own clock vs. ours, monotonic)


def _trace_ends(case):
    path = None
    for r in case['requests']:
        if isinstance(r.get('spec'), dict) and r['spec'].get('trace'):
            path = r['spec']['trace']
            break
    out = dict()
    if not path:
        return out
    try:
        with open(path) as fin:
            for line in fin:
                parts = line.split()
                if len(parts) == 3 and parts[0] == 'end':
                    out[parts[1]] = float(parts[2])
    except OSError:
        pass
    return out


def run_stream(rig, case, res, watchdog=None):
    '''
    feed the bulks through master.submit_tasks -> worker._request_cb (driver
    thread), results back through master._result_cb (this thread).  Returns a
    status string: 'quiescent' | 'stuck' | 'watcher-died' | 'watchdog'.
    '''
    reqs = {r['uid']: r for r in case['requests']}
    mon  = rig.mon
    rig.mp.poison = {u for u, r in reqs.items() if r['poison']}
    state = {'done': False, 'error': None}

    def driver():
        try:
            for bulk in case['bulks']:
                rig.master.submit_tasks([request_task(reqs[u]) for u in bulk])
                while True:
                    msgs = rig.net.q_get(REQ_URL, 'default', who='worker')
                    if not msgs:
                        break
                    rig.w._request_cb(msgs)
        except _Abort:
            state['error'] = 'aborted'
        except BaseException as e:             # noqa
            import traceback
            state['error'] = '%r\n%s' % (e, traceback.format_exc())
        finally:
            state['done'] = True

    th = mt.Thread(target=driver, daemon=True, name='c20-driver')
    th.start()

    t0      = time.time()
    status  = None
    limit   = watchdog or WATCHDOG
    probe   = None     # (blocked uid, successes, attempts) when all had drained
    while True:
        rig.pump_results()
        if not rig.w._result_thread.is_alive():
            status = 'watcher-died'
            break

        # NOTE: the order of the reads matters.  `done` first: if the driver
        # had ended, the list of request processes is complete.
        done  = state['done']
        snap  = mon.snapshot()
        alive = rig.procs_alive()

        if done and not alive:
            status = 'quiescent'
            break

        if not done and snap[0] and not alive:
            # The driver waited for resources (as of `snap`) and no request
            # process exists now.  If no _alloc succeeded since `snap`, no
            # process was started since, so every result is in the pipe: have
            # them processed, then give the same request three more attempts.
            if probe is None:
                fl = rig.flush_watcher()
                if fl is None:
                    status = 'watchdog'
                    break
                if fl is False:
                    status = 'watcher-died'
                    break
                now = mon.snapshot()
                if now[:2] == snap[:2] and not rig.procs_alive():
                    probe = now
            else:
                now = mon.snapshot()
                if now[:2] != probe[:2]:
                    probe = None
                elif now[2] >= probe[2] + 3:
                    status = 'stuck'
                    break
        else:
            probe = None

        if time.time() - t0 > limit:
            status = 'watchdog'
            break

        # payload-side evidence: a request whose payload has *ended* (its own
        # record) long ago, while its request process still exists and no
        # result came, is stuck - not slow
        if alive and time.time() - state.get('trace_read', 0) > 1.0:
            state['trace_read'] = time.time()
            ended = _trace_ends(case)
            now_m = time.monotonic()
            for u, _p in alive:
                if u in ended and now_m - ended[u] > STUCK_AFTER_END and \
                        mon.puts[u] == 0:
                    state['stuck_uid'] = u
                    status = 'payload-ended-request-stuck'
                    break
            if status:
                break
        time.sleep(0.003)

    if status != 'quiescent':
        mon.abort = True
        th.join(timeout=5)
    else:
        th.join(timeout=5)
        fl = rig.flush_watcher()
        if fl is None:
            status = 'watchdog'
        elif fl is False:
            status = 'watcher-died'
    rig.pump_results()
    if state['error'] and state['error'] != 'aborted':
        mon.findings.append(('request-cb-raised', state['error'][-600:]))
    return status


def judge_worker(rig, case, res, status, part='worker'):

    mon  = rig.mon
    reqs = {r['uid']: r for r in case['requests']}
    ctx  = {'part': part, 'case': case, 'status': status,
            'events': mon.events[-120:], 'cb_errors': mon.cb_errors,
            'resources': copy.deepcopy(rig.w._resources)}

    def viol(mech, msg):
        res.violation(mech, msg, ctx)
        return False

    res.see('worker_status', status)
    res.count('live_pairs_checked', mon.pairs)

    if status == 'payload-ended-request-stuck':
        stuck = [u for u, _ in rig.procs_alive()]
        return viol('request-stuck-after-payload-ended',
                    'the payload of %s recorded its own end more than %d s ago, '
                    'but the request process still exists and no result was '
                    'reported: its cores/GPUs are never given back (%s)'
                    % (stuck, STUCK_AFTER_END,
                       {u: (reqs[u]['mode'], reqs[u]['cls'])
                        for u in stuck if u in reqs}))

    if status == 'watchdog':
        res.inconc('worker stream did not settle within %ds (live processes: '
                   '%s)' % (WATCHDOG, [u for u, _ in rig.procs_alive()]))
        return False

    for mech, msg in mon.findings:
        return viol(mech, msg)

    if mon.cb_errors:
        uid, err = mon.cb_errors[0]
        if mon.arrivals[uid] > 1:
            cls = reqs[uid]['cls'] if uid in reqs else '?'
            return viol('result-produced-twice/%s' % cls, '%s: %d results '
                        'reached _result_cb, the second raised %s and ended '
                        'the result watcher' % (uid, mon.arrivals[uid], err))
        return viol('result-cb-raised', '%s: %s' % (uid, err))

    if status == 'watcher-died':
        return viol('result-watcher-died', 'result watcher thread ended')

    # -- accounting at (logical) quiescence or in a proven dead end -----------
    accepted = Counter(mon.accepted)
    for uid, n in accepted.items():
        req = reqs[uid]
        cls = expected_outcome(req)
        res.count('worker_requests_accounted')
        if n != 1:
            return viol('request-allocated-twice', '%s: %d' % (uid, n))
        if mon.puts[uid] == 0:
            return viol('result-lost/%s' % cls, '%s (%s %s, %d cores %d gpus) '
                        'was accepted, its process is gone, no result was '
                        'reported; deallocations: %d; _resources %s'
                        % (uid, req['mode'], req['cls'], req['cores'],
                           req['gpus'], mon.deallocs[uid], rig.w._resources))
        if mon.puts[uid] > 1:
            return viol('result-reported-twice/%s' % cls, '%s: %d results'
                        % (uid, mon.puts[uid]))
        if mon.deallocs[uid] == 0:
            return viol('resources-not-released/%s' % cls, '%s (%s) reported '
                        'its result but was never deallocated; _resources %s'
                        % (uid, req['cls'], rig.w._resources))
        if mon.deallocs[uid] > 1:
            return viol('resources-released-twice/%s' % cls, '%s: %d'
                        % (uid, mon.deallocs[uid]))

    if status == 'stuck':
        return viol('worker-stuck', 'request %s waits for resources although '
                    'no request runs; live by ledger: %s; _resources %s'
                    % (mon.blocked, sorted(mon.live), rig.w._resources))

    res.count('worker_quiescent_points')
    if any(rig.w._resources['cores']) or any(rig.w._resources['gpus']):
        return viol('resources-nonzero-at-quiescence', '%s'
                    % rig.w._resources)
    if mon.live:
        return viol('ledger-nonzero-at-quiescence', '%s' % mon.live)
    if set(accepted) != set(reqs):
        return viol('request-not-accepted', '%s'
                    % sorted(set(reqs) - set(accepted)))

    # -- content of the results, master side -----------------------------------
    staged = defaultdict(list)
    for t in rig.staged:
        staged[t['uid']].append(t)

    for uid, req in reqs.items():
        t   = mon.put_data[uid]
        cls = expected_outcome(req)
        res.see('worker_outcomes', cls)
        res.see('payload_classes_worker', req['cls'])
        res.see('worker_modes', req['mode'])
        ec  = t.get('exit_code')

        if t.get('slots') != mon.slots[uid]:
            return viol('result-slots-differ', '%s: %s vs %s'
                        % (uid, t.get('slots'), mon.slots[uid]))

        if cls == 'dispatch-error':
            if not t.get('exception') or ec == 0:
                return viol('dispatch-error-not-reported', '%s: %s'
                            % (uid, {k: t.get(k) for k in
                                     ('exit_code', 'exception')}))
        elif cls == 'timeout':
            if ec in (0, None) or TIMEOUT_ERR not in str(t.get('exception')):
                return viol('timeout-not-reported', '%s: exit %r exception %r'
                            % (uid, ec, t.get('exception')))
        else:
            tup = (t.get('stdout'), t.get('stderr'), ec,
                   t.get('return_value'),
                   (t.get('exception'), t.get('exception_detail')))
            bad, view = judge_tuple(req, tup, None)
            res.count('worker_results_checked')
            if bad:
                return viol('worker/' + bad[0][0], '%s: %s' % (uid, bad[0][1]))
            if view is not None:
                exp = expected_view(BASE, req, BASE)
                res.count('worker_child_views_checked')
                if view != exp:
                    return viol('worker/child-environment-wrong',
                                '%s: child saw %s, expected %s'
                                % (uid, view, exp))

        # master: exactly one advance, target state by reported exit code
        res.count('master_advances_checked')
        adv = staged.get(uid, [])
        if len(adv) != 1:
            return viol('request-advanced-%d-times' % len(adv), '%s' % uid)
        a   = adv[0]
        exp = rps.DONE if ec is not None and int(ec) == 0 else rps.FAILED
        res.see('target_states', '%s/%s' % (a.get('target_state'),
                                            'zero' if exp == rps.DONE else 'nonzero'))
        if a.get('state') != rps.AGENT_STAGING_OUTPUT_PENDING:
            return viol('advance-state-wrong', '%s: %s' % (uid, a.get('state')))
        if a.get('target_state') != exp:
            return viol('target-state-wrong', '%s: reported exit code %r, '
                        'target state %s' % (uid, ec, a.get('target_state')))
    extra = set(staged) - set(reqs)
    if extra:
        return viol('unknown-request-advanced', '%s' % sorted(extra))
    return True


def judge_activity(rig, case, res, trace):
    '''
    what the payloads themselves recorded: two requests which were given a
    common core or GPU must not have been running at the same time - a request
    runs until its payload has ended, not until the worker says so
    '''
    ev = dict()
    try:
        with open(trace) as fin:
            for line in fin:
                parts = line.split()
                if len(parts) == 3:
                    ev.setdefault(parts[1], dict()).setdefault(parts[0],
                                                               float(parts[2]))
    except OSError:
        return True
    spans = {u: (d['start'], d['end']) for u, d in ev.items()
             if 'start' in d and 'end' in d}
    res.count('payload_activity_spans', len(spans))
    slots = rig.mon.slots
    uids  = sorted(spans)
    for i, a in enumerate(uids):
        for b in uids[i + 1:]:
            if a not in slots or b not in slots or \
                    not slots[a] or not slots[b]:
                continue
            common_c = set(slots[a][0]['cores']) & set(slots[b][0]['cores'])
            common_g = set(slots[a][0]['gpus'])  & set(slots[b][0]['gpus'])
            if not common_c and not common_g:
                continue
            res.count('activity_pairs_checked')
            (a0, a1), (b0, b1) = spans[a], spans[b]
            overlap = min(a1, b1) - max(a0, b0)
            if overlap > 0.02:
                what = 'cores %s' % sorted(common_c) if common_c else \
                       'gpus %s' % sorted(common_g)
                res.violation('requests-run-on-same-resource',
                              '%s and %s were both running for %.2f s on %s '
                              '(payload-side clocks: %s [%.3f, %.3f], %s '
                              '[%.3f, %.3f])' % (a, b, overlap, what, a, a0, a1,
                                                 b, b0, b1),
                              {'part': 'worker', 'case': case,
                               'slots': {a: slots[a], b: slots[b]}})
                return False
    return True


def run_worker_case(case, res, workdir):

    wd = os.path.join(workdir, 'wk')
    shutil.rmtree(wd, ignore_errors=True)
    os.makedirs(wd)
    saved_cvd = os.environ.get('CUDA_VISIBLE_DEVICES')
    if case.get('cuda_visible'):
        os.environ['CUDA_VISIBLE_DEVICES'] = case['cuda_visible']
        res.count('worker_cases_with_device_subset')
    else:
        os.environ.pop('CUDA_VISIBLE_DEVICES', None)
    rig = WorkerRig(wd, case['n_cores'], case['n_gpus'], case['seed'], res)
    trace = os.path.join(wd, 'payload.trace')
    with open(os.path.join(wd, 'c20_blocker'), 'w') as fout:
        fout.write('a regular file where a directory is wanted\n')
    for r in case['requests']:
        if r.get('bad_sandbox'):
            r['sandbox'] = os.path.join(wd, 'c20_blocker', 'sub', r['uid'])
            res.count('unusable_sandboxes')
        if isinstance(r.get('spec'), dict):
            r['spec']['trace'] = trace
            r['spec']['tag']   = r['uid']
    try:
        status = run_stream(rig, case, res)
        ok     = judge_worker(rig, case, res, status)
        if ok is not False:
            ok = judge_activity(rig, case, res, trace) and ok
        return ok, rig.mon.max_live
    finally:
        rig.close()
        if saved_cvd is None:
            os.environ.pop('CUDA_VISIBLE_DEVICES', None)
        else:
            os.environ['CUDA_VISIBLE_DEVICES'] = saved_cvd
        os.chdir(workdir)
        shutil.rmtree(wd, ignore_errors=True)


# ------------------------------------------------------------------------------
# part B': a timeout racing the completion (labelled stress workload)
#
def _wchans(pid):
    out = list()
    try:
        for tid in sorted(os.listdir('/proc/%d/task' % pid)):
            with open('/proc/%d/task/%s/wchan' % (pid, tid)) as fin:
                out.append(fin.read().strip() or 'running')
    except Exception as e:
        out.append(repr(e))
    return ','.join(out)


def run_race(res, workdir, rng, trials):
    '''
    staircase on the margin between payload duration and timeout, so that the
    two outcomes alternate; either outcome is fine, the accounting must hold.
    '''
    wd = os.path.join(workdir, 'race')
    margin, step = 0.012, 0.004
    rig = None
    i   = 0
    try:
        while i < trials:
            if rig is None:
                shutil.rmtree(wd, ignore_errors=True)
                os.makedirs(wd)
                rig = WorkerRig(wd, 2, 0, rng.randint(0, 2 ** 30), res)
            dur  = rng.choice([0.02, 0.03, 0.05])
            tout = round(dur + max(0.0, margin), 5)
            mode = rng.choice(['eval', 'func', 'exec'])
            req  = {'uid': 'race.%04d' % i, 'mode': mode, 'cls': 'race',
                    'spec': {'sleep': dur, 'ret': i}, 'timeout': tout,
                    'cores': 1, 'gpus': 0, 'environment': dict(),
                    'poison': False}
            case = {'n_cores': 2, 'n_gpus': 0, 'requests': [req],
                    'bulks': [[req['uid']]], 'seed': 0, 'margin': margin}
            i += 1
            # a fresh monitor view per trial
            mon = rig.mon
            n_before = len(mon.accepted)
            rig.staged = list()
            status = run_stream(rig, case, res, watchdog=RACE_WATCHDOG)
            res.count('race_trials')
            res.evaluations += 1

            uid = req['uid']
            ctx = {'part': 'race', 'case': case, 'status': status,
                   'events': mon.events[-12:], 'cb_errors': mon.cb_errors}
            bad = None
            if status == 'watchdog':
                # not decidable without the clock: say what is seen
                what = list()
                for u, p in rig.procs_alive():
                    what.append('request process of %s alive (threads wait '
                                'in: %s), results of %s delivered so far: %d'
                                % (u, _wchans(p.pid), u, mon.puts[u]))
                res.inconc('race trial did not settle within %ds: %s'
                           % (RACE_WATCHDOG, '; '.join(what) or
                              'no request process alive'))
                bad = 'inconc'
            elif mon.cb_errors and mon.arrivals[uid] > 1:
                bad = ('timeout-race-result-produced-twice', '%s (%.1f ms '
                       'payload, timeout %.1f ms): %d results reached '
                       '_result_cb; the second raised %s, which ends the '
                       'result watcher thread: no later request is ever '
                       'completed or deallocated'
                       % (uid, dur * 1e3, tout * 1e3, mon.arrivals[uid],
                          mon.cb_errors[0][1]))
            elif mon.cb_errors or status == 'watcher-died':
                bad = ('timeout-race-watcher-died', '%s: %s' % (uid,
                                                                mon.cb_errors))
            elif mon.puts[uid] != 1:
                bad = ('timeout-race-result-count', '%s: %d results'
                       % (uid, mon.puts[uid]))
            elif mon.deallocs[uid] != 1:
                bad = ('timeout-race-dealloc-count', '%s: %d deallocations'
                       % (uid, mon.deallocs[uid]))
            elif any(rig.w._resources['cores']):
                bad = ('timeout-race-resources-held', '%s'
                       % rig.w._resources)
            elif len([t for t in rig.staged if t['uid'] == uid]) != 1:
                bad = ('timeout-race-advance-count', '%s: %d advances' % (uid,
                       len([t for t in rig.staged if t['uid'] == uid])))

            if bad == 'inconc':
                rig.close(); rig = None
                break
            if bad:
                res.violation(bad[0], bad[1], ctx)
                rig.close(); rig = None
                break

            ec = mon.put_data[uid].get('exit_code')
            if ec == 0:
                res.count('race_outcome_completed')
                margin -= step
            else:
                res.count('race_outcome_timeout')
                margin += step
            res.see('race_margins_ms', round(margin * 1e3))
            res.digests.add(digest(['race', round(margin * 1e3), ec == 0]))
    finally:
        if rig is not None:
            rig.close()
        os.chdir(workdir)
        shutil.rmtree(wd, ignore_errors=True)


# ------------------------------------------------------------------------------
# part C: master routing and result mapping (no processes)
#
ALL_RP_MODES = [TASK_EXECUTABLE, TASK_FUNC, TASK_METH, TASK_EVAL, TASK_EXEC,
                TASK_PROC, TASK_SHELL]
EXIT_CODES   = [0, 0, 0, 1, 2, 127, 255, -1, -9, 'missing', None]


def gen_master_case(rng):
    n     = rng.randint(4, 14)
    tasks = list()
    for i in range(n):
        mode = rng.choice(ALL_RP_MODES + [TASK_EXECUTABLE])
        tasks.append({'uid'    : 'task.%04d' % i,
                      'mode'   : mode,
                      'entry'  : rng.choice(['scheduler', 'scheduler', 'api',
                                             'internal']),
                      'sandbox': rng.choice(['', '', 'sub', '/abs/path']),
                      'exit'   : rng.choice(EXIT_CODES),
                      'report' : rng.choice(['once', 'once', 'once', 'never'])})
    # executable tasks which ran in the agent come back as state updates
    updates = list()
    for i in range(rng.randint(0, 3)):
        updates.append({'uid'  : 'exe.%04d' % i,
                        'mode' : rng.choice([TASK_EXECUTABLE, RAPTOR_WORKER]),
                        'target_state': rng.choice([rps.DONE, rps.FAILED,
                                                    rps.CANCELED]),
                        'exit' : rng.choice([0, 1]),
                        # how the request was addressed: to nobody (the master
                        # submitted it itself), to this master, to any master
                        'raptor_id': [None, '', 'own', '*'][
                                       (i + n + len(tasks[0]['sandbox'])) % 4]})
    return {'tasks': tasks, 'updates': updates, 'seed': rng.randint(0, 2 ** 30),
            'bulk': rng.choice([1, 2, 3, 99])}


def master_task(t):
    d = {'uid': t['uid'], 'mode': t['mode'], 'ranks': 1, 'cores_per_rank': 1,
         'gpus_per_rank': 0.0, 'sandbox': t['sandbox'], 'environment': dict(),
         'executable': '/bin/true', 'arguments': list(), 'timeout': 0}
    return {'uid': t['uid'], 'type': 'task', 'origin': 'client',
            'state': rps.AGENT_SCHEDULING, 'pilot': 'pilot.0000',
            'description': d}


def run_master_case(case, res, workdir):

    import random
    rng = random.Random(case['seed'])
    net, reg = fresh_net(case['seed'])
    ctx = {'part': 'master', 'case': case}

    def viol(mech, msg):
        res.violation(mech, msg, ctx)
        return False

    def drain(url):
        out = list()
        while True:
            got = net.q_get(url, 'default', who='driver')
            if not got:
                return out
            out.extend(got)

    try:
        m  = make_master(reg, workdir)
        ts = {t['uid']: t for t in case['tasks']}

        # -- routing ------------------------------------------------------------
        order = list(case['tasks'])
        i = 0
        while i < len(order):
            k     = case['bulk']
            entry = order[i]['entry']
            bulk  = list()
            while i < len(order) and len(bulk) < k and \
                    order[i]['entry'] == entry:
                bulk.append(master_task(order[i]))
                i += 1
            if   entry == 'scheduler': m._request_cb(bulk)
            elif entry == 'api'      : m.submit_tasks(bulk)
            else                     : m._submit_tasks(bulk)

        to_req   = drain(REQ_URL)
        to_stage = drain('mem://agent/%s' % rpc.AGENT_STAGING_INPUT_QUEUE)
        early    = drain('mem://agent/%s' % rpc.AGENT_STAGING_OUTPUT_QUEUE)
        if early:
            return viol('advanced-before-result', '%s'
                        % [t['uid'] for t in early])
        n_req   = Counter(t['uid'] for t in to_req)
        n_stage = Counter(t['uid'] for t in to_stage)

        for uid, t in ts.items():
            res.count('master_routes_checked')
            res.see('routed_modes', '%s/%s' % (t['mode'], t['entry']))
            if t['mode'] == TASK_EXECUTABLE:
                if n_req[uid]:
                    return viol('executable-request-sent-to-workers', uid)
                if n_stage[uid] != 1:
                    return viol('executable-request-staged-%d-times'
                                % n_stage[uid], uid)
                got = [x for x in to_stage if x['uid'] == uid][0]
                if got.get('state') != rps.AGENT_STAGING_INPUT_PENDING:
                    return viol('executable-request-state-wrong', '%s: %s'
                                % (uid, got.get('state')))
                if t['entry'] == 'scheduler' and not got.get('raptor_seen'):
                    return viol('raptor-seen-missing', '%s came from the '
                                'scheduler and goes back without raptor_seen'
                                % uid)
            else:
                if n_stage[uid]:
                    return viol('function-request-sent-to-executor', '%s (%s) '
                                'was pushed to agent input staging'
                                % (uid, t['mode']))
                if n_req[uid] != 1:
                    return viol('function-request-dispatched-%d-times'
                                % n_req[uid], '%s (%s)' % (uid, t['mode']))
                got = [x for x in to_req if x['uid'] == uid][0]
                if not got.get('task_sandbox_path'):
                    return viol('request-without-sandbox', uid)

        # -- results ------------------------------------------------------------
        results = list()
        for got in to_req:
            t = ts[got['uid']]
            if t['report'] == 'never':
                continue
            r = copy.deepcopy(got)
            if t['exit'] != 'missing':
                r['exit_code'] = t['exit']
            r['stdout'] = 'out'
            r['return_value'] = None
            results.append(r)
        rng.shuffle(results)
        i = 0
        while i < len(results):
            k = rng.randint(1, 3)
            try:
                m._result_cb(copy.deepcopy(results[i:i + k]))
            except Exception as e:
                return viol('master-result-cb-raised', 'the results %s were '
                            'dropped: _result_cb raised %r'
                            % ([(r['uid'], r.get('exit_code', 'missing'))
                                for r in results[i:i + k]], e))
            i += k

        # state updates for tasks the agent executed for this master
        upd = list()
        for u in case['updates']:
            t = master_task({'uid': u['uid'], 'mode': u['mode'],
                             'sandbox': ''})
            rid = u.get('raptor_id')
            if rid is not None:
                t['description']['raptor_id'] = m._uid if rid == 'own' else rid
            res.see('update_raptor_ids', str(rid))
            t['target_state'] = u['target_state']
            t['exit_code']    = u['exit']
            t['state']        = rps.AGENT_STAGING_OUTPUT_PENDING
            upd.append(t)
        if upd:
            m._state_cb(rpc.STATE_PUBSUB, {'cmd': 'raptor_state_update',
                                           'arg': copy.deepcopy(upd)})

        staged = drain('mem://agent/%s' % rpc.AGENT_STAGING_OUTPUT_QUEUE)
        n_adv  = Counter(t['uid'] for t in staged)
        late   = drain(REQ_URL) + \
                 drain('mem://agent/%s' % rpc.AGENT_STAGING_INPUT_QUEUE)
        if late:
            return viol('result-routed-as-request', '%s'
                        % [t['uid'] for t in late])

        for r in results:
            uid = r['uid']
            res.count('master_advances_checked')
            if n_adv[uid] != 1:
                return viol('request-advanced-%d-times' % n_adv[uid], uid)
            a   = [x for x in staged if x['uid'] == uid][0]
            ec  = r.get('exit_code')
            exp = rps.DONE if ec == 0 else rps.FAILED
            res.see('exit_codes_mapped', '%r->%s' % (ts[uid]['exit'],
                                                     a.get('target_state')))
            if a.get('state') != rps.AGENT_STAGING_OUTPUT_PENDING:
                return viol('advance-state-wrong', '%s: %s'
                            % (uid, a.get('state')))
            if a.get('target_state') != exp:
                return viol('target-state-wrong', '%s: reported exit code %r, '
                            'target state %s' % (uid, ec,
                                                 a.get('target_state')))
        for u in case['updates']:
            res.count('master_updates_checked')
            uid = u['uid']
            if u['mode'] == RAPTOR_WORKER:
                if n_adv[uid]:
                    return viol('worker-update-advanced', uid)
                continue
            if n_adv[uid] != 1:
                return viol('update-advanced-%d-times' % n_adv[uid], uid)
            a = [x for x in staged if x['uid'] == uid][0]
            if a.get('target_state') != u['target_state']:
                return viol('preset-target-state-changed', '%s: %s -> %s'
                            % (uid, u['target_state'], a.get('target_state')))
        known = {r['uid'] for r in results} | {u['uid']
                                               for u in case['updates']}
        if set(n_adv) - known:
            return viol('unreported-request-advanced', '%s'
                        % sorted(set(n_adv) - known))
        for e in net.errors:
            return viol('callback-error', e[2])
        return True
    finally:
        net.close()
        memzmq.uninstall()


# ------------------------------------------------------------------------------
# part D: the agent scheduler's raptor forwarding (gated real scheduler)
#
RIDS = ['master.0000', 'master.0000', 'master.0001', '*']


def gen_sched_case(rng):
    n     = rng.randint(3, 8)
    tasks = list()
    for i in range(n):
        kind = rng.choice(['plain', 'fwd', 'fwd', 'fwd', 'seen', 'worker'])
        rid  = None if kind == 'plain' else rng.choice(RIDS)
        if kind == 'worker' and rid == '*':
            rid = 'master.0000'
        mode = {'plain' : TASK_EXECUTABLE,
                'seen'  : TASK_EXECUTABLE,
                'worker': RAPTOR_WORKER}.get(kind) or \
               rng.choice([TASK_FUNC, TASK_EVAL, TASK_EXECUTABLE, TASK_SHELL,
                           TASK_EXECUTABLE])
        tasks.append({'uid': 't.%02d' % i, 'kind': kind, 'raptor_id': rid,
                      'mode': mode, 'seen': kind == 'seen',
                      'ranks': 1, 'cores_per_rank': 1, 'gpus_per_rank': 0.0,
                      'lfs_per_rank': 0, 'mem_per_rank': 0, 'priority': 0,
                      'tags': {}, 'named_env': '', 'app_slots': False})
    script  = list()
    pending = [t['uid'] for t in tasks]
    rng.shuffle(pending)
    reg = set()
    for _ in range(rng.randint(4, 10)):
        acts = ['arrive'] * 3 if pending else []
        acts += ['register', 'register', 'unregister', 'relay']
        a = rng.choice(acts)
        if a == 'arrive':
            k = rng.randint(1, min(3, len(pending)))
            script.append(['arrive', [pending.pop() for _ in range(k)]])
        elif a == 'register':
            script.append(['register', rng.choice(['master.0000',
                                                   'master.0000',
                                                   'master.0001'])])
        elif a == 'unregister':
            script.append(['unregister', rng.choice(['master.0000',
                                                     'master.0001'])])
        else:
            script.append(['relay'])
    if pending:
        script.append(['arrive', pending])
    if rng.random() < 0.7:
        script.append(['register', 'master.0000'])
    script.append(['relay'])
    lay = {'nodes': rng.choice([1, 2]), 'cores_per_node': rng.choice([4, 8]),
           'gpus_per_node': 0, 'lfs': 0, 'mem': 0, 'blocked_cores': [],
           'blocked_gpus': [], 'agent_nodes': 0}
    return {'layout': lay, 'scheduler': 'CONTINUOUS', 'scattered': True,
            'random_bulk': rng.random() < 0.5, 'tasks': tasks,
            'script': script, 'seed': rng.randint(0, 2 ** 30)}


def run_sched_case(case, res, workdir):

    from ..schedsim import Sim, task_dict

    wd = os.path.join(workdir, 'sim')
    os.makedirs(wd, exist_ok=True)
    ctx = {'part': 'sched', 'case': case}
    sim = None

    def viol(mech, msg):
        ctx['trace'] = sim.trace[-80:] if sim else None
        res.violation(mech, msg, ctx)
        return False

    try:
        sim    = Sim(wd, case)
        net    = sim.env.net
        child  = sim.pair.child
        master = make_master(sim.env.reg, wd, uid='master.0000')
        ts     = {t['uid']: t for t in case['tasks']}

        # reference model of the forwarding rule
        registered = set()
        backlog    = defaultdict(list)
        exp_fwd    = defaultdict(list)       # uid -> [queue names / 'any']
        exp_failed = set()
        forwarded  = defaultdict(list)       # uid -> [queue names] observed
        relayed    = set()                   # executable, came back seen
        to_workers = Counter()

        def qurl(name):
            return 'mem://raptor/%s' % name

        def observe():
            for name in ('master.0000', 'master.0001'):
                while True:
                    got = net.q_get(qurl(name), 'default', who='driver')
                    if not got:
                        break
                    for t in got:
                        forwarded[t['uid']].append(name)
                        if name == 'master.0000':
                            inbox.append(t)

        def settle():
            sim.pump()
            while net.q_len(sim.env.url(rpc.AGENT_SCHEDULING_QUEUE)):
                sim.intake()
            sim.iteration(2)
            sim.pump()
            for uid in sorted(sim.held):
                sim.complete(uid)
            sim.pump()
            sim.iteration(1)
            observe()

        inbox = list()

        for act in case['script']:

            if act[0] == 'arrive':
                tds = list()
                for uid in act[1]:
                    t = ts[uid]
                    d = task_dict(t)
                    d['description']['mode'] = t['mode']
                    if t['seen']:
                        d['raptor_seen'] = True
                    tds.append(d)
                    sim.submitted.append(uid)
                sim.env.put(rpc.AGENT_SCHEDULING_QUEUE, tds)
                sim.trace.append(['arrive', list(act[1])])
                # model: processed by the next `incoming` step
                for uid in act[1]:
                    t = ts[uid]
                    if t['kind'] != 'fwd':
                        continue
                    rid = t['raptor_id']
                    if rid in registered:
                        exp_fwd[uid].append(rid)
                    elif rid == '*' and registered:
                        exp_fwd[uid].append('any')
                    else:
                        backlog[rid].append(uid)
                settle()

            elif act[0] == 'register':
                name = act[1]
                sim.control('register_raptor_queue',
                            {'name': name, 'queue': '%s.input_queue' % name,
                             'addr': qurl(name)})
                registered.add(name)
                for uid in backlog.pop(name, []) + backlog.pop('*', []):
                    exp_fwd[uid].append(name)
                settle()

            elif act[0] == 'unregister':
                name = act[1]
                sim.control('unregister_raptor_queue',
                            {'name': name, 'queue': '%s.input_queue' % name})
                registered.discard(name)
                for uid in backlog.pop(name, []):
                    exp_failed.add(uid)
                settle()

            elif act[0] == 'relay':
                # the real master takes what the scheduler forwarded; what it
                # sends to agent input staging goes back to the scheduler
                msgs, inbox[:] = list(inbox), []
                if msgs:
                    master._request_cb(copy.deepcopy(msgs))
                    while True:
                        got = net.q_get(REQ_URL, 'default', who='driver')
                        if not got:
                            break
                        for t in got:
                            to_workers[t['uid']] += 1
                    back = list()
                    while True:
                        got = net.q_get(sim.env.url(
                              rpc.AGENT_STAGING_INPUT_QUEUE), 'default',
                              who='driver')
                        if not got:
                            break
                        back.extend(got)
                    for t in back:
                        relayed.add(t['uid'])
                        t['state'] = rps.AGENT_SCHEDULING_PENDING
                    if back:
                        sim.env.put(rpc.AGENT_SCHEDULING_QUEUE, back)
                        sim.trace.append(['relay', [t['uid'] for t in back]])
                settle()

        settle()
        if sim.pair.child_error:
            return viol('scheduler-loop-died', repr(sim.pair.child_error))
        for e in net.errors:
            return viol('callback-error', e[2])

        granted = Counter(u for u, _ in sim.grants)
        failed  = Counter(u for u, st, _, _ in sim.finals if st == rps.FAILED)
        in_backlog = {t['uid'] for ts_ in child._raptor_tasks.values()
                               for t in ts_}

        for uid, t in ts.items():
            fw = forwarded.get(uid, [])
            if t['kind'] != 'fwd':
                res.count('sched_local_checked')
                res.see('sched_kinds', '%s/%s' % (t['kind'], t['mode']))
                if fw:
                    return viol('local-task-forwarded-to-raptor', '%s (%s, '
                                'raptor_id %s) was put on raptor queue %s'
                                % (uid, t['kind'], t['raptor_id'], fw))
                if failed[uid] or uid in in_backlog:
                    return viol('local-task-not-scheduled', '%s (%s): failed '
                                '%d, backlog %s' % (uid, t['kind'],
                                failed[uid], uid in in_backlog))
                if granted[uid] > 1:
                    return viol('local-task-granted-twice', uid)
                if granted[uid] == 1:
                    res.count('sched_local_granted')
                elif uid not in sim.waiting():
                    return viol('local-task-lost', '%s: %s'
                                % (uid, sim.places(uid)))
                continue

            res.count('sched_forward_checked')
            res.see('sched_kinds', 'fwd/%s/%s' % (t['mode'], t['raptor_id']))
            exp = exp_fwd.get(uid, [])
            if len(fw) > 1 or len(exp) > 1:
                return viol('raptor-task-forwarded-twice', '%s: %s (model %s)'
                            % (uid, fw, exp))
            if uid in exp_failed:
                res.see('sched_outcomes', 'failed-on-unregister')
                if fw or granted[uid]:
                    return viol('unregistered-raptor-task-not-failed', '%s: '
                                'forwarded %s granted %d'
                                % (uid, fw, granted[uid]))
                if failed[uid] != 1:
                    return viol('unregistered-raptor-task-failed-%d-times'
                                % failed[uid], uid)
                continue
            if failed[uid]:
                return viol('raptor-task-failed', '%s: %s' % (uid,
                            [f for f in sim.finals if f[0] == uid]))
            if not exp:
                res.see('sched_outcomes', 'backlog')
                if fw:
                    return viol('raptor-task-forwarded-unregistered', '%s: %s'
                                % (uid, fw))
                if granted[uid]:
                    return viol('raptor-task-scheduled-locally', '%s has '
                                'raptor_id %s, was not seen by raptor, and was '
                                'given to the executor' % (uid, t['raptor_id']))
                if uid not in in_backlog:
                    return viol('raptor-task-lost', '%s: %s'
                                % (uid, sim.places(uid)))
                continue
            res.see('sched_outcomes', 'forwarded' if exp[0] != 'any'
                                       else 'forwarded-any')
            if not fw:
                mech = 'raptor-task-not-forwarded'
                if granted[uid]:
                    mech = 'raptor-task-scheduled-locally'
                elif uid in in_backlog:
                    mech = 'raptor-backlog-not-flushed'
                return viol(mech, '%s (raptor_id %s): expected on queue %s; '
                            'granted %d, backlog %s' % (uid, t['raptor_id'],
                            exp, granted[uid], uid in in_backlog))
            if exp[0] != 'any' and fw[0] != exp[0]:
                return viol('raptor-task-on-wrong-queue', '%s: %s, expected %s'
                            % (uid, fw, exp))
            # beyond the scheduler: what the master made of it
            if fw[0] == 'master.0000' and uid not in [m_['uid']
                                                       for m_ in inbox]:
                res.count('sched_relay_checked')
                if t['mode'] == TASK_EXECUTABLE:
                    if uid not in relayed or to_workers[uid]:
                        return viol('executable-request-sent-to-workers',
                                    '%s: relayed %s, to workers %d'
                                    % (uid, uid in relayed, to_workers[uid]))
                    if granted[uid] > 1:
                        return viol('relayed-task-granted-twice', uid)
                    if granted[uid] == 0 and uid not in sim.waiting():
                        return viol('relayed-task-lost', '%s: %s'
                                    % (uid, sim.places(uid)))
                    res.count('sched_seen_roundtrips')
                else:
                    if to_workers[uid] != 1 or uid in relayed:
                        return viol('function-request-sent-to-executor',
                                    '%s (%s): to workers %d, relayed %s'
                                    % (uid, t['mode'], to_workers[uid],
                                       uid in relayed))
                    if granted[uid]:
                        return viol('raptor-task-scheduled-locally', '%s was '
                                    'forwarded and also given to the executor'
                                    % uid)
            elif granted[uid]:
                return viol('raptor-task-scheduled-locally', '%s was forwarded '
                            'and also given to the executor' % uid)
        return True

    except (TimeoutError, RuntimeError) as e:
        if sim and sim.pair.child_error:
            return viol('scheduler-loop-died', repr(sim.pair.child_error))
        res.inconc('scheduler history stuck: %r' % e)
        return False
    finally:
        if sim:
            sim.close()
        os.chdir(workdir)
        shutil.rmtree(wd, ignore_errors=True)


# ------------------------------------------------------------------------------
#
def _setup_base_env():
    for k, v in BASE.items():
        os.environ[k] = v
    for k in KEYS:
        if k not in BASE:
            os.environ.pop(k, None)


# ------------------------------------------------------------------------------
# task service of the master: a worker asks the master to run a task and waits
# for it (`Master._run_task`, on the service thread); the result comes back
# through `_result_cb` on the result getter thread - possibly at once
#
def run_task_service(res, rng, workdir, idx):
    import time
    import threading as mt
    from ..popsim import Perturb
    import radical.pilot.raptor.master as m_master

    seed = rng.randint(0, 2 ** 30)
    net, reg = fresh_net(seed)
    pert = None
    try:
        m = make_master(reg, workdir, uid='master.%04d' % (idx % 10))
        pert = Perturb(seed, 0.4, funcs=[m_master.Master._run_task,
                                         m_master.Master.submit_tasks])
        n     = rng.randint(1, 3)
        delay = [rng.choice([0, 0, 0, 0.001, 0.005]) for _ in range(n)]
        out, errs = dict(), list()
        answered  = dict()

        def service(k):
            try:
                td = {'mode': TASK_FUNC, 'function': 'c20_payload',
                      'args': [], 'kwargs': {}, 'ranks': 1,
                      'cores_per_rank': 1, 'named_env': ''}
                out[k] = m._run_task(td)
            except Exception as e:
                errs.append('service %d: %r' % (k, e))

        def getter():
            # the worker side: takes requests off the queue, answers them
            try:
                end = time.time() + 10
                while len(answered) < n and time.time() < end:
                    got = net.q_get(REQ_URL, 'default', who='worker')
                    if not got:
                        time.sleep(0.0002)
                        continue
                    for t in ru.as_list(got):
                        k = len(answered)
                        time.sleep(delay[k])
                        r = dict(t, exit_code=0, return_value=k,
                                 stdout='', stderr='', exception=None,
                                 exception_detail=None)
                        m._result_cb([r])
                        answered[t['uid']] = time.time()
            except Exception as e:
                errs.append('getter: %r' % e)

        ts = [mt.Thread(target=service, args=[k], daemon=True,
                        name='task-service-%d' % k) for k in range(n)]
        g  = mt.Thread(target=getter, daemon=True, name='result-getter')
        for t in ts: t.start()
        g.start()
        g.join(timeout=15)
        for t in ts: t.join(timeout=3)
        res.count('task_service_histories')
        ctx_ = {'part': 'task-service', 'seed': seed, 'n': n, 'errors': errs,
                'answered': sorted(answered)}
        for e in errs:
            res.violation('task-service/raised', e, ctx_)
            return
        if len(answered) < n:
            res.inconc('task service: requests did not reach the queue')
            return
        stuck = [t.name for t in ts if t.is_alive()]
        if stuck:
            res.violation('request-stuck-after-result', '%d request(s) were '
                          'answered (their results went through _result_cb), '
                          '%s still wait(s) for the result; bookkeeping left: '
                          '%s' % (n, stuck, sorted(m._task_service_data)),
                          ctx_)
            return
        res.count('task_service_requests_checked', n)
        if m._task_service_data:
            res.violation('task-service/bookkeeping-left',
                          str(sorted(m._task_service_data)), ctx_)
    finally:
        if pert:
            pert.stop()
        memzmq.uninstall()


def run(ctx):

    res   = Result()
    marks = list()         # wall time per part, for --verbose only
    _setup_base_env()
    workdir = ctx.workdir or os.getcwd()

    try:
        rp.PythonTask(run_payload, args=({},), kwargs={})
    except Exception as e:
        res.inconc('PythonTask cannot serialise the payload: %r' % e)
        return res

    # -- A: dispatcher sequences (forked, before any thread exists) ------------
    rng = ctx.rng('dispatch')
    for i in range(ctx.n(720, 16000)):
        case = gen_dispatch_case(rng)
        if i == 0:
            case = scripted_dispatch_case(PY_MODES[ctx.shard % len(PY_MODES)])
        res.evaluations += 1
        rq = case['requests']
        if any(changes_state(r) for r in rq[:-1]):
            res.digests.add(digest(case))
        if i < 1 and len(res.samples) < 3:
            res.samples.append({'part': 'dispatch', 'case': case})
        if not run_dispatch_case(case, res) and \
                res.counters.get('violations_raw', 0) > 25:
            break

    marks.append('A %.1f' % ctx.elapsed())
    # -- C: master ---------------------------------------------------------------
    rng = ctx.rng('master')
    for i in range(ctx.n(1800, 60000)):
        case = gen_master_case(rng)
        res.evaluations += 1
        modes = {t['mode'] == TASK_EXECUTABLE for t in case['tasks']}
        if len(modes) == 2 and any(t['exit'] not in (0, 'missing', None)
                                   for t in case['tasks']):
            res.digests.add(digest(case))
        if i < 1 and len(res.samples) < 3:
            res.samples.append({'part': 'master', 'case': case})
        if not run_master_case(case, res, workdir) and \
                res.counters.get('violations_raw', 0) > 50:
            break

    marks.append('C %.1f' % ctx.elapsed())
    # -- D: scheduler forwarding -----------------------------------------------
    rng = ctx.rng('sched')
    for i in range(ctx.n(240, 6000)):
        case = gen_sched_case(rng)
        res.evaluations += 1
        if any(t['kind'] == 'fwd' for t in case['tasks']):
            res.digests.add(digest(case))
        if not run_sched_case(case, res, workdir) and \
                res.counters.get('violations_raw', 0) > 75:
            break

    marks.append('D %.1f' % ctx.elapsed())
    # -- B: worker streams (threads + forked request processes) ----------------
    rng = ctx.rng('worker')
    for i in range(ctx.n(192, 4200)):
        case = gen_worker_case(rng)
        res.evaluations += 1
        ok, max_live = run_worker_case(case, res, workdir)
        res.count('worker_streams')
        if max_live >= 2:
            res.count('worker_streams_concurrent')
            res.digests.add(digest(case))
        if i < 1 and len(res.samples) < 3:
            res.samples.append({'part': 'worker', 'case': case})
        if res.inconclusive or res.counters.get('violations_raw', 0) > 100:
            break

    marks.append('B %.1f' % ctx.elapsed())
    # -- B': labelled stress: timeout racing the completion --------------------
    if not res.inconclusive:
        run_race(res, workdir, ctx.rng('race'), ctx.n(192, 3200))
    marks.append('R %.1f' % ctx.elapsed())
    sys.stderr.write('parts done at: %s\n' % ' '.join(marks))

    # routing of function-like requests by the pilot scheduler while the
    # master's queue registers on the control thread (shared with C04): every
    # request reaches the master exactly once.  LAST: it leaves threads of the
    # scheduler pair behind, and the parts above fork real processes.
    from .c04 import raptor_race
    rng_r = ctx.rng('rrace')
    for i in range(ctx.n(480, 6400)):
        raptor_race(ctx, res, rng_r, i)
        if len(res.violations) > 20:
            break

    # the master's task service (threads: after everything which forks)
    rng_t = ctx.rng('task-service')
    for i in range(ctx.n(240, 6000)):
        run_task_service(res, rng_t, workdir, i)
        if len(res.violations) > 20:
            break

    return res


def replay(case, ctx):

    res = Result()
    _setup_base_env()
    workdir = ctx.workdir or os.getcwd()
    part = case.get('part')
    c    = case.get('case')
    if part == 'dispatch':
        run_dispatch_case(c, res)
    elif part == 'master':
        run_master_case(c, res, workdir)
    elif part == 'sched':
        run_sched_case(c, res, workdir)
    elif part == 'worker':
        for _ in range(5):            # threads: reproduced only statistically
            run_worker_case(c, res, workdir)
            if res.violations or res.inconclusive:
                break
    elif part == 'race':
        import random
        run_race(res, workdir, random.Random(ctx.seed), 400)
    res.evaluations = 1
    return res
