'''
C08 - Cancel stops the named tasks and nothing else.

Two workloads, each run twice where a differential verdict is needed:

 (a) scheduler stage (gated, deterministic): the cancel request is delivered at
     a chosen step boundary of the real scheduling loop - before intake, while
     the task sits in the scheduler's internal queue, in the wait pool, in the
     raptor backlog, after it was started.  The same history (same seed) is
     replayed without the request; bystanders must reach the same outcome, keep
     their placement events (one grant each) and never get lost.
 (b) executor stage (real processes): cancel between placement and launch,
     during spawn, while running, racing the exit and after it; named tasks
     must end CANCELED unless they had finished, their process must be gone,
     their slots must be released exactly once; bystanders in the same bulks
     must end exactly as scripted.
'''

import os
import copy
import random
import shutil

from ..core       import Result, digest, pid_space_small
from ..harness    import rp, ru, rps, rpc
from ..schedsim   import Sim, gen_layout, gen_task
from ..schedprops import Progress, Conservation, Ledger, gen_case as gen_sched_case
from ..popsim     import ExecSim, gen_case as gen_exec_case

ID     = 'C08'
LEVEL  = 'fault_enumeration'
MANIFEST = {
    'technique': 'runtime monitoring: differential (with / without the cancel '
                 'request) outcome comparison on gated scheduler histories, and '
                 'scripted-truth comparison on real executor histories',
    'text': 'The request is placed at every point of a task\'s life that the '
            'pilot side knows: before scheduling, in the scheduler\'s queue, in '
            'the wait pool, in the raptor backlog, between placement and '
            'launch, during spawn, while running, racing the exit, after the '
            'exit; with 0-5 bystanders.  Named tasks: CANCELED unless already '
            'finished/started, process gone, resources released exactly once, '
            'node map restored.  Bystanders: same final outcome as in the run '
            'without the request, nothing dropped from queues or pools.'
            '  Second session: a CancelWatch observer requires that once the scheduling loop has consumed the request no named task sits in the wait pool at a step boundary or is started.'
            '  Third session: intake race on the real BaseComponent - the main thread passes things through is_canceled while the control thread registers further requests through _control_cb (yield before the cancel lock, LINE perturbation): a request registered before a thing reaches the intake is honoured there, no request is forgotten, no bystander dropped.'
            '  A third of the executor histories name - first - a task the executor does not hold in their cancel requests (it runs elsewhere or is collected already): the named tasks it does hold are canceled all the same.',
    'note': 'scheduler stage and executor stage are exercised separately; the '
            'client side of cancel_tasks (control message with forward flag) '
            'is covered by C16; executor histories use real threads/processes '
            '(statistical reproduction).'}
RULE   = ('(a) seeded gated histories with one cancel request naming 1-2 '
          'tasks at a random action index, each run with and without the '
          'request; (b) executor histories as C07 restricted to cancel '
          'placements; non-trivial = the named task was actually affected '
          '(removed from pool/backlog, killed) or bystanders existed; '
          'distinct = digest of trace / event orders.')
ASSUMPTIONS = ['bystander outcome = started / failed / canceled / waiting at '
               'the end of the settled history, and target_state/exit code at '
               'the executor hand-over']
SHARDS   = {'quick': 16, 'thorough': 16}
TIMEOUT  = {'quick': 600, 'thorough': 5400}
REQUIRED = {'named_checked': 300, 'bystanders_compared': 1000,
            'set:cancel_points': 6, 'exec_named_checked': 100}


# ------------------------------------------------------------------------------
# (a) scheduler stage
#
class CancelWatch(object):
    '''
    once the scheduling loop has consumed the cancel request, a named task
    must neither sit in the wait pool at a step boundary nor be started: the
    request was taken out of the loop's input queue, so every task the loop
    meets from then on is met *later* ("a named task that a component meets
    later is canceled there instead of being processed")
    '''

    def __init__(self, res, named):
        self.res       = res
        self.named     = set(named)
        self.requested = False
        self.processed = False
        self.problems  = list()

    def _pending_cancel(self, sim):
        c = sim.pair.child
        return any(flag == c._CANCEL for _, flag in list(c._queue_sched._q.queue))

    def on_grant(self, sim, uid, task, view):
        if self.processed and uid in self.named:
            self.problems.append(('named-task-started-after-cancel-processed',
                                  '%s was placed and handed on although the '
                                  'scheduling loop had consumed the cancel '
                                  'request before' % uid))

    def on_final(self, sim, thing): pass
    def on_release(self, sim, uid, view): pass

    def after_step(self, sim, last):
        if not self.requested:
            return
        if not self.processed:
            if last[0] == 'incoming' and not self._pending_cancel(sim) and \
                    sim.env.net.quiet():
                self.processed = True
                self.res.count('cancel_requests_seen_processed')
            return
        for uid in self.named:
            if 'waitpool' in sim.places(uid):
                self.problems.append(
                        ('named-task-waits-after-cancel-processed',
                         '%s is in the wait pool after step %s although the '
                         'scheduling loop consumed the cancel request before'
                         % (uid, last[0])))


def sched_history(ctx, case, with_cancel, res):
    '''returns (outcomes, info) of one deterministic gated history'''

    wd = os.path.join(ctx.workdir or os.getcwd(), 'c08s')
    os.makedirs(wd, exist_ok=True)
    cons = Conservation(res if with_cancel else Result())
    sim  = None
    try:
        watch = CancelWatch(res if with_cancel else Result(),
                            case['cancel_uids'])
        sim = Sim(wd, case, observers=[cons, watch])
        pending = [t['uid'] for t in case['tasks']][::-1]
        point = None
        if any(t.get('raptor_id') for t in case['tasks']) and \
                case.get('register_raptor'):
            pass
        for ai, act in enumerate(case['script']):
            if ai == case['cancel_at']:
                # where are the named tasks right now?
                point = {u: (sim.places(u) or ['not-submitted'])
                         for u in case['cancel_uids']}
                if with_cancel:
                    sim.cancel(case['cancel_uids'])
                    sim.pump()
                    watch.requested = True
            a = act[0]
            if a == 'arrive':
                if pending:
                    k = min(act[1], len(pending))
                    sim.arrive([pending.pop() for _ in range(k)])
                    if act[2]:
                        sim.intake()
            elif a == 'intake':
                sim.intake()
            elif a == 'step':
                sim.step()
            elif a == 'pump':
                sim.pump(act[1])
            elif sim.held:
                sim.complete(sorted(sim.held)[0])
                sim.pump()
        if pending:
            sim.arrive(pending)
        if case.get('register_raptor'):
            sim.control('register_raptor_queue',
                        {'name': 'raptor.0', 'queue': 'raptor_q',
                         'addr': 'mem://raptor/queue'})
        for rnd in range(80):
            sim.pump()
            while sim.env.net.q_len(sim.env.url(rpc.AGENT_SCHEDULING_QUEUE)):
                sim.intake()
            sim.pump()
            sim.iteration(4)
            if not sim.held:
                if sim.settled() and sorted(sim.unsched_published) == \
                                     sorted(sim.unsched_processed):
                    break
                continue
            sim.complete(sorted(sim.held)[0])
        else:
            raise RuntimeError('history does not settle')
        cons.check(sim, final=True)

        out = dict()
        for t in case['tasks']:
            u = t['uid']
            where = sim.places(u)
            out[u] = sorted(set(where))
        info = {'point': point, 'grants': [u for u, _ in sim.grants],
                'trace': sim.trace, 'errors': list(sim.env.net.errors),
                'watch': list(watch.problems)}
        return out, info
    finally:
        if sim:
            sim.close()
        os.chdir(ctx.workdir or '/')
        shutil.rmtree(wd, ignore_errors=True)


def gen_cancel_case(rng):
    case = gen_sched_case(rng, allow_app_slots=False, allow_cancel=False)
    # some tasks go to a raptor master whose queue registers late
    if rng.random() < 0.3:
        for t in case['tasks']:
            if rng.random() < 0.4:
                t['raptor_id'] = 'raptor.0'
        case['register_raptor'] = rng.random() < 0.7
    uids = [t['uid'] for t in case['tasks']]
    case['cancel_uids'] = rng.sample(uids, rng.randint(1, min(2, len(uids))))
    script = list()
    for _ in range(case['max_actions']):
        a = rng.choice(['step'] * 6 + ['intake'] * 2 + ['pump'] * 2 +
                       ['arrive'] * 4 + ['complete'] * 3)
        if   a == 'arrive': script.append([a, rng.randint(1, 3),
                                           rng.random() < 0.6])
        elif a == 'pump'  : script.append([a, rng.randint(1, 3)])
        else              : script.append([a])
    case['script']    = script
    case['cancel_at'] = rng.randint(0, len(script) - 1)
    return case


def judge_sched(case, res, with_c, without_c):

    out_c, info_c = with_c
    out_n, info_n = without_c
    ctx = {'case': case, 'with': out_c, 'without': out_n,
           'point': info_c['point'], 'trace': info_c['trace']}
    named = set(case['cancel_uids'])

    for e in info_c['errors']:
        res.violation('callback-error', e[2], ctx)

    for mech, msg in info_c.get('watch', [])[:2]:
        res.violation(mech, msg, ctx)

    for u, where in (info_c['point'] or {}).items():
        for w in where:
            res.see('cancel_points', w)

    for t in case['tasks']:
        u = t['uid']
        c, n = out_c[u], out_n[u]
        if u in named:
            res.count('named_checked')
            at = (info_c['point'] or {}).get(u, ['?'])
            # a named task is canceled, unless it was already started / final
            # when the request arrived (then the executor's business) ...
            if 'canceled' in c and len(c) == 1:
                res.see('named_outcomes', 'canceled@%s' % '+'.join(at))
                continue
            if c == ['started'] and ('started' in at or n == ['started']
                                     or at == ['sched-queue']):
                # was running already, or raced the request: must not be lost.
                # A task that sat between `work()` and the scheduling loop is
                # not in the wait pool when the cancel flag is processed: the
                # loop places it (if it can - which may differ from the run
                # without the request, where other named tasks still compete)
                # and the executor cancels it at intake
                if n != ['started'] and 'started' not in at:
                    res.count('named_queued_task_placed_differently')
                res.see('named_outcomes', 'started@%s' % '+'.join(at))
                if 'waitpool' in at:
                    # the wait pool step of the loop runs before the cancel
                    # flag is processed: the task is handed to the executor,
                    # which has the same request registered and cancels it at
                    # intake ("a named task that a component meets later is
                    # canceled there") - decided by the executor workload
                    # (placement 'before_intake')
                    res.count('named_started_after_cancel_handled_downstream')
                continue
            if c == ['failed'] and n == ['failed']:
                continue
            if c in (['raptor-queue'], ['raptor-backlog']) :
                if 'raptor-backlog' in at and c == ['raptor-queue']:
                    res.violation('named-backlog-task-forwarded-after-cancel',
                                  '%s was in the raptor backlog at cancel time '
                                  'but was forwarded to raptor' % u, ctx)
                continue
            if c == ['waitpool'] and n == ['waitpool']:
                if 'waitpool' in at:
                    res.violation('named-task-left-in-wait-pool', u, ctx)
                continue
            if len(c) != 1:
                res.violation('named-task-two-outcomes', '%s: %s' % (u, c),
                              ctx)
                continue
            res.violation('named-task-outcome', '%s: %s with the request, %s '
                          'without, at %s' % (u, c, n, at), ctx)
        else:
            res.count('bystanders_compared')
            if not c:
                res.violation('bystander-lost', u, ctx)
            elif 'canceled' in c:
                res.violation('bystander-canceled', '%s: %s' % (u, c), ctx)
            elif c != n:
                # a bystander may be *started* instead of waiting because the
                # named task no longer competes - but never the other way round
                if c == ['started'] and n in (['waitpool'], ['failed']):
                    res.count('bystander_benefits')
                elif c == ['waitpool'] and n == ['started']:
                    res.violation('bystander-not-started', u, ctx)
                elif c == ['failed'] and n != ['failed']:
                    # the "can never be scheduled" rule fires when nothing is
                    # active: cancelling the only active task can expose it
                    res.count('bystander_failed_differently')
                    res.see('bystander_diffs', '%s->%s' % (n, c))
                else:
                    res.see('bystander_diffs', '%s->%s' % (n, c))
    if sorted(info_c['grants']) != sorted(set(info_c['grants'])):
        res.violation('granted-twice', str(info_c['grants']), ctx)


# ------------------------------------------------------------------------------
# (b) executor stage
#
def judge_exec(sim, rec, res, case):
    ctx = {'case': case, 'records': rec, 'hits': sorted(sim.hits),
           'loop_errors': sim.loop_errors[:3]}
    for uid, r in rec.items():
        spec = sim.specs[uid]
        if not r['accepted']:
            continue
        named = uid in sim.cancel_requested
        kinds = [h['kind'] for h in r['handovers']]
        if named:
            res.count('exec_named_checked')
            res.see('cancel_points', 'exec:%s' % spec['cancel'])
            if not kinds and 'watchdog' in sim.notes:
                res.inconc('watchdog fired before the history went idle '
                           '(%s not handed over yet)' % uid)
                continue
            if not kinds:
                res.violation('named-task-left-behind', '%s (%s): %s'
                              % (uid, spec['cancel'], r['order']), ctx)
                continue
            h = r['handovers'][0]
            final = h.get('target_state') or h['kind'].split(':')[-1]
            truthful = (rps.DONE if spec['ending'] not in ('exit', 'signal')
                        else rps.FAILED)
            finished_first = spec['ending'] not in ('long', 'hang')
            if spec['poison']:
                truthful = rps.FAILED
            if uid in sim.cancel_faults:
                # injected failure of the kill command inside the work
                # routine: FAILED is the truthful ending, the process is the
                # fault's business; the release count still is ours
                res.count('late_cancel_kill_faults')
                if r['unschedules'] != 1:
                    mech = 'named-task-released-%d-times' % r['unschedules']
                    res.violation(mech, '%s: %s' % (uid, r['order']), ctx)
                continue
            if final != rps.CANCELED:
                if not (final == truthful and (finished_first or
                                               spec['poison'])):
                    res.violation('named-task-not-canceled', '%s (%s, %s): '
                                  'ended %s' % (uid, spec['cancel'],
                                                spec['ending'], final), ctx)
            if r['unschedules'] != 1:
                mech = 'named-task-released-%d-times' % r['unschedules']
                res.violation(mech, '%s: %s' % (uid, r['order']), ctx)
            if sim.alive(r['pid'], grace=2.0):
                res.violation('named-task-process-survives', '%s pid %s'
                              % (uid, r['pid']), ctx)
        else:
            if spec['timeout']:
                continue
            res.count('bystanders_compared')
            if not kinds and 'watchdog' in sim.notes:
                res.inconc('watchdog fired before the history went idle '
                           '(%s not handed over yet)' % uid)
                continue
            if not kinds:
                res.violation('bystander-left-behind', '%s: %s'
                              % (uid, r['order']), ctx)
                continue
            h = r['handovers'][0]
            final = h.get('target_state') or h['kind'].split(':')[-1]
            exp = rps.FAILED if (spec['poison'] or
                                 spec['ending'] in ('exit', 'signal')) \
                  else rps.DONE
            if sim.case['spawner'] == 'NOOP':
                exp = rps.FAILED if spec['poison'] else rps.DONE
            if final != exp and h.get('exit_code') in (-9, -15) and \
                    pid_space_small():
                res.count('possible_pid_reuse_not_judged')
            elif final != exp:
                res.violation('bystander-outcome-changed', '%s: %s, scripted '
                              '%s' % (uid, final, exp), ctx)
            if r['unschedules'] != 1:
                res.violation('bystander-released-%d-times' % r['unschedules'],
                              '%s: %s' % (uid, r['order']), ctx)


# ------------------------------------------------------------------------------
#
# ------------------------------------------------------------------------------
# (c) client stage: who does the request name?
#
_TSTATES = [rps.NEW, rps.TMGR_SCHEDULING_PENDING, rps.TMGR_SCHEDULING,
            rps.TMGR_STAGING_INPUT_PENDING, rps.AGENT_STAGING_INPUT_PENDING,
            rps.AGENT_SCHEDULING, rps.AGENT_EXECUTING_PENDING,
            rps.AGENT_EXECUTING, rps.AGENT_STAGING_OUTPUT_PENDING,
            rps.TMGR_STAGING_OUTPUT_PENDING, rps.DONE, rps.FAILED,
            rps.CANCELED]
_FINAL   = (rps.DONE, rps.FAILED, rps.CANCELED)


def client_case(rng):
    n      = rng.randint(2, 7)
    states = [rng.choice(_TSTATES) for _ in range(n)]
    form   = rng.choice(['all', 'str', 'list', 'list', 'task.cancel',
                         'only-final', 'with-final'])
    return {'states': states, 'form': form, 'seed': rng.randint(0, 2 ** 30)}


def run_client_case(case, res):
    from ..harness import make_tmgr, make_task
    crng  = random.Random(case['seed'])
    tm    = make_tmgr()
    tm2   = make_tmgr(uid='tmgr.0001')         # another manager's tasks
    uids  = ['t.%d' % i for i in range(len(case['states']))]
    tasks = dict()
    for uid, st in zip(uids, case['states']):
        tasks[uid] = make_task(tm, uid)
        if st != rps.NEW:
            tm._update_tasks([{'uid': uid, 'type': 'task', 'state': st}])
    other = make_task(tm2, 'o.0')
    final    = [u for u in uids if tasks[u].state in _FINAL]
    nonfinal = [u for u in uids if tasks[u].state not in _FINAL]

    form = case['form']
    if form == 'only-final' and not final   : form = 'list'
    if form == 'with-final' and not final   : form = 'list'
    if   form == 'all'        : req, exp = None, list(uids)
    elif form == 'str'        : req = crng.choice(uids); exp = [req]
    elif form == 'task.cancel': req = crng.choice(uids); exp = [req]
    elif form == 'only-final' : req = crng.sample(final, crng.randint(1, len(final))); exp = req
    elif form == 'with-final' :
        req = crng.sample(final, 1) + crng.sample(nonfinal, min(len(nonfinal),
                                                  crng.randint(0, 2)))
        crng.shuffle(req); exp = req
    else:
        req = crng.sample(uids, crng.randint(1, len(uids))); exp = req

    before = {u: t.state for u, t in tasks.items()}
    pub    = tm._publishers[rpc.CONTROL_PUBSUB]
    n0     = len(pub.msgs)
    ctx    = {'case': case, 'requested': req, 'form': form, 'states': before}
    try:
        if form == 'task.cancel': tasks[req].cancel()
        elif req is None        : tm.cancel_tasks()
        else                    : tm.cancel_tasks(req)
    except Exception as e:
        res.violation('cancel-request-raised', '%r' % e, ctx)
        return
    res.count('client_requests_checked')
    res.see('client_request_forms', form)
    named = list()
    for m in pub.msgs[n0:]:
        if m.get('cmd') == 'cancel_tasks':
            named += list(m['arg']['uids'])
            if not m.get('fwd'):
                res.violation('cancel-request-not-forwarded',
                              'the request does not carry the forward flag: '
                              'no pilot will see it', ctx)
    ctx['named'] = named
    extra   = sorted(set(named) - set(exp))
    # a named task which is final already cannot be stopped any more: leaving
    # it out of the message is fine, naming anybody else is not
    missing = sorted(u for u in set(exp) - set(named)
                     if before[u] not in _FINAL)
    if extra:
        res.violation('request-names-bystanders',
                      'cancel request for %s names %s as well'
                      % (exp if req is not None else 'all tasks', extra), ctx)
    if missing:
        res.violation('request-omits-named-task',
                      'cancel request for %s does not name %s'
                      % (exp, missing), ctx)
    if tm2._publishers[rpc.CONTROL_PUBSUB].msgs:
        res.violation('request-on-other-manager', 'another task manager '
                      'published something', ctx)
    for u, t in tasks.items():
        if before[u] in _FINAL and t.state != before[u]:
            res.violation('final-task-changed-by-cancel',
                          '%s: %s -> %s' % (u, before[u], t.state), ctx)


# ------------------------------------------------------------------------------
# (d) intake filter vs. request registration: the component's main thread drops
#     named things at intake (is_canceled) while the control thread registers
#     further requests.  A request which was registered before a thing reaches
#     the intake is honoured there.
#
def intake_race(res, rng, idx):
    import time
    import threading as mt
    from ..harness import NullLog, NullProf, RecPublisher
    from ..core    import YieldLock
    from ..popsim  import Perturb
    import radical.pilot.utils.component as m_comp

    seed = rng.randint(0, 2 ** 30)
    crng = random.Random(seed)
    c = m_comp.AgentComponent.__new__(m_comp.AgentComponent)
    c._log, c._prof = NullLog(), NullProf()
    c._uid          = 'agent_staging_input.%04d' % (idx % 10)
    c._publishers   = {rpc.STATE_PUBSUB: RecPublisher(rpc.STATE_PUBSUB)}
    c._outputs      = dict()
    c._rpc_reqs     = dict()
    c._cancel_list  = list()
    c._cancel_lock  = YieldLock(mt.RLock(), seed, '_cancel_lock')
    pert = Perturb(seed, 0.3, funcs=[m_comp.BaseComponent.is_canceled,
                                     m_comp.BaseComponent.advance])

    n     = crng.randint(4, 12)
    uids  = ['t.%03d' % i for i in range(n)]
    named = [u for u in uids if crng.random() < 0.6]
    # requests: one or two uids each, sent in a burst
    reqs, rest = list(), list(named)
    crng.shuffle(rest)
    while rest:
        k = crng.choice([1, 1, 2])
        reqs.append(rest[:k]); rest = rest[k:]
    registered = dict()          # uid -> True once its request is registered
    intake     = dict()          # uid -> (registered before intake, result)
    errs       = list()

    def control():
        try:
            for r in reqs:
                c._control_cb(rpc.CONTROL_PUBSUB, {'cmd': 'cancel_tasks',
                                                   'arg': {'uids': list(r)}})
                for u in r:
                    registered[u] = True
                time.sleep(crng.choice([0, 0, 0.0003, 0.001]))
        except Exception as e:
            errs.append('control: %r' % e)

    def main():
        try:
            for u in uids:
                before = registered.get(u, False)
                task   = {'uid': u, 'type': 'task',
                          'state': rps.AGENT_STAGING_INPUT_PENDING}
                intake[u] = (before, c.is_canceled(task))
                time.sleep(0)
        except Exception as e:
            errs.append('intake: %r' % e)

    a = mt.Thread(target=control, name='control-sub', daemon=True)
    b = mt.Thread(target=main,    name='main-loop',   daemon=True)
    try:
        a.start(); b.start()
        a.join(timeout=20); b.join(timeout=20)
    finally:
        pert.stop()
    res.count('intake_race_histories')
    ctx_ = {'seed': seed, 'requests': reqs, 'intake': intake, 'errors': errs}
    if a.is_alive() or b.is_alive():
        res.inconc('intake race: threads still busy after 20 s')
        return
    for e in errs:
        res.violation('intake-race/raised', e, ctx_)
        return
    # second pass, nothing else running: whatever was named and not dropped
    # in the first pass is dropped now; nothing else is
    pubs = [t['uid'] for m in c._publishers[rpc.STATE_PUBSUB].msgs
                     for t in ru.as_list(m['arg'])
                     if t.get('state') == rps.CANCELED]
    for u in uids:
        res.count('intake_race_things_checked')
        before, dropped = intake[u]
        if before and not dropped:
            res.violation('named-thing-passed-intake', '%s was named in a '
                          'request registered before it reached the intake, '
                          'but passed the filter' % u, ctx_)
            return
        if dropped and u not in named:
            res.violation('bystander-dropped-at-intake', u, ctx_)
            return
        again = c.is_canceled({'uid': u, 'type': 'task',
                               'state': rps.AGENT_STAGING_INPUT_PENDING})
        if u in named and not dropped and not again:
            res.violation('cancel-request-forgotten', '%s was named, passed '
                          'the intake before its request was registered, and '
                          'the request is not in the component\'s list any '
                          'more' % u, ctx_)
            return
        if pubs.count(u) > 1:
            res.violation('named-thing-canceled-twice', u, ctx_)
            return


def run(ctx):
    from . import c07
    res = Result()

    rng = ctx.rng('intake')
    for i in range(ctx.n(800, 40000)):
        intake_race(res, rng, i)
        if len(res.violations) > 5:
            break

    rng = ctx.rng('client')
    for i in range(ctx.n(3000, 60000)):
        case = client_case(rng)
        run_client_case(case, res)
        if len(res.violations) > 40:
            break

    rng = ctx.rng('sched')
    for i in range(ctx.n(1600, 40000)):
        case = gen_cancel_case(rng)
        try:
            w = sched_history(ctx, case, True,  res)
            n = sched_history(ctx, case, False, res)
        except TimeoutError as e:
            res.inconc('scheduler history: %r' % e)
            continue
        except RuntimeError as e:
            res.violation('history-stuck', repr(e), {'case': case})
            continue
        judge_sched(case, res, w, n)
        res.evaluations += 1
        res.digests.add(digest([case['layout'], case['cancel_at'],
                                [a[:2] for a in w[1]['trace']]]))
        if len(res.samples) < 2:
            res.samples.append({'case': {k: v for k, v in case.items()
                                         if k != 'tasks'},
                                'point': w[1]['point'], 'with': w[0],
                                'without': n[0]})
        if len(res.violations) > 40:
            break

    rng = ctx.rng('exec')
    saved = c07.judge
    c07.judge = judge_exec
    try:
        for i in range(ctx.n(480, 9000)):
            case = gen_exec_case(rng, 'POPEN')
            c07.run_case(ctx, res, case, i)
            if len(res.violations) > 40:
                break
    finally:
        c07.judge = saved
    return res


def replay(case, ctx):
    from . import c07
    res = Result()
    c = case.get('case')
    if c and 'form' in c and 'states' in c:
        run_client_case(c, res)
    elif c and 'layout' in c:
        w = sched_history(ctx, c, True,  res)
        n = sched_history(ctx, c, False, res)
        judge_sched(c, res, w, n)
    elif c:
        saved = c07.judge
        c07.judge = judge_exec
        try:
            for i in range(5):
                c07.run_case(ctx, res, c, i)
                if res.violations:
                    break
        finally:
            c07.judge = saved
    return res
