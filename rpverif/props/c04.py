'''
C04 - The pilot scheduler neither loses nor starves tasks.

Monitor over gated histories of the real scheduler pair: (i) after every loop
step every submitted uid is found in exactly one place (started / wait pool /
queues / raptor backlog / failed / canceled); (ii) started/failed/canceled is
reported at most once per uid; (iii)-(iv) bounded progress, decided K=4 loop
iterations after the last injected event with an independent "does it fit"
for simple requests; (v) scripted priority scenarios.
'''

import os
import random
import shutil

from ..core       import Result, digest
from ..harness    import rp, ru, rps, rpc
from ..schedsim   import Sim, gen_layout
from ..schedprops import (Progress, Conservation, run_histories, run_one, fits,
                          free_view)

ID     = 'C04'
LEVEL  = 'exploration'
MANIFEST = {
    'technique': 'runtime monitoring: partition / at-most-once / bounded-'
                 'progress oracles over gated interleavings of the real '
                 'scheduling loop',
    'text': 'Arrivals, completions and cancel requests are injected between '
            'the three steps of the real loop body in seeded orders; an '
            'independent placer decides what "fits" for simple requests; '
            'progress is required within K=4 loop iterations after the last '
            'injected event (logical steps, no wall clock).  Raptor-bound '
            'tasks and named-environment tasks are part of the streams; '
            'priority is decided on scripted two-task scenarios.'
            "  Second session: a quarter of the histories carry raptor tasks (named master, any master '*', tasks returning with raptor_seen) with the master's queue registering/unregistering at seeded points: partition rule incl. backlog/queue, no local placement of a raptor task, backlog flushed once the queue is registered."
            '  Third session: a threaded wait-pool workload - a running task ends (the loop re-tests the wait pool) while cancel requests for waiting tasks arrive on the control thread, LINE perturbation of _schedule_waitpool/control_cb: every waiting task ends up in exactly one place (placed once, canceled once, or still waiting).  The raptor registration race additionally registers the master exactly when the loop is about to enter its raptor section (gate on the raptor lock).'
            '  A directed scenario: everybody who waited is canceled, the running task ends (a release into an empty wait pool), then a task arrives which waits for its named environment - it starts once the environment is registered.'
            '  In half of the threaded wait-pool histories every other waiting task needs a named environment, registered by the control thread exactly while the loop is at a chosen statement of a wait pool re-test (LINE hook).',
    'note': 'unbounded "eventually" restated as K=4 iterations; fit oracle '
            'only for tag-free, whole-GPU requests in scattered mode (other '
            'requests take part in the partition and at-most-once oracles '
            'only); Continuous scheduler.'}
RULE   = ('seeded gated histories as C01 (with cancels, named envs, raptor '
          'ids, invalid rank counts) plus scripted priority scenarios '
          '(blocker + two waiting tasks of different priority, release fits '
          'exactly one); non-trivial = at least one task had to wait or was '
          'canceled/failed; distinct = digest(layout, trace).')
ASSUMPTIONS = ['a task "fits" when a rank assignment exists that respects '
               'per-node free cores/GPUs/lfs/mem and ranks_per_node',
               'bounded progress: K=4 loop iterations']
SHARDS   = {'quick': 16, 'thorough': 16}
TIMEOUT  = {'quick': 600, 'thorough': 5400}
REQUIRED = {'partition_checks': 20000, 'outcome_reports': 3000,
            'progress_points': 300, 'idle_points': 100, 'alone_checks': 30,
            'priority_scenarios': 100, 'failures_checked': 100}


# ------------------------------------------------------------------------------
#
def priority_scenario(ctx, res, rng, idx):
    '''
    one node of C cores, a blocker holding all of them, two waiting tasks A and
    B of different priority with a + b > C, a <= C, b <= C.  When the blocker
    is released only one can run: it must be the one with higher priority.
    '''
    C  = rng.choice([2, 3, 4, 6, 8])
    a  = rng.randint(1, C)
    b  = rng.randint(max(1, C - a + 1), C)
    pa, pb = rng.sample([0, 1, 2, 3], 2)
    lay = {'nodes': 1, 'cores_per_node': C, 'gpus_per_node': 0, 'lfs': 0,
           'mem': 0, 'blocked_cores': [], 'blocked_gpus': [],
           'agent_nodes': 0}

    def t(uid, cores, prio):
        # ranks x cores_per_rank = cores
        if rng.random() < 0.5:
            r, c = cores, 1
        else:
            r, c = 1, cores
        return {'uid': uid, 'ranks': r, 'cores_per_rank': c,
                'gpus_per_rank': 0., 'lfs_per_rank': 0, 'mem_per_rank': 0,
                'ranks_per_node': None, 'priority': prio, 'tags': {},
                'named_env': '', 'app_slots': False}

    case = {'layout': lay, 'scheduler': 'CONTINUOUS', 'scattered': True,
            'random_bulk': False, 'seed': rng.randint(0, 2 ** 30),
            'tasks': [t('blk', C, rng.choice([0, 5])), t('A', a, pa),
                      t('B', b, pb)],
            'order': rng.choice(['AB', 'BA', 'together', 'together-rev']),
            'kind': 'priority'}
    run_priority(ctx, res, case)
    return case


def idle_pool_scenario(ctx, res, rng, idx):
    """
    The loop only re-tests its wait pool after a release.  A release which
    comes while NOBODY waits (everybody who waited was canceled) must still
    count: a task which arrives later and has to wait for something else than
    cores (its named environment) starts as soon as that is there.
    """
    C   = rng.choice([1, 2, 4])
    lay = {'nodes': 1, 'cores_per_node': C, 'gpus_per_node': 0, 'lfs': 0,
           'mem': 0, 'blocked_cores': [], 'blocked_gpus': [],
           'agent_nodes': 0}

    def t(uid, cores, env=''):
        return {'uid': uid, 'ranks': 1, 'cores_per_rank': cores,
                'gpus_per_rank': 0., 'lfs_per_rank': 0, 'mem_per_rank': 0,
                'ranks_per_node': None, 'priority': 0, 'tags': {},
                'named_env': env, 'app_slots': False}

    n_wait = rng.randint(1, 3)
    case = {'layout': lay, 'scheduler': 'CONTINUOUS', 'scattered': True,
            'random_bulk': False, 'seed': rng.randint(0, 2 ** 30),
            'tasks': [t('blk', C)] +
                     [t('w%d' % i, rng.randint(1, C)) for i in range(n_wait)] +
                     [t('N', rng.randint(1, C), 'env1')],
            'n_wait': n_wait, 'gaps': [rng.randint(1, 3) for _ in range(6)],
            'kind': 'idle-pool'}
    wd = os.path.join(ctx.workdir or os.getcwd(), 'idlepool')
    os.makedirs(wd, exist_ok=True)
    sim = None
    try:
        sim = Sim(wd, case, observers=[])
        g = case['gaps']
        sim.arrive(['blk']); sim.intake(); sim.iteration(2)
        if 'blk' not in sim.held:
            res.inconc('idle pool scenario: blocker not started')
            return case
        waits = ['w%d' % i for i in range(n_wait)]
        for u in waits:                      # one by one: separate passes
            sim.arrive([u]); sim.intake(); sim.iteration(g[0])
        sim.iteration(g[1])
        sim.cancel(waits); sim.pump(); sim.iteration(g[2])
        sim.complete('blk'); sim.pump(); sim.iteration(g[3])
        sim.arrive(['N']); sim.intake(); sim.iteration(g[4])
        if 'N' in sim.granted:
            res.violation('task-started-without-its-environment', 'N', {
                          'case': case, 'trace': sim.trace})
            return case
        sim.control('register_named_env', {'env_name': 'env1'})
        sim.pump(); sim.iteration(Progress.K + g[5])
        res.count('idle_pool_scenarios')
        if 'N' not in sim.granted:
            res.violation('idle-pilot-starts-nothing', 'the pilot is idle, the '
                          'environment of N is registered, N fits - and still '
                          'waits (%s)' % sim.waiting(),
                          {'case': case, 'trace': sim.trace})
    except TimeoutError as e:
        res.inconc('idle pool scenario: %r' % e)
    except RuntimeError as e:
        res.violation('history-stuck', repr(e), {'case': case})
    finally:
        if sim:
            sim.close()
        os.chdir(ctx.workdir or '/')
    return case


def run_priority(ctx, res, case):

    wd = os.path.join(ctx.workdir or os.getcwd(), 'prio')
    os.makedirs(wd, exist_ok=True)
    prog = Progress(res)
    sim  = None
    try:
        sim = Sim(wd, case, observers=[prog])
        sim.arrive(['blk']); sim.intake(); sim.iteration(2)
        if 'blk' not in sim.held:
            res.violation('blocker-not-started', str(case), {'case': case})
            return
        o = case['order']
        if   o == 'AB': seq = [['A'], ['B']]
        elif o == 'BA': seq = [['B'], ['A']]
        elif o == 'together': seq = [['A', 'B']]
        else: seq = [['B', 'A']]
        for uids in seq:
            sim.arrive(uids); sim.intake(); sim.iteration(1)
        sim.iteration(1)
        if set(sim.waiting()) != {'A', 'B'}:
            res.violation('priority-setup', 'waiting: %s' % sim.waiting(),
                          {'case': case, 'trace': sim.trace})
            return
        sim.complete('blk'); sim.pump(); sim.iteration(Progress.K)
        res.count('priority_scenarios')
        ts   = {t['uid']: t for t in case['tasks']}
        high = 'A' if ts['A']['priority'] > ts['B']['priority'] else 'B'
        low  = 'B' if high == 'A' else 'A'
        if high not in sim.granted or low in sim.granted:
            res.violation('priority-inverted', 'after the release: started %s, '
                          'waiting %s; %s has the higher priority'
                          % (sorted(u for u in sim.granted if u != 'blk'),
                             sim.waiting(), high),
                          {'case': case, 'trace': sim.trace})
    except TimeoutError as e:
        res.inconc('priority scenario: %r' % e)
    except RuntimeError as e:
        res.violation('history-stuck', repr(e), {'case': case})
    finally:
        if sim:
            sim.close()
        os.chdir(ctx.workdir or '/')
        shutil.rmtree(wd, ignore_errors=True)


# ------------------------------------------------------------------------------
#
def _after(sim, obs):
    prog = next(o for o in obs if isinstance(o, Progress))
    prog.check_failures(sim)
    res = prog.res
    # at the end of a settled history the pilot is idle: nothing may wait
    # except tasks whose named environment was never registered
    for uid in sim.waiting():
        t = sim.tasks[uid]
        res.see('waiting_at_end', uid[:1])
    for uid in sim.submitted:
        where = sim.places(uid)
        for w in where:
            res.see('final_places', w)

    # raptor forwarding: once the master's queue is registered (and the
    # registration was delivered: the history is settled) nothing addressed to
    # it, or to any master ('*'), may stay in the scheduler's backlog.  (After
    # an unregistration the backlog is failed, but tasks arriving later wait
    # for the next registration, so nothing is required of the backlog then
    # beyond the partition rule: in exactly one place, reported once.)
    if sim.case.get('raptor'):
        res.count('raptor_histories')
        wanted = getattr(sim, 'raptor_wanted', None)
        for uid in sim.submitted:
            t = sim.tasks[uid]
            if not t.get('raptor_id') or t.get('raptor_seen') or t['ranks'] <= 0:
                continue
            where = sim.places(uid)
            res.count('raptor_tasks_checked')
            for w in where:
                res.see('raptor_places', w)
            if 'started' in where:
                res.violation('raptor-task-scheduled-locally',
                              '%s (raptor_id %s) was placed by the pilot '
                              'scheduler: %s' % (uid, t['raptor_id'], where),
                              {'case': sim.case, 'trace': sim.trace})
            if 'raptor-backlog' in where:
                if wanted is True:
                    res.violation('raptor-backlog-not-flushed',
                                  '%s (raptor_id %s) still in the backlog '
                                  'although the queue is registered'
                                  % (uid, t['raptor_id']),
                                  {'case': sim.case, 'trace': sim.trace})


def _nontrivial(sim):
    return bool(sim.finals) or any(a[0] == 'step' and a[1] == 'waitpool'
                                   for a in sim.trace) and \
           len(sim.submitted) > len(sim.granted) or len(sim.grants) >= 2


# ------------------------------------------------------------------------------
# raptor forwarding with its two real threads: the scheduling loop caches or
# forwards requests for a raptor master while the control subscriber thread
# registers that master's queue (and flushes the cache).  Whatever the
# interleaving: once the queue is registered and everything went quiet, every
# request was forwarded exactly once and the cache is empty.
#
def raptor_race(ctx, res, rng, idx):
    import time
    import threading as mt
    from ..agentkit import AgentEnv, SchedulerPair
    from ..schedsim import task_dict
    from ..popsim   import Perturb
    import radical.pilot.agent.scheduler.base as m_sb

    wd = os.path.join(ctx.workdir or os.getcwd(), 'rrace')
    os.makedirs(wd, exist_ok=True)
    lay  = {'nodes': 1, 'cores_per_node': 4, 'gpus_per_node': 0, 'lfs': 0,
            'mem': 0, 'blocked_cores': [], 'blocked_gpus': [],
            'agent_nodes': 0}
    case = {'kind': 'raptor-race', 'seed': rng.randint(0, 2 ** 30),
            'n_bulks': rng.randint(6, 14),
            'register_after': rng.choice([0, 1, 2, 3, 5]),
            'ids': rng.choice([['raptor.0'], ['raptor.0', '*'], ['*']])}
    env = pair = per = None
    try:
        env  = AgentEnv(wd, lay, seed=case['seed'], mode='threaded')
        per  = Perturb(case['seed'], 0.3,
                       funcs=[m_sb.AgentSchedulingComponent._schedule_incoming,
                              m_sb.AgentSchedulingComponent.control_cb])
        crng = __import__('random').Random(case['seed'])
        pair = SchedulerPair(env, gated=False)
        pair.start()
        from ..core import YieldLock
        uids = list()
        n    = 0
        reg_msg = {'cmd': 'register_raptor_queue',
                   'arg': {'name': 'raptor.0', 'queue': 'raptor_q',
                           'addr': 'mem://raptor/queue'}}
        reg_when = crng.choice(['before', 'after', 'after', 'after-nap',
                                'at-lock', 'at-lock'])
        gate_st  = {'armed': False, 'fired': False}

        def gate():
            # 'at-lock': the master's registration is handled exactly while
            # the scheduling loop is about to enter its raptor section (it
            # was preempted there) - whatever the loop decided before that
            # point is stale now
            if reg_when != 'at-lock' or gate_st['fired'] or \
               not gate_st['armed'] or mt.current_thread() is not pair.thread:
                return
            gate_st['fired'] = True
            env.publish(rpc.CONTROL_PUBSUB, reg_msg)
            t_end = time.time() + 0.5
            while 'raptor.0' not in pair.child._raptor_queues and \
                    time.time() < t_end:
                time.sleep(0.0005)
            res.count('raptor_registrations_at_lock')

        pair.child._raptor_lock = YieldLock(pair.child._raptor_lock,
                                            case['seed'], '_raptor_lock',
                                            gate=gate)
        for b in range(case['n_bulks']):
            if b == case['register_after'] and reg_when == 'before':
                env.publish(rpc.CONTROL_PUBSUB, reg_msg)
            bulk = list()
            for _ in range(crng.randint(1, 3)):
                uid = 'r.%03d' % n; n += 1
                uids.append(uid)
                t = {'uid': uid, 'ranks': 1, 'cores_per_rank': 1,
                     'gpus_per_rank': 0., 'lfs_per_rank': 0, 'mem_per_rank': 0,
                     'ranks_per_node': None, 'priority': 0, 'tags': {},
                     'named_env': '', 'app_slots': False,
                     'raptor_id': crng.choice(case['ids'])}
                bulk.append(task_dict(t))
            if b == case['register_after']:
                gate_st['armed'] = True
            env.put(rpc.AGENT_SCHEDULING_QUEUE, bulk)
            pair.intake()
            if b == case['register_after'] and reg_when in ('after',
                                                            'after-nap'):
                # the master registers while the loop is busy with this bulk
                if reg_when == 'after-nap':
                    time.sleep(crng.choice([0.0002, 0.0005, 0.001]))
                env.publish(rpc.CONTROL_PUBSUB, reg_msg)
            time.sleep(crng.choice([0, 0.0005, 0.002, 0.004]))

        if reg_when == 'at-lock':
            # the loop may lag behind the submissions: let it get to its
            # raptor section; if it never enters it after the chosen bulk,
            # register now
            t_end = time.time() + 5
            while not gate_st['fired'] and time.time() < t_end and \
                    not (pair.child._queue_sched.empty() and
                         time.time() > t_end - 4.8):
                time.sleep(0.001)
            if not gate_st['fired']:
                gate_st['fired'] = True
                env.publish(rpc.CONTROL_PUBSUB, reg_msg)

        # quiescence: the loop is idle when its input queue stays empty and
        # the counts below do not move any more
        def counts():
            q = env.net.queues.get('mem://raptor/queue', {})
            fw = dict()
            for ev in env.net.events('put'):
                if ev['url'] == 'mem://raptor/queue':
                    for t in ev['payload']:
                        fw[t['uid']] = fw.get(t['uid'], 0) + 1
            c = pair.child
            with c._raptor_lock:
                cached = {t['uid'] for ts in c._raptor_tasks.values()
                                   for t in ts}
            return fw, cached
        last, stable, t0, mark = None, 0, time.time(), pair.passes
        while time.time() - t0 < 60:
            fw, cached = counts()
            snap = (sorted(fw.items()), sorted(cached),
                    pair.child._queue_sched.empty())
            # quiet = nothing changed while the loop completed three more
            # passes with an empty queue and no message was in delivery (a
            # loop which was merely descheduled completes no passes)
            if snap == last and snap[2] and env.net.settled():
                stable += 1
                if stable >= 8 and pair.passes >= mark + 3:
                    break
            else:
                stable, last, mark = 0, snap, pair.passes
            time.sleep(0.01)
        else:
            res.inconc('raptor race: history did not go quiet in 60 s')
            return
        res.count('raptor_race_histories')
        ctx_ = {'case': case, 'forwarded': fw, 'cached': sorted(cached)}
        if pair.child_error:
            res.violation('raptor-race/loop-died', repr(pair.child_error), ctx_)
            return
        for e in env.net.errors:
            res.violation('raptor-race/callback-raised', e[2], ctx_)
            return
        for uid in uids:
            res.count('raptor_race_tasks_checked')
            k = fw.get(uid, 0)
            if k > 1:
                res.violation('raptor-task-forwarded-twice', '%s: %d times'
                              % (uid, k), ctx_)
                return
            if k == 0:
                mech = 'raptor-backlog-not-flushed' if uid in cached \
                       else 'task-lost'
                res.violation(mech, '%s was never forwarded although its '
                              'master is registered (%s)'
                              % (uid, 'still cached' if uid in cached
                                      else 'nowhere'), ctx_)
                return
    finally:
        if per:
            per.stop()
        if pair:
            pair.stop()
        if env:
            env.close()
        os.chdir(ctx.workdir or '/')
        shutil.rmtree(wd, ignore_errors=True)


# ------------------------------------------------------------------------------
# (d) cancel requests for waiting tasks arrive on the control thread while the
#     loop re-tests the wait pool (a running task just ended): every task ends
#     up in exactly one place - placed once, or canceled once
#
def waitpool_cancel_race(ctx, res, rng, idx):
    import time
    import threading as mt
    from ..agentkit import AgentEnv, SchedulerPair
    from ..schedsim import task_dict
    from ..popsim   import Perturb
    import radical.pilot.agent.scheduler.base as m_sb

    wd = os.path.join(ctx.workdir or os.getcwd(), 'wrace')
    os.makedirs(wd, exist_ok=True)
    cores = rng.choice([2, 3, 4])
    lay  = {'nodes': 1, 'cores_per_node': cores, 'gpus_per_node': 0, 'lfs': 0,
            'mem': 0, 'blocked_cores': [], 'blocked_gpus': [],
            'agent_nodes': 0}
    case = {'kind': 'waitpool-cancel-race', 'seed': rng.randint(0, 2 ** 30),
            'cores': cores, 'n_wait': rng.randint(2, 6)}
    env = pair = per = None
    try:
        env  = AgentEnv(wd, lay, seed=case['seed'], mode='threaded')
        crng = __import__('random').Random(case['seed'])
        # the named environment may be registered exactly while the loop is
        # at the k-th statement of a wait pool re-test
        reg_env  = {'cmd': 'register_named_env', 'arg': {'env_name': 've.1'}}
        wp_code  = m_sb.AgentSchedulingComponent._schedule_waitpool.__code__
        env_gate = {'armed': False, 'fired': False, 'count': 0,
                    'at': crng.randint(1, 14)}
        def on_line(code, line):
            if not env_gate['armed'] or env_gate['fired'] or \
               code is not wp_code or mt.current_thread() is not pair.thread:
                return
            env_gate['count'] += 1
            if env_gate['count'] < env_gate['at']:
                return
            env_gate['fired'] = True
            env.publish(rpc.CONTROL_PUBSUB, reg_env)
            t_end = time.time() + 0.5
            while 've.1' not in pair.child._named_envs and \
                    time.time() < t_end:
                time.sleep(0.0005)
            res.count('named_env_registrations_inside_retest')
        per  = Perturb(case['seed'], 0.3,
                       funcs=[m_sb.AgentSchedulingComponent._schedule_waitpool,
                              m_sb.AgentSchedulingComponent.control_cb],
                       on_line=on_line)
        pair = SchedulerPair(env, gated=False)
        pair.start()

        def mk(uid, named_env=''):
            return task_dict({'uid': uid, 'ranks': 1, 'cores_per_rank': 1,
                              'gpus_per_rank': 0., 'lfs_per_rank': 0,
                              'mem_per_rank': 0, 'ranks_per_node': None,
                              'priority': 0, 'tags': {},
                              'named_env': named_env,
                              'app_slots': False})

        def outcomes():
            placed, canceled = dict(), dict()
            for ev in env.net.events('put'):
                if ev['url'].endswith('/' + rpc.AGENT_EXECUTING_QUEUE):
                    for t in ev['payload']:
                        placed.setdefault(t['uid'], list()).append(t)
            for ev in env.net.events('pub'):
                if ev['url'].endswith('/' + rpc.STATE_PUBSUB):
                    for t in ru.as_list((ev['payload'] or {}).get('arg')):
                        if isinstance(t, dict) and \
                                t.get('state') == rps.CANCELED:
                            canceled[t['uid']] = canceled.get(t['uid'], 0) + 1
            return placed, canceled

        def pool_uids():
            # the loop thread changes the pools while we look: a torn read
            # (dict changed size during iteration) is read again
            for _ in range(1000):
                try:
                    return [u for p in list(pair.child._waitpool.values())
                              for u in list(p)]
                except RuntimeError:
                    time.sleep(0.001)
            raise RuntimeError('wait pool cannot be read')

        def settle(pred, limit=20.0):
            t0 = time.time()
            while time.time() - t0 < limit:
                if pred():
                    return True
                time.sleep(0.002)
            return False

        running = ['run.%d' % i for i in range(cores)]
        waiting = ['wait.%d' % i for i in range(case['n_wait'])]
        env.put(rpc.AGENT_SCHEDULING_QUEUE, [mk(u) for u in running])
        pair.intake()
        if not settle(lambda: len(outcomes()[0]) == cores):
            res.inconc('wait pool race: the pilot did not fill in 20 s')
            return
        # in half of the histories every other waiting task needs a named
        # environment which is registered (control thread) while the loop
        # re-tests the wait pool
        with_env = case['seed'] % 2 == 1
        case['named_env'] = with_env
        env.put(rpc.AGENT_SCHEDULING_QUEUE,
                [mk(u, 've.1' if with_env and i % 2 else '')
                 for i, u in enumerate(waiting)])
        pair.intake()
        if not settle(lambda: len(pool_uids()) == len(waiting)):
            res.inconc('wait pool race: tasks did not reach the wait pool')
            return

        # one running task ends -> the loop re-tests the wait pool; the
        # cancel requests for waiting tasks arrive around that moment
        victims = crng.sample(waiting, crng.randint(1, len(waiting)))
        placed0 = outcomes()[0]
        for k, u in enumerate(running[:crng.randint(1, cores)]):
            env.publish(rpc.AGENT_UNSCHEDULE_PUBSUB, placed0[u][0])
            time.sleep(crng.choice([0, 0.0002, 0.0005, 0.001, 0.003]))
            if with_env and k == 0:
                if case['seed'] % 4 == 1:
                    env.publish(rpc.CONTROL_PUBSUB, reg_env)
                    env_gate['fired'] = True
                    res.count('named_env_registrations_during_retest')
                else:
                    env_gate['armed'] = True
            if k < len(victims):
                env.publish(rpc.CONTROL_PUBSUB, {'cmd': 'cancel_tasks',
                            'arg': {'uids': [victims[k]]}})
            time.sleep(crng.choice([0, 0.001, 0.004]))
        for u in victims[cores:]:
            env.publish(rpc.CONTROL_PUBSUB, {'cmd': 'cancel_tasks',
                                             'arg': {'uids': [u]}})
        if with_env and not env_gate['fired']:
            # the loop did not get that far into a re-test: register now
            t_end = time.time() + 1.0
            while not env_gate['fired'] and time.time() < t_end:
                time.sleep(0.001)
            if not env_gate['fired']:
                env_gate['fired'] = True
                env.publish(rpc.CONTROL_PUBSUB, reg_env)

        # quiescence: nothing moves any more
        last, stable, t0, mark = None, 0, time.time(), pair.passes
        while time.time() - t0 < 30:
            pl, ca = outcomes()
            snap = (sorted((u, len(v)) for u, v in pl.items()),
                    sorted(ca.items()), pair.child._queue_sched.empty())
            if snap == last and snap[2] and env.net.settled():
                stable += 1
                if stable >= 15 and pair.passes >= mark + 3:
                    break
            else:
                stable, last, mark = 0, snap, pair.passes
            time.sleep(0.01)
        else:
            res.inconc('wait pool race: history did not go quiet in 30 s')
            return
        res.count('waitpool_race_histories')
        pl, ca = outcomes()
        pool = set(pool_uids())
        ctx_ = {'case': case, 'victims': victims,
                'placed': {u: len(v) for u, v in pl.items()},
                'canceled': ca, 'pool': sorted(pool)}
        if pair.child_error:
            res.violation('waitpool-race/loop-died', repr(pair.child_error),
                          ctx_)
            return
        for e in env.net.errors:
            res.violation('waitpool-race/callback-raised', e[2], ctx_)
            return
        for u in waiting:
            res.count('waitpool_race_tasks_checked')
            where = (['placed'] * len(pl.get(u, [])) +
                     ['canceled'] * ca.get(u, 0) +
                     (['waitpool'] if u in pool else []))
            if len(where) > 1:
                res.violation('task-in-two-places', '%s is in %s' % (u, where),
                              ctx_)
                return
            if not where:
                res.violation('task-lost', '%s is nowhere' % u, ctx_)
                return
            if where == ['canceled'] and u not in victims:
                res.violation('waiting-task-canceled-unrequested', u, ctx_)
                return
    finally:
        if per:
            per.stop()
        if pair:
            pair.stop()
        if env:
            env.close()
        os.chdir(ctx.workdir or '/')
        shutil.rmtree(wd, ignore_errors=True)


def run(ctx):
    res = Result()
    run_histories(ctx, res, ctx.n(2400, 24000), lambda r: [Progress(r)],
                  after=_after, nontrivial=_nontrivial, salt='c04')
    # simple request streams: the fit oracle applies to all of them
    run_histories(ctx, res, ctx.n(1200, 12000), lambda r: [Progress(r)],
                  gen_kwargs={'simple': True, 'allow_app_slots': False},
                  after=_after, nontrivial=_nontrivial, salt='c04s')
    rng = ctx.rng('prio')
    for i in range(ctx.n(800, 8000)):
        case = priority_scenario(ctx, res, rng, i)
        res.evaluations += 1
        res.digests.add(digest(case))
        if len(res.violations) > 40:
            break
    rng = ctx.rng('idlepool')
    for i in range(ctx.n(320, 6400)):
        case = idle_pool_scenario(ctx, res, rng, i)
        res.evaluations += 1
        if len(res.violations) > 40:
            break
    # last: leave threads of the scheduler pair behind
    rng = ctx.rng('wrace')
    for i in range(ctx.n(240, 4800)):
        waitpool_cancel_race(ctx, res, rng, i)
        res.evaluations += 1
        if len(res.violations) > 30:
            break
    rng = ctx.rng('rrace')
    for i in range(ctx.n(640, 9600)):
        raptor_race(ctx, res, rng, i)
        res.evaluations += 1
        if len(res.violations) > 30:
            break

    return res


def replay(case, ctx):
    res = Result()
    c = case.get('case')
    if c and c.get('kind') == 'priority':
        run_priority(ctx, res, c)
    elif c:
        run_one(ctx, res, c, lambda r: [Progress(r)], after=_after)
    return res
