'''
C15 - Waiting on tasks and pilots returns when it should.

Monitor: the four real wait calls (Task.wait, Pilot.wait,
TaskManager.wait_tasks, PilotManager.wait_pilots) run under a *virtual clock*:
the `time` name of the four modules is replaced by an object whose `sleep()`
advances virtual time, applies the trajectory's due state notifications through
the real update paths, and evaluates the oracle after every poll.  Verdicts are
in polls, never in wall-clock time.
'''

from ..core    import Result, digest
from ..harness import rp, rps, rpc, make_tmgr, make_task, make_pmgr, make_pilot

import radical.pilot.task          as m_task           # noqa (after boot)
import radical.pilot.pilot         as m_pilot          # noqa
import radical.pilot.task_manager  as m_tmgr           # noqa
import radical.pilot.pilot_manager as m_pmgr           # noqa

ID     = 'C15'
LEVEL  = 'exploration'
MANIFEST = {
    'technique': 'runtime monitoring under a virtual clock: poll-count oracle '
                 'on the real wait loops',
    'text': 'Each generated case (API, awaited set, requested states, '
            'per-entity trajectory, timeout) is executed against the real '
            'polling loops with time.time/time.sleep virtualised.  The oracle '
            'bounds the return by 3 polls after the first poll at which every '
            'awaited entity was visibly in a requested state or final (or after '
            'the timeout), flags a call still polling 50 polls later, requires '
            'the returned value to be the actual states and rejects a return '
            'before every entity reached/passed a requested state.'
            "  Second session: the oracle uses its own constant of final states (the repository's rps.FINAL list is mutable shared state which a wait call can corrupt for later calls of the same process)."
            '  Third session: a two-thread workload (400 / 12000 runs) puts wait_tasks on an application thread and the final notifications on a subscriber thread through the real _state_sub_cb, with a yield injected before every acquisition of the manager\'s task lock; the waiter\'s polls are counted and it has to return within 40 polls after the last notification was applied.'
            '  For wait_tasks a task which is past the earliest awaited state has reached it (the rule the method documents), also for the lateness bound.'
            '  5% of the cases are trickles: 8-30 tasks / pilots reach the awaited state one after the other, about one per poll, across the moment the timeout expires (the call makes progress in every poll round and still has to honour its timeout).'
            '  1.5% of the cases are long waits: the awaited state arrives after 61-90 s of virtual time (no or a 100 s timeout).',
    'note': 'bounded-progress restatement of "returns when it should" (3-poll '
            'slack, 50-poll hang threshold); state changes happen between '
            'polls, each state is held for at least one poll; timeout 0 is '
            'outside the domain (the code treats it as "no timeout").'}
RULE   = ('seeded cases over 4 APIs x requested {default, one, several, '
          'skipped-later} x trajectories (ending DONE/FAILED/CANCELED, already '
          'final at call time, never ending) x timeouts {None, 0.05, 1, 10} x '
          '1-4 entities; non-trivial = the awaited set is not satisfied at '
          'call time; distinct = case digest.')
ASSUMPTIONS = ['virtual clock: module attribute `time` of task.py, pilot.py, '
               'task_manager.py, pilot_manager.py is replaced in the harness '
               'process only']
SHARDS   = {'quick': 8, 'thorough': 16}
REQUIRED = {'returns_checked': 1500, 'polls': 20000, 'set:apis': 4,
            'threaded_waits': 100,
            'blocked_as_expected': 20}

SLACK = 3
HANG  = 50
CAP   = 260          # polls after which a legitimately blocking call is cut

_TV = rps._task_state_values
_PV = rps._pilot_state_values
_TORDER = [None] * 16
for _k, _v in _TV.items():
    if _k not in (None, rps.FAILED, rps.CANCELED):
        _TORDER[_v] = _k
_PORDER = [rps.NEW, rps.PMGR_LAUNCHING_PENDING, rps.PMGR_LAUNCHING,
           rps.PMGR_ACTIVE_PENDING, rps.PMGR_ACTIVE, rps.DONE]


# the documented final states, by name: the oracle must not read the
# repository's (mutable) `rps.FINAL` list, which the code under test can change
_FINAL = (rps.DONE, rps.FAILED, rps.CANCELED)


class Hang(BaseException):
    pass


class Blocking(BaseException):
    pass


# ------------------------------------------------------------------------------
#
class VClock(object):

    def __init__(self, on_tick):
        self.now     = 0.0
        self.polls   = 0
        self.on_tick = on_tick

    def time(self):
        return self.now

    def sleep(self, dt):
        self.now   += dt
        self.polls += 1
        self.on_tick(self)

    def __getattr__(self, name):
        import time as _t
        return getattr(_t, name)


# ------------------------------------------------------------------------------
#
def gen_trickle(rng):
    '''many entities which reach the awaited state one after the other, about
    one per poll, across the moment the timeout expires'''

    api   = rng.choice(['tmgr', 'tmgr', 'pmgr'])
    kind  = 'task' if api == 'tmgr' else 'pilot'
    order = _TORDER if kind == 'task' else _PORDER
    n     = rng.randint(8, 30)
    gap   = rng.choice([1, 1, 1, 2])
    end   = rng.choice([rps.DONE, rps.DONE, rps.FAILED, rps.CANCELED])
    ents  = [{'uid': '%s.%d' % (kind[0], i), 'start': order[0],
              'events': [[1 + gap * i, end]]} for i in range(n)]
    return {'api': api, 'entities': ents,
            'requested': rng.choice([None, None, end, [end]]),
            'select': rng.choice(['all', 'list']),
            'list_order': list(range(n)),
            'timeout': rng.choice([0.3, 0.5, 1]), 'trickle': True}


def gen_long(rng):
    '''a wait which is still pending after more than a minute (of virtual
    time): what the call awaits arrives late'''

    api   = rng.choice(['task', 'pilot', 'tmgr', 'pmgr'])
    kind  = 'task' if api in ('task', 'tmgr') else 'pilot'
    order = _TORDER if kind == 'task' else _PORDER
    n     = 1 if api in ('task', 'pilot') else rng.randint(1, 3)
    end   = rng.choice([rps.DONE, rps.DONE, rps.FAILED, rps.CANCELED])
    ents  = list()
    for i in range(n):
        late = rng.randint(610, 900)
        ents.append({'uid': '%s.%d' % (kind[0], i), 'start': order[0],
                     'events': [[rng.randint(1, 20), order[1]],
                                [rng.randint(30, 500), order[2]],
                                [late, order[3]], [late + 2, end]]})
    return {'api': api, 'entities': ents,
            'requested': rng.choice([None, None, end]),
            'select': 'self' if api in ('task', 'pilot') else 'all',
            'list_order': list(range(n)),
            'timeout': rng.choice([None, None, 100]), 'cap': 1100,
            'long': True}


def gen_case(rng):

    roll = rng.random()
    if roll < 0.05:
        return gen_trickle(rng)
    if roll < 0.065:
        return gen_long(rng)

    api  = rng.choice(['task', 'pilot', 'tmgr', 'pmgr'])
    kind = 'task' if api in ('task', 'tmgr') else 'pilot'
    order = _TORDER if kind == 'task' else _PORDER
    n    = 1 if api in ('task', 'pilot') else rng.randint(1, 4)

    ents = list()
    for i in range(n):
        # trajectory: strictly increasing state indices at increasing ticks
        top   = len(order) - 1
        start = rng.choice([0, 0, 0, rng.randint(0, top - 1)])
        end   = rng.choice([rps.DONE, rps.FAILED, rps.CANCELED, None, rps.DONE])
        pre_final = rng.random() < 0.12       # final already at call time
        evs, idx, t = list(), start, -1
        tick = 0
        while True:
            tick += rng.choice([1, 1, 2, 3, 7])
            if end in (rps.FAILED, rps.CANCELED) and rng.random() < 0.25:
                evs.append([tick, end]); break
            idx += rng.choice([1, 1, 1, 2, 4])
            if idx >= top:
                if end == rps.DONE:
                    evs.append([tick, rps.DONE])
                elif end in (rps.FAILED, rps.CANCELED):
                    evs.append([tick, end])
                break
            evs.append([tick, order[idx]])
            if end is None and rng.random() < 0.3:
                break
        if pre_final and end:
            evs = [[-1, end]]
        ents.append({'uid': '%s.%d' % (kind[0], i), 'start': order[start],
                     'events': evs})

    rq = rng.choice(['default', 'one', 'several', 'one'])
    if rq == 'default':
        req = None
    elif rq == 'one':
        req = rng.choice(order[1:] + [rps.FAILED, rps.CANCELED])
        if rng.random() < 0.3:
            req = [req]
    else:
        req = rng.sample(order[1:] + [rps.FAILED, rps.CANCELED],
                         rng.randint(2, 3))

    if api in ('tmgr', 'pmgr'):
        sel = rng.choice(['all', 'list', 'single'])
    else:
        sel = 'self'

    # an explicit list of entities is given in the caller's order, which need
    # not be the order of creation (nor sorted): the states come back in it
    order_ = list(range(n))
    if sel == 'list' and n > 1 and rng.random() < 0.6:
        rng.shuffle(order_)

    return {'api': api, 'entities': ents, 'requested': req, 'select': sel,
            'list_order': order_,
            'timeout': rng.choice([None, None, 0.05, 1, 10])}


# ------------------------------------------------------------------------------
#
def run_case(case, res):

    api   = case['api']
    kind  = 'task' if api in ('task', 'tmgr') else 'pilot'
    V     = _TV if kind == 'task' else _PV
    req   = case['requested']
    rlist = list(_FINAL) if req is None else \
            (list(req) if isinstance(req, list) else [req])
    rmin  = min(V[s] for s in rlist)

    tm = make_tmgr()
    pm = make_pmgr()
    objs = dict()

    def notify(uid, state):
        d = {'uid': uid, 'type': kind, 'state': state}
        if kind == 'task': tm._update_tasks([d])
        else             : pm._update_pilot(d)

    for e in case['entities']:
        if kind == 'task': objs[e['uid']] = make_task(tm, e['uid'])
        else             : objs[e['uid']] = make_pilot(pm, e['uid'])
        if e['start'] != rps.NEW:
            notify(e['uid'], e['start'])
        for t, s in e['events']:
            if t < 0:
                notify(e['uid'], s)

    uids = [e['uid'] for e in case['entities']]
    if   case['select'] == 'single': awaited = uids[:1]
    elif case['select'] == 'list'  :
        awaited = [uids[i] for i in case.get('list_order') or range(len(uids))]
        if awaited != uids:
            res.count('lists_not_in_creation_order')
    else                           : awaited = uids
    if api == 'pmgr' and case['select'] == 'all':
        # documented: `uids=None` means all pilots not yet final at call time
        awaited = [u for u in uids if objs[u].state not in _FINAL]

    pending = sorted([(t, e['uid'], s) for e in case['entities']
                                       for t, s in e['events'] if t >= 0])
    st = {'sat_poll': None, 'seen': set(), 'to_poll': None}
    timeout = case['timeout']
    if timeout is not None:
        st['to_poll'] = int(timeout / 0.1 + 0.999999)

    def visible(uid):
        s = objs[uid].state
        if api == 'tmgr':
            # wait_tasks: a task which is past the earliest awaited state has
            # reached it (documented in the method: "if the task happens to
            # be in any later state, we are sure the earliest has passed")
            return V[s] >= rmin or s in _FINAL
        return s in rlist or s in _FINAL

    def evaluate(poll):
        for u in awaited:
            if u not in st['seen'] and visible(u):
                st['seen'].add(u)
        if st['sat_poll'] is None and len(st['seen']) == len(awaited):
            st['sat_poll'] = poll

    def deadline():
        ds = [d for d in (st['sat_poll'], st['to_poll']) if d is not None]
        return min(ds) if ds else None

    def on_tick(clk):
        res.count('polls')
        # notifications are delivered *between* polls
        while pending and pending[0][0] <= clk.polls:
            _, uid, s = pending.pop(0)
            notify(uid, s)
        evaluate(clk.polls)
        d = deadline()
        if d is not None and clk.polls > d + HANG:
            raise Hang()
        if d is None and clk.polls > case.get('cap', CAP):
            raise Blocking()

    clk = VClock(on_tick)
    evaluate(0)
    nontrivial = st['sat_poll'] is None

    saved = (m_task.time, m_pilot.time, m_tmgr.time, m_pmgr.time)
    m_task.time = m_pilot.time = m_tmgr.time = m_pmgr.time = clk
    ret, outcome = None, 'returned'
    try:
        kw = {'state': req, 'timeout': timeout}
        if   api == 'task' : ret = objs[uids[0]].wait(**kw)
        elif api == 'pilot': ret = objs[uids[0]].wait(**kw)
        else:
            sel = {'all': None, 'list': list(awaited),
                   'single': uids[0]}[case['select']]
            if api == 'tmgr': ret = tm.wait_tasks (uids=sel, **kw)
            else            : ret = pm.wait_pilots(uids=sel, **kw)
    except Hang:
        outcome = 'hang'
    except Blocking:
        outcome = 'blocking'
    except Exception as e:
        outcome = 'raised %r' % e
    finally:
        m_task.time, m_pilot.time, m_tmgr.time, m_pmgr.time = saved

    res.see('apis', api)
    res.see('outcomes', outcome.split(' ')[0])
    ctx = {'case': case, 'outcome': outcome, 'polls': clk.polls,
           'sat_poll': st['sat_poll'], 'timeout_poll': st['to_poll'],
           'returned': ret, 'states': {u: objs[u].state for u in uids}}
    label = '%s.wait(state=%s)' % (api, 'default' if req is None else
                                   'list' if isinstance(req, list) else 'str')

    if outcome == 'hang':
        what = 'default' if req is None else \
               'other-final' if any(objs[u].state in _FINAL and
                                    objs[u].state not in rlist
                                    for u in awaited) else 'requested'
        res.violation('no-return/%s/%s' % (api, what),
                      '%s still polling %d polls after deadline poll %s '
                      '(states %s)' % (label, HANG, deadline(), ctx['states']),
                      ctx)
        return nontrivial

    if outcome == 'blocking':
        res.count('blocked_as_expected')
        return nontrivial

    if outcome != 'returned':
        res.violation('wait-raised/%s' % api, '%s %s' % (label, outcome), ctx)
        return nontrivial

    res.count('returns_checked')

    # (a) not later than SLACK polls after the deadline
    #     (a return without a deadline is judged by (c) alone: wait_tasks
    #     documents "has been in or passed" semantics, which is visible
    #     earlier than the exact-match moment used for the upper bound)
    d = deadline()
    if d is not None and clk.polls > d + SLACK:
        res.violation('late-return/%s' % api, '%s returned at poll %d, '
                      'deadline poll %d' % (label, clk.polls, d), ctx)

    # (b) returned value is the actual state(s)
    actual = [objs[u].state for u in awaited]
    if api in ('task', 'pilot') or case['select'] == 'single':
        exp = actual[0]
    else:
        exp = actual
    if ret != exp:
        mech = 'return-value/%s' % api
        if ret is None:
            mech = 'return-none/%s' % api
        res.violation(mech, '%s returned %r, actual %r' % (label, ret, exp),
                      ctx)

    # (c) not early: before the timeout every awaited entity must have
    #     reached or passed a requested state, or be final
    timed_out = st['to_poll'] is not None and clk.polls >= st['to_poll']
    if not timed_out:
        for u in awaited:
            s = objs[u].state
            if s not in _FINAL and V[s] < rmin:
                res.violation('early-return/%s' % api,
                              '%s returned at poll %d while %s is %s'
                              % (label, clk.polls, u, s), ctx)
                break

    return nontrivial


# ------------------------------------------------------------------------------
#
# ------------------------------------------------------------------------------
# (b) the waiter and the state updates on their two real threads
#
# `wait_tasks` polls on the application thread while `_update_tasks` applies
# notifications on the state subscriber thread.  A proxy around the manager's
# task lock yields just before the lock is taken.  Polls are counted, not
# seconds: once every awaited task is final the call has to return within a
# few polls.
#
class _PollClock(object):
    '''`time` for task_manager.py in the waiting thread: sleeps are short real
    sleeps and are counted; other threads see the real module'''

    def __init__(self, waiter_name, state):
        self._w, self._st = waiter_name, state

    def time(self):
        import time as _t
        return _t.time()

    def sleep(self, dt):
        import time as _t
        import threading as _mt
        if _mt.current_thread().name != self._w:
            return _t.sleep(dt)
        st = self._st
        st['polls'] += 1
        if st['final_at'] is not None and \
                st['polls'] - st['final_at'] > st['limit']:
            raise Hang()
        _t.sleep(0.001)

    def __getattr__(self, name):
        import time as _t
        return getattr(_t, name)


def run_threads(case, res):
    import time as _t
    import random
    import threading as _mt
    from ..core import YieldLock

    rng = random.Random(case['seed'])
    tm  = make_tmgr()
    n   = case['n']
    uids  = ['t.%d' % i for i in range(n)]
    tasks = {u: make_task(tm, u) for u in uids}
    for u in uids:
        tm._update_tasks([{'uid': u, 'type': 'task',
                           'state': rps.AGENT_EXECUTING_PENDING}])
    tm._tasks_lock = YieldLock(tm._tasks_lock, case['seed'], '_tasks_lock',
                               sleeps=[0, 0.0005, 0.001, 0.002, 0.004])
    st = {'polls': 0, 'final_at': None, 'limit': 40}
    out, errs = dict(), list()

    def waiter():
        try:
            out['ret'] = tm.wait_tasks(uids=list(uids), timeout=None)
        except Hang:
            out['hang'] = True
        except Exception as e:
            errs.append(repr(e))

    def updater():
        try:
            _t.sleep(rng.choice([0, 0.002, 0.005]))
            batches = [[u] for u in uids] if case['split'] else [list(uids)]
            for b in batches:
                tm._state_sub_cb(rpc.STATE_PUBSUB, {'cmd': 'update', 'arg': [
                    {'uid': u, 'type': 'task', 'state': rps.DONE,
                     'exit_code': 0, 'target_state': rps.DONE} for u in b]})
                _t.sleep(rng.choice([0, 0.001, 0.003]))
            st['final_at'] = st['polls']
        except Exception as e:
            errs.append(repr(e))

    saved = m_tmgr.time
    m_tmgr.time = _PollClock('app-waiter', st)
    try:
        a = _mt.Thread(target=waiter,  name='app-waiter')
        b = _mt.Thread(target=updater, name='state-sub')
        a.start(); b.start()
        b.join(timeout=30)
        a.join(timeout=30)
    finally:
        m_tmgr.time = saved

    res.count('threaded_waits')
    ctx = {'case': case, 'errors': errs, 'polls': st['polls'],
           'final_at_poll': st['final_at'],
           'states': {u: t.state for u, t in tasks.items()}}
    if a.is_alive() or b.is_alive():
        res.inconc('threaded wait: threads did not finish')
        return
    for e in errs:
        res.violation('threads/raised', e, ctx)
        return
    if out.get('hang'):
        res.violation('no-return/tmgr/threads', 'wait_tasks was still polling '
                      '%d polls after every awaited task had become final on '
                      'the subscriber thread' % st['limit'], ctx)
        return
    if out.get('ret') != [rps.DONE] * n:
        res.violation('return-value/tmgr/threads', 'returned %r'
                      % (out.get('ret'),), ctx)


def run(ctx):

    res = Result()
    rng = ctx.rng('threads')
    for i in range(ctx.n(400, 60000)):
        case = {'kind': 'threads', 'seed': rng.randint(0, 2 ** 30),
                'n': rng.randint(1, 4), 'split': rng.random() < 0.6}
        run_threads(case, res)
        res.evaluations += 1
        if len(res.violations) > 30:
            break

    rng = ctx.rng('cases')

    for i in range(ctx.n(12000, 2000000)):
        case = gen_case(rng)
        res.evaluations += 1
        nt = run_case(case, res)
        if nt:
            res.digests.add(digest(case))
            if len(res.samples) < 3:
                res.samples.append(case)

    return res


def replay(case, ctx):
    res = Result()
    if case['case'].get('kind') == 'threads':
        for _ in range(20):
            run_threads(case['case'], res)
            if res.violations:
                break
        res.evaluations = 1
        return res
    run_case(case['case'], res)
    res.evaluations = 1
    return res
