'''
C06 - Applications observe the linear task state model.

Monitor: a reference model of the documented task state model, run beside the
real `TaskManager._state_sub_cb -> _update_tasks -> Task._update -> _task_cb`
over generated sequences of notification batches.  After every batch the
states of *all* tasks and the callback sequence of every task are compared
with the model.
'''

from ..core    import Result, digest
from ..harness import rp, rps, rpc, make_tmgr, make_task

ID     = 'C06'
from ..harness import FINAL_STATES
LEVEL  = 'exploration'
MANIFEST = {
    'technique': 'runtime monitoring: reference state-model monitor + icontract '
                 'postcondition on the real notification path',
    'text': 'The real TaskManager._state_sub_cb/_update_tasks/Task._update/'
            '_task_cb path is driven with tens of thousands of seeded hostile '
            'notification histories; after every batch an executable model of '
            'the documented state model decides Task.state of every task and '
            'the exact callback sequence.  Held = no divergence on the '
            'histories generated; nothing is claimed beyond them.'
            '  Second session: 40% of the histories register application-like callbacks besides the observers (one-shot callbacks which unregister themselves, callbacks which register others, raising callbacks): the observers must be told the same states.'
            '  The pilot-end workload also runs both orders without overlap (pilot first, then the late task notification; tasks first, then the pilot end).'
            '  Callbacks registered with cb_data and registered again (new data) must be told every state once, with the latest data.'
            '  In 60% of the pilot-end races a third thread registers callbacks on the tasks themselves (Task.register_callback) while the notifications are handled: what such a callback is told moves forward only, each state once, the final state last.',
    'note': 'trusts the reference model (rpverif/props/c06.py:Model) as the '
            'reading of the documented state model; histories are sampled, '
            'not enumerated; callbacks observed through register_callback.'}
RULE   = ('seeded histories of 2-14 notification batches over 1-5 tasks (plus '
          'unknown uids); a batch mixes in-order, duplicated, re-ordered, '
          'skipping, late and contradictory-final notifications, full and '
          'partial task dicts.  A history is non-trivial if it contains at '
          'least one anomaly (duplicate/reorder/skip/late/contradiction); '
          'distinct = distinct (tasks, batches) digests.')
ASSUMPTIONS = ['notifications carry states of the documented model only',
               'callbacks are observed through TaskManager.register_callback '
               '(wildcard and per-task)']
SHARDS   = {'quick': 8, 'thorough': 16}
REQUIRED = {'callbacks_checked': 500, 'batches': 500, 'anomalies': 200,
            'contract_evals': 500}

_V   = rps._task_state_values
_INV = {v: k for k, v in _V.items() if k not in (rps.FAILED, rps.CANCELED,
                                                 None)}
_ORDER = [_INV[i] for i in range(0, 16)]          # NEW .. DONE


# ------------------------------------------------------------------------------
#
class Model(object):
    '''documented state model, per task'''

    def __init__(self, uids):
        self.state = {u: rps.NEW for u in uids}

    def apply(self, uid, target):
        '''returns the list of states a callback must announce'''
        if uid not in self.state:
            return []
        cur = self.state[uid]
        if cur in FINAL_STATES:
            # final is sticky (CANCELED -> DONE correction is *allowed*, see
            # check below, but not required)
            return []
        if target in (rps.FAILED, rps.CANCELED):
            self.state[uid] = target
            return [target]
        if _V[target] > _V[cur]:
            passed = [_ORDER[i] for i in range(_V[cur] + 1, _V[target] + 1)]
            self.state[uid] = target
            return passed
        return []


# ------------------------------------------------------------------------------
#
def _install_contract(res):
    '''postcondition on the real states._task_state_progress'''

    orig = rps._task_state_progress
    if getattr(orig, '_rpverif', False):
        return

    def check(uid, current, target, result):
        res.count('contract_evals')
        new, passed = result
        ok = True
        if _V[new] < _V[current]:
            ok = False
        if passed:
            if passed[-1] != new:
                ok = False
            vals = [_V[s] for s in passed]
            if new in (rps.FAILED, rps.CANCELED):
                vals = vals[:-1] + [15]
            exp = list(range(_V[current] + 1, _V[current] + 1 + len(passed)))
            if vals != exp:
                ok = False
        elif new != current and not (current == rps.CANCELED
                                     and new in FINAL_STATES):
            ok = False
        if not ok:
            res.violation('progress-contract',
                          '_task_state_progress(%s, %s) -> %s'
                          % (current, target, result),
                          {'current': current, 'target': target,
                           'result': list(result)})
        return True

    try:
        import icontract

        class ContractBroken(Exception):
            pass

        wrapped = icontract.ensure(check, error=ContractBroken)(orig)
        res.note('contract form: icontract.ensure')
    except ImportError:
        def wrapped(uid, current, target):
            result = orig(uid, current, target)
            check(uid, current, target, result)
            return result
        res.note('contract form: plain wrapper (icontract missing)')

    wrapped._rpverif = True
    rps._task_state_progress = wrapped


# ------------------------------------------------------------------------------
#
def gen_history(rng):

    n_tasks = rng.randint(1, 5)
    uids    = ['t.%d' % i for i in range(n_tasks)]
    cursor  = {u: 0 for u in uids}       # what a well behaved stream sent last
    final   = dict()
    batches = list()
    anomalies = 0

    for _ in range(rng.randint(2, 14)):
        batch = list()
        for _ in range(rng.randint(1, 6)):
            u    = rng.choice(uids)
            kind = rng.choices(['next', 'dup', 'skip', 'back', 'fail',
                                'cancel', 'done', 'contra', 'unknown'],
                               [30, 8, 12, 8, 5, 5, 5, 10, 3])[0]
            if kind == 'unknown':
                batch.append(['x.%d' % rng.randint(0, 2),
                              rng.choice(_ORDER[1:]), 'partial'])
                anomalies += 1
                continue
            cur = cursor[u]
            if kind == 'next':
                tgt = min(cur + 1, 15)
            elif kind == 'dup':
                tgt = cur; anomalies += 1
            elif kind == 'skip':
                tgt = min(cur + rng.randint(2, 6), 15); anomalies += 1
            elif kind == 'back':
                tgt = max(cur - rng.randint(1, 4), 0); anomalies += 1
            elif kind == 'done':
                tgt = 15
                if cur < 14: anomalies += 1
            elif kind in ('fail', 'cancel'):
                st = rps.FAILED if kind == 'fail' else rps.CANCELED
                if u in final and final[u] != st:
                    anomalies += 1
                final.setdefault(u, st)
                batch.append([u, st, 'full'])
                continue
            else:  # contradictory final: any final other than the first one
                st = rng.choice(FINAL_STATES)
                if u in final:
                    anomalies += 1
                final.setdefault(u, st)
                batch.append([u, st, 'full'])
                continue
            st = _ORDER[tgt]
            cursor[u] = max(cur, tgt)
            if st == rps.DONE:
                if u in final and final[u] != st:
                    anomalies += 1
                final.setdefault(u, st)
            batch.append([u, st, 'full' if st in FINAL_STATES
                                 else rng.choice(['partial', 'full'])])
        batches.append(batch)

    return {'uids': uids, 'batches': batches,
            'cb_style': rng.randint(1, 2 ** 30) if rng.random() < 0.4
                        else None}, anomalies


# ------------------------------------------------------------------------------
#
def run_history(case, res):

    tm    = make_tmgr()
    tasks = {u: make_task(tm, u) for u in case['uids']}
    model = Model(case['uids'])

    seen_all = list()          # wildcard callback
    seen_one = list()          # per-task callback on the first task

    def cb_all(task, state):
        seen_all.append((task.uid, state, task.state))

    def cb_one(task, state):
        seen_one.append((task.uid, state))

    tm.register_callback(cb_all)
    tasks[case['uids'][0]].register_callback(cb_one)

    # further callbacks which behave the way application callbacks do: they
    # raise, unregister themselves once they saw what they waited for
    # (one-shot), or register another callback.  None of that may change what
    # the observer above is told.
    style = case.get('cb_style')
    if style:
        res.count('histories_with_active_callbacks')
        import random as _random
        crng   = _random.Random(style)
        uids   = case['uids']
        states = [rps.TMGR_SCHEDULING, rps.AGENT_STAGING_INPUT,
                  rps.AGENT_EXECUTING, rps.AGENT_STAGING_OUTPUT_PENDING,
                  rps.DONE, rps.FAILED]

        def one_shot(uid, trigger, wildcard):
            def cb(task, state):
                if state == trigger and (wildcard or task.uid == uid):
                    res.count('one_shot_callbacks_fired')
                    if wildcard: tm.unregister_callback(cb)
                    else       : tm.unregister_callback(cb, uid=uid)
            if wildcard: tm.register_callback(cb)
            else       : tasks[uid].register_callback(cb)

        def raiser(trigger):
            def cb(task, state):
                if state == trigger:
                    res.count('raising_callbacks_fired')
                    raise RuntimeError('application callback failed')
            tm.register_callback(cb)

        def spawner(uid, trigger):
            def late(task, state):
                pass
            def cb(task, state):
                if state == trigger:
                    res.count('registering_callbacks_fired')
                    tasks[uid].register_callback(late)
            tm.register_callback(cb)

        # a callback registered with `cb_data`, and registered again with new
        # data (an application does so per wave of submissions): the second
        # registration replaces the first
        if crng.random() < 0.5:
            seen_data = list()
            def cb_data_cb(task, state, cb_data):
                seen_data.append((task.uid, state, cb_data['wave']))
            tm.register_callback(cb_data_cb, cb_data={'wave': 1})
            tm.register_callback(cb_data_cb, cb_data={'wave': 2})
            case['_seen_data'] = seen_data

        for _ in range(crng.randint(1, 4)):
            k = crng.choice(['one', 'one', 'one*', 'raise', 'spawn'])
            if   k == 'one'  : one_shot(crng.choice(uids), crng.choice(states), False)
            elif k == 'one*' : one_shot(None, crng.choice(states), True)
            elif k == 'raise': raiser(crng.choice(states))
            else             : spawner(crng.choice(uids), crng.choice(states))

    v0     = len(res.violations) + res.counters.get('violations_raw', 0)
    finals = dict()            # uid -> first final state observed on Task
    announced = {u: [] for u in case['uids']}

    for bi, batch in enumerate(case['batches']):

        # a refuted history has diverged from the model: report the first
        # divergence only, everything later is a consequence of it
        if len(res.violations) + res.counters.get('violations_raw', 0) > v0:
            break

        res.count('batches')
        msgs = list()
        for uid, state, form in batch:
            d = {'uid': uid, 'type': 'task', 'state': state}
            if form == 'full':
                d.update({'exit_code': 1 if state == rps.FAILED else 0,
                          'target_state': state,
                          'exception': 'E(%s)' % uid
                                       if state == rps.FAILED else None})
            msgs.append(d)

        expected = {u: [] for u in case['uids']}
        for uid, state, _ in batch:
            for s in model.apply(uid, state):
                expected[uid].append(s)

        n0  = len(seen_all)
        n1  = len(seen_one)
        exc = None
        try:
            tm._state_sub_cb(rpc.STATE_PUBSUB, {'cmd': 'update', 'arg': msgs})
        except Exception as e:          # the subscriber thread would log it
            exc = e
            res.count('exceptions_escaped')

        got = {u: [] for u in case['uids']}
        for uid, state, _ in seen_all[n0:]:
            got[uid].append(state)
            res.count('callbacks_checked')

        ctx = {'case': case, 'batch_index': bi,
               'exception': repr(exc) if exc else None}

        contra = exc is not None and isinstance(exc, ValueError) \
                 and 'invalid transition' in str(exc)

        for u in case['uids']:
            t = tasks[u]

            # (1) Task.state equals the model (CANCELED->DONE allowed)
            ok = t.state == model.state[u] or \
                 (model.state[u] == rps.CANCELED and t.state == rps.DONE)
            if not ok:
                mech = 'contradictory-final-aborts-batch' if contra \
                       else 'state-mismatch'
                res.violation(mech, 'task %s: state %s, model %s (batch %d, '
                              'exc %r)' % (u, t.state, model.state[u], bi, exc),
                              ctx)
            if t.state == rps.DONE and model.state[u] == rps.CANCELED:
                model.state[u] = rps.DONE

            # (2) callbacks announce exactly the model's passed states
            if got[u] != expected[u]:
                allowed = expected[u] + [rps.DONE] \
                          if model.state[u] == rps.DONE else None
                if got[u] != allowed:
                    mech = 'contradictory-final-aborts-batch' if contra \
                           else 'callback-sequence'
                    res.violation(mech, 'task %s: callbacks %s, model %s '
                                  '(batch %d, exc %r)' % (u, got[u],
                                  expected[u], bi, exc), ctx)

            # (3) independent of the model: forward-only, at most once,
            #     single steps, final is sticky
            for s in got[u]:
                prev = announced[u][-1] if announced[u] else rps.NEW
                if prev in FINAL_STATES and not (prev == rps.CANCELED
                                              and s == rps.DONE):
                    res.violation('callback-after-final',
                                  '%s: %s announced after %s' % (u, s, prev),
                                  ctx)
                elif s not in (rps.FAILED, rps.CANCELED) and \
                        _V[s] != _V[prev] + 1:
                    res.violation('callback-gap-or-regress',
                                  '%s: %s announced after %s' % (u, s, prev),
                                  ctx)
                announced[u].append(s)

            if u in finals and t.state != finals[u] and \
                    not (finals[u] == rps.CANCELED and t.state == rps.DONE):
                res.violation('final-changed', '%s: %s -> %s'
                              % (u, finals[u], t.state), ctx)
            if t.state in FINAL_STATES:
                finals.setdefault(u, t.state)
                if t.state == rps.DONE:
                    finals[u] = rps.DONE

        # per-task callback sees the same as the wildcard for that task
        u0 = case['uids'][0]
        if [s for _, s in seen_one[n1:]] != got[u0]:
            res.violation('per-task-callback-differs',
                          '%s vs %s' % (seen_one[n1:], got[u0]), ctx)

    seen_data = case.pop('_seen_data', None)
    if seen_data is not None and \
            len(res.violations) + res.counters.get('violations_raw', 0) == v0:
        res.count('cb_data_registrations_checked')
        want = [(u, s) for u, s, _ in seen_all]
        got_ = [(u, s) for u, s, _ in seen_data]
        if got_ != want:
            res.violation('cb-data-callback-differs', 'a callback registered '
                          'twice (with cb_data) was told %d states, the '
                          'observer %d: %s vs %s' % (len(got_), len(want),
                          got_[:8], want[:8]), {'case': case})
        elif any(w != 2 for _, _, w in seen_data):
            res.violation('cb-data-of-replaced-registration-delivered',
                          str(sorted({w for _, _, w in seen_data})),
                          {'case': case})

    for u in case['uids']:
        res.see('final_states', tasks[u].state
                if tasks[u].state in FINAL_STATES else 'non-final')


# ------------------------------------------------------------------------------
#
# ------------------------------------------------------------------------------
# (b) notifications racing the end of the tasks' pilot
#
# Task notifications are handled on the state subscriber thread, the end of a
# pilot (which fails the pilot's non-final tasks) on the pilot manager's thread.
# Both touch the same tasks.  Whatever the order, what the application is told
# through callbacks and what Task.state says have to agree, every task ends in
# one final state and nothing is raised.  A short sleep at the entry of
# Task._update (an existing call boundary) lets the two threads interleave.
#
def gen_concurrent(rng):
    n = rng.randint(1, 5)
    return {'kind': 'concurrent', 'seed': rng.randint(0, 2 ** 30),
            'n_tasks': n,
            'start': rng.choice([rps.AGENT_EXECUTING_PENDING,
                                 rps.AGENT_EXECUTING,
                                 rps.AGENT_STAGING_OUTPUT_PENDING,
                                 rps.TMGR_STAGING_OUTPUT_PENDING]),
            'finals': [rng.choice([rps.DONE, rps.DONE, rps.FAILED,
                                   rps.CANCELED]) for _ in range(n)],
            'pilot_final': rng.choice([rps.FAILED, rps.DONE, rps.CANCELED]),
            'delay': rng.choice([0, 0, 0.0005, 0.001, 0.003, 0.006]),
            # both orders without any overlap are part of the class: the late
            # notification for a task of a pilot which ended before, and the
            # end of a pilot whose tasks ended before
            'order': rng.choice(['race', 'race', 'pilot_first',
                                 'tasks_first']),
            # the application registers callbacks on the tasks themselves
            # while the notifications are being handled
            'late_reg': rng.choice([None, None, 0, 0.0005, 0.002])}


def run_concurrent(case, res):
    import time
    import random
    import threading as mt
    import radical.pilot.task as m_task
    from ..harness import make_pmgr, make_pilot

    rng = random.Random(case['seed'])
    pm  = make_pmgr()
    tm  = make_tmgr()
    p   = make_pilot(pm, 'pilot.0000')
    tm.add_pilots(p)
    uids  = ['t.%d' % i for i in range(case['n_tasks'])]
    tasks = {u: make_task(tm, u) for u in uids}
    for u in uids:
        tm._update_tasks([{'uid': u, 'type': 'task', 'state': case['start'],
                           'pilot': 'pilot.0000'}])
        if tasks[u].state != case['start']:
            res.inconc('concurrent: could not drive %s to %s'
                       % (u, case['start']))
            return

    seen, lock = list(), mt.Lock()
    def cb(task, state):
        with lock:
            seen.append((task.uid, state))
    tm.register_callback(cb)

    # a yield in front of the manager's task lock: what either thread looked
    # at before it takes the lock may be stale by then
    from ..core import YieldLock
    tm._tasks_lock = YieldLock(tm._tasks_lock, case['seed'], '_tasks_lock',
                               sleeps=[0, 0, 0.0003, 0.001, 0.002])

    orig   = m_task.Task._update
    sleeps = [0, 0, 0.0002, 0.0005, 0.001]
    def slow(self, d, reconnect=False):
        time.sleep(rng.choice(sleeps))
        return orig(self, d, reconnect)
    errs = list()

    def notify():
        try:
            tm._state_sub_cb(rpc.STATE_PUBSUB, {'cmd': 'update', 'arg': [
                {'uid': u, 'type': 'task', 'state': f, 'target_state': f,
                 'exit_code': 0 if f == rps.DONE else 1,
                 'exception': None if f == rps.DONE else 'E(%s)' % u}
                for u, f in zip(uids, case['finals'])]})
        except Exception as e:
            errs.append('task notification: %r' % e)

    def die():
        time.sleep(case['delay'])
        try:
            pm._state_sub_cb(rpc.STATE_PUBSUB, {'cmd': 'update', 'arg': [
                {'uid': 'pilot.0000', 'type': 'pilot',
                 'state': case['pilot_final']}]})
        except Exception as e:
            errs.append('pilot notification: %r' % e)

    late = list()
    def late_cb(task, state):
        with lock:
            late.append((task.uid, state))
    def registrar():
        time.sleep(case['late_reg'])
        try:
            for u in uids:
                tasks[u].register_callback(late_cb)
                time.sleep(rng.choice(sleeps))
        except Exception as e:
            errs.append('register_callback: %r' % e)
    c = None
    if case.get('late_reg') is not None:
        c = mt.Thread(target=registrar, name='app-register')

    m_task.Task._update = slow
    try:
        a = mt.Thread(target=notify, name='state-sub')
        b = mt.Thread(target=die,    name='pilot-cb')
        if c: c.start()
        order = case.get('order', 'race')
        res.see('concurrent_orders', order)
        if order == 'pilot_first':
            b.start(); b.join(timeout=30)
            a.start(); a.join(timeout=30)
        elif order == 'tasks_first':
            a.start(); a.join(timeout=30)
            b.start(); b.join(timeout=30)
        else:
            a.start(); b.start()
            a.join(timeout=30); b.join(timeout=30)
        if c: c.join(timeout=30)
    finally:
        m_task.Task._update = orig

    res.count('concurrent_histories')
    ctx = {'case': case, 'callbacks': list(seen), 'errors': errs,
           'late_callbacks': list(late),
           'states': {u: t.state for u, t in tasks.items()}}
    if a.is_alive() or b.is_alive() or (c and c.is_alive()):
        res.violation('concurrent/deadlock', 'the notification threads did '
                      'not finish', ctx)
        return
    for e in errs:
        res.violation('concurrent/raised', e, ctx)
        return
    for u, f in zip(uids, case['finals']):
        st  = tasks[u].state
        cbs = [s for x, s in seen if x == u]
        res.count('concurrent_tasks_checked')
        if st not in FINAL_STATES:
            res.violation('concurrent/not-final', '%s is %s after its final '
                          'notification (%s) and the end of its pilot'
                          % (u, st, f), ctx)
            return
        told = [s for s in cbs if s in FINAL_STATES]
        if told and told[-1] != st and not (told[-1] == rps.CANCELED and
                                            st == rps.DONE):
            res.violation('concurrent/callback-state-disagree',
                          '%s: the application was told %s by callback, '
                          'Task.state is %s (exception %r)'
                          % (u, told[-1], st, tasks[u].exception), ctx)
            return
        if len(set(told)) > 1 and not (told[0] == rps.CANCELED and
                                       set(told) == {rps.CANCELED, rps.DONE}):
            res.violation('concurrent/two-final-callbacks', '%s: %s'
                          % (u, told), ctx)
            return
        vals = [_V[s] for s in cbs]
        if vals != sorted(vals):
            res.violation('concurrent/callback-regress', '%s: %s' % (u, cbs),
                          ctx)
            return
        # a callback registered on the task while all this happens sees
        # what is announced from then on: forward only, each state once
        lcbs = [s for x, s in late if x == u]
        if lcbs:
            res.count('late_registered_callback_calls', len(lcbs))
        lv = [_V[s] for s in lcbs]
        lfin = [s for s in lcbs if s in FINAL_STATES]
        if lv != sorted(lv) or len(lcbs) != len(set(lcbs)) or len(lfin) > 1 \
                or (lfin and lcbs[-1] != lfin[0]):
            res.violation('concurrent/late-registered-callback-order',
                          '%s: a callback registered during the notifications '
                          'was called with %s' % (u, lcbs), ctx)
            return


def run(ctx):

    res = Result()
    _install_contract(res)

    rng = ctx.rng('conc')
    for i in range(ctx.n(1200, 40000)):
        case = gen_concurrent(rng)
        run_concurrent(case, res)
        if len(res.violations) > 30:
            break

    rng = ctx.rng('hist')

    for i in range(ctx.n(40000, 1500000)):
        case, anomalies = gen_history(rng)
        res.count('anomalies', anomalies)
        res.evaluations += 1
        if anomalies:
            res.digests.add(digest(case))
        if len(res.samples) < 2 and anomalies >= 2:
            res.samples.append(case)
        run_history(case, res)

    return res


def replay(case, ctx):
    res = Result()
    _install_contract(res)
    if case['case'].get('kind') == 'concurrent':
        for _ in range(20):
            run_concurrent(case['case'], res)
            if res.violations:
                break
        res.evaluations = 1
        return res
    run_history(case['case'], res)
    res.evaluations = 1
    return res
