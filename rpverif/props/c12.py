'''
C12 - Each task is bound to exactly one eligible pilot.

Monitor: the real client-side schedulers (RoundRobin, Backfilling; real
constructors, real work_cb / control / state callbacks) over the pumped
in-memory transport.  Every task pushed to TMGR_STAGING_INPUT_QUEUE and every
FAILED publication is recorded; an independent model of pilot roles, pilot
states and per-pilot usage (fed only from the messages actually delivered)
decides each forward.
'''

import os

from ..core    import Result, digest
from ..harness import rp, ru, rps, rpc, NullLog, NullProf, make_td
from ..harness import FINAL_STATES
from ..        import memzmq

import radical.pilot.tmgr.scheduler.base        as m_tbase       # noqa
import radical.pilot.tmgr.scheduler.backfilling as m_bf          # noqa

ID     = 'C12'
LEVEL  = 'exploration'
MANIFEST = {
    'technique': 'runtime monitoring: exactly-once / eligibility oracle over '
                 'forwards of the real client schedulers under pumped '
                 '(seeded) delivery orders',
    'text': 'Submissions (named and unnamed pilot), add/remove/re-add of '
            'pilots, pilot state notifications (in and out of order) and task '
            'state notifications (partial and full) are interleaved by a '
            'seeded pump; the monitor requires one forward (or one FAILED) per '
            'task, the named pilot for named tasks and only after it was '
            'added, an ADDED (never a REMOVED) pilot otherwise, waiting when '
            'no pilot is eligible, the session\'s sandboxes for the bound '
            'pilot, round-robin balance within a batch, and for backfilling '
            'the eligibility window, the high-water mark before each '
            'assignment and usage zero after all tasks finished.'
            "  Second session: remove commands name several pilots in any order, 'churn' histories remove/re-add often, task notifications include the full intermediate one the agent's output stager sends (TMGR_STAGING_OUTPUT_PENDING with all details); the usage model counts a task from its assignment to its first post-execution notification within one add-period."
            '  Third session: the session is the real one (constructor aside): sandboxes of forwarded tasks are checked against the bound pilot for default, named (shared by several tasks), nested and absolute task sandboxes.  A second two-thread workload delivers early-bound tasks on the work loop while add_pilots for the named pilots arrives on the subscriber thread (yield before the pilots lock, LINE perturbation of work/control_cb): every such task is forwarded exactly once; threads which do not finish are judged a deadlock only if all of them sit in a lock acquisition with unchanged stacks.'
            "  A third two-thread workload removes a pilot on the subscriber thread while the work loop binds large bulks: no task is bound (call of _assign_pilot) to the pilot after the scheduler's remove_pilots() returned."
            '  Round-robin histories inject assignment faults for single tasks: that task fails once, is never forwarded, the others go on.'
            '  One state message may carry the changes of several pilots (in any order); contradicting final states stay alone (documented to raise).',
    'note': 'the session is the real Session class with only its constructor '
            'replaced (pilot documents carry their sandbox, as '
            'Pilot.as_dict() provides it); valid command sequences '
            'only (remove only what was added), as TaskManager enforces.'}
RULE   = ('seeded histories of 4-30 events over 1-3 pilots and 1-12 tasks for '
          'both schedulers; non-trivial = at least one task had to wait or a '
          'pilot was removed/re-added or a task named a pilot; distinct = '
          'digest of the event list.')
ASSUMPTIONS = ['pilot eligibility for backfilling as documented: state within '
               '[BF_START, BF_STOP] (both PMGR_ACTIVE by default), usage below '
               'hwm = cores * 200 %']
SHARDS   = {'quick': 16, 'thorough': 16}
TIMEOUT  = {'quick': 600, 'thorough': 5400}
REQUIRED = {'forwards_checked': 3000, 'rr_batches_checked': 300,
            'bf_forwards_checked': 500, 'bf_usage_zero_checks': 100,
            'named_forwards': 200}

_PV = rps._pilot_state_values
_PORDER = [rps.NEW, rps.PMGR_LAUNCHING_PENDING, rps.PMGR_LAUNCHING,
           rps.PMGR_ACTIVE_PENDING, rps.PMGR_ACTIVE]
OWNER = 'tmgr.0000'


# ------------------------------------------------------------------------------
#
def _Session(reg):
    """the real Session (constructor aside): the sandbox derivation which
    `_assign_pilot` relies on is the repository's"""
    from ..harness import RealSession
    return RealSession('rp.session.verif', 'file://localhost/client', reg,
                       os.getcwd())


PSB = 'file://localhost/rsbox/radical.pilot.sandbox/rp.session.verif/%s/'


def task_sandbox_name(uid):
    """sandbox named in the description of that task: derived from the uid, so
    that every call site of task_doc() agrees; several tasks share a name"""
    import zlib
    return [None, None, None, None, 'shared_data', 'shared_data', 'sub/dir',
            '/abs/sbox/of_tasks', None, '../shared_by_pilots', '.hidden_sbox',
            './dot/rel/'][zlib.crc32(uid.encode()) % 12]


def pilot_doc(pid, cores):
    # as Pilot.as_dict() hands it to the task manager (sandboxes included)
    return {'uid': pid, 'type': 'pilot', 'state': rps.NEW,
            'pilot_sandbox': PSB % pid,
            'description': {'resource': 'local.localhost', 'cores': cores,
                            'access_schema': 'local'}}


def task_doc(uid, pilot, cores):
    td = make_td(uid=uid, ranks=1, cores_per_rank=cores)
    if pilot:
        td.pilot = pilot
    if task_sandbox_name(uid):
        td.sandbox = task_sandbox_name(uid)
    td.verify()
    return {'uid': uid, 'type': 'task', 'state': rps.TMGR_SCHEDULING_PENDING,
            'origin': 'client', 'pilot': pilot or None,
            'description': td.as_dict()}


# ------------------------------------------------------------------------------
#
def gen_case(rng, sched):

    pids   = ['pilot.%04d' % i for i in range(rng.choice([1, 2, 2, 3, 3, 4]))]
    cores  = {p: rng.choice([1, 2, 4]) for p in pids}
    added  = set()
    ever   = set()
    pstate = {p: 0 for p in pids}
    events = list()
    n_t    = 0
    forwarded_to = dict()

    # `churn` histories remove and re-add pilots often (also several pilots
    # per command, in any order) while tasks are between two notifications
    churn = rng.random() < 0.35
    pfinal = set()          # pilots which were told final already
    for _ in range(rng.randint(4, 30)):
        kinds = ['submit'] * 4 + ['pump'] * 4 + ['pstate'] * 3
        if len(added) < len(pids): kinds += ['add'] * (5 if churn else 3)
        if added: kinds += ['remove'] * (4 if churn else 1)
        if n_t: kinds += ['tfinal'] * 3
        k = rng.choice(kinds)
        if k == 'submit':
            ts = list()
            for _ in range(rng.randint(1, 5)):
                named = rng.choice(pids) if rng.random() < 0.25 else None
                ts.append(['t.%03d' % n_t, named, rng.choice([1, 1, 2])])
                n_t += 1
            events.append(['submit', ts])
        elif k == 'add':
            ps = rng.sample(sorted(set(pids) - added),
                            rng.randint(1, len(pids) - len(added)))
            added.update(ps); ever.update(ps)
            events.append(['add', ps])
        elif k == 'remove':
            ps = rng.sample(sorted(added), rng.randint(1, len(added))
                                           if rng.random() < 0.4 else 1)
            rng.shuffle(ps)
            added.difference_update(ps)
            events.append(['remove', ps])
        elif k == 'pstate':
            p = rng.choice(pids)
            r = rng.random()
            if r < 0.6:
                pstate[p] = min(4, pstate[p] + 1); s = _PORDER[pstate[p]]
            elif r < 0.75:
                pstate[p] = 4; s = rps.PMGR_ACTIVE            # skip ahead
            elif r < 0.9:
                s = _PORDER[max(0, pstate[p] - 1)]             # stale
            else:
                s = rng.choice(FINAL_STATES)
            ev = ['pstate', p, s]
            was_final = p in pfinal
            if s in FINAL_STATES:
                pfinal.add(p)
            others = [x for x in pids if x != p and x not in pfinal]
            if others and not was_final and rng.random() < 0.3:
                # one state message can carry the changes of several pilots
                # (a contradicting final state is documented to raise, which
                # ends the handling of the message: those stay alone)
                more = list()
                for q in rng.sample(others, rng.randint(1, len(others))):
                    if rng.random() < 0.5:
                        pstate[q] = min(4, pstate[q] + 1)
                        more.append([q, _PORDER[pstate[q]]])
                    elif rng.random() < 0.5:
                        pstate[q] = 4
                        more.append([q, rps.PMGR_ACTIVE])
                    else:
                        more.append([q, rng.choice(FINAL_STATES)])
                        pfinal.add(q)
                if rng.random() < 0.5:
                    ev.append(more)                 # the others come after
                else:
                    ev = ['pstate', more[0][0], more[0][1],
                          more[1:] + [[p, s]]]      # ... or first
            events.append(ev)
        elif k == 'tfinal':
            events.append(['tfinal', rng.randint(1, 4),
                           rng.choice(['full', 'full', 'partial', 'mid',
                                       'mid'])])
        else:
            events.append(['pump', rng.randint(1, 4)])
    case = {'scheduler': sched, 'pids': pids, 'cores': cores, 'events': events,
            'seed': rng.randint(0, 2 ** 30)}
    # fault: the assignment of one or two tasks raises (a sandbox which cannot
    # be derived).  Round robin and the early-binding paths handle that per
    # task: the task fails, the others of its bulk go on as usual
    if sched == 'round_robin' and n_t >= 2 and rng.random() < 0.15:
        case['poison'] = sorted(rng.sample(['t.%03d' % i for i in range(n_t)],
                                           rng.choice([1, 1, 2])))
    return case


# ------------------------------------------------------------------------------
#
class Run(object):

    def __init__(self, case, res, workdir):
        self.case, self.res = case, res
        self.net = memzmq.install(memzmq.Net(seed=case['seed'], mode='pumped',
                                             random_bulk=True))
        reg = memzmq.RegistryClient(url='mem://reg')
        for q in (rpc.TMGR_SCHEDULING_QUEUE, rpc.TMGR_STAGING_INPUT_QUEUE):
            reg['bridges.%s' % q] = {'addr_put': 'mem://c/%s' % q,
                                     'addr_get': 'mem://c/%s' % q}
        for p in (rpc.CONTROL_PUBSUB, rpc.STATE_PUBSUB):
            reg['bridges.%s' % p] = {'addr_pub': 'mem://c/%s' % p,
                                     'addr_sub': 'mem://c/%s' % p}
        cfg = ru.Config(from_dict={'owner': OWNER, 'sid': 'rp.session.verif',
                                   'uid': 'tmgr_scheduling.0000',
                                   'kind': 'tmgr_scheduling',
                                   'scheduler': case['scheduler']})
        os.chdir(workdir)
        self.comp = rp.tmgr.Scheduler.create(cfg, _Session(reg))
        self.comp._initialize()
        self.poison = set(case.get('poison') or [])
        if self.poison:
            orig_assign = self.comp._assign_pilot

            def assign(task, pilot, _orig=orig_assign):
                if task['uid'] in self.poison:
                    res.count('assignment_faults_injected')
                    raise RuntimeError('verif: sandbox of %s cannot be derived'
                                       % task['uid'])
                return _orig(task, pilot)
            self.comp._assign_pilot = assign

        # independent model, fed from what was actually delivered
        self.role    = dict()          # pid -> 'added' | 'removed'
        self.epoch     = dict()        # pid -> number of times it was added
        self.fwd_epoch = dict()        # uid -> epoch of its pilot at assignment
        self.released  = set()         # uids no longer counted as usage
        self.pstate  = dict()          # pid -> state the scheduler was told
        self.used    = dict()          # pid -> cores assigned by backfilling
        self.tasks   = dict()          # uid -> (named pilot, cores)
        self.forward = dict()          # uid -> [pid, ...]
        self.failed  = dict()
        self.finished = set()
        self.early   = set()           # uids bound by name
        self._q_seen = 0
        self._p_seen = 0
        self.trace   = list()

    def close(self):
        memzmq.uninstall()

    # -- what left the scheduler since the last look ---------------------------
    def collect(self, step):
        res = self.res
        evs = self.net.events('put', rpc.TMGR_STAGING_INPUT_QUEUE)
        new = evs[self._q_seen:]
        self._q_seen = len(evs)
        batch = list()
        for ev in new:
            for t in ev['payload']:
                batch.append(t)
        pubs = self.net.events('pub', rpc.STATE_PUBSUB)
        for ev in pubs[self._p_seen:]:
            if ev['who'] == 'driver':
                continue
            for t in ru.as_list(ev['payload'].get('arg')):
                if t.get('type') == 'task' and t.get('state') == rps.FAILED:
                    self.failed.setdefault(t['uid'], []).append(step)
        self._p_seen = len(pubs)
        for t in batch:
            self.judge_forward(t, step)
        if batch and self.case['scheduler'] == 'round_robin':
            unnamed = [t for t in batch if t['uid'] not in self.early]
            if unnamed and step[0] in ('work', 'add') and not self.poison:
                res.count('rr_batches_checked')
                cnt = dict()
                for t in unnamed:
                    cnt[t['pilot']] = cnt.get(t['pilot'], 0) + 1
                added = [p for p, r in self.role.items() if r == 'added']
                loads = [cnt.get(p, 0) for p in added]
                if loads and max(loads) - min(loads) > 1:
                    self.viol('round-robin-unbalanced', 'batch of %d over %s: '
                              '%s' % (len(unnamed), added, cnt))

    def viol(self, mech, msg):
        self.res.violation(mech, msg, {'case': self.case, 'trace': self.trace})

    def judge_forward(self, t, step):
        res  = self.res
        uid  = t['uid']
        pid  = t.get('pilot')
        named, cores = self.tasks[uid]
        res.count('forwards_checked')
        self.forward.setdefault(uid, []).append(pid)
        if len(self.forward[uid]) > 1:
            mech = 'forwarded-twice'
            if named and step[0] == 'add':
                mech = 'early-bound-forwarded-again-on-readd'
            self.viol(mech, '%s forwarded to %s' % (uid, self.forward[uid]))
            return
        if uid in self.failed:
            self.viol('forwarded-and-failed', uid)
        if t.get('state') != rps.TMGR_STAGING_INPUT_PENDING:
            self.viol('forward-state', '%s: %s' % (uid, t.get('state')))
        if named:
            res.count('named_forwards')
            self.early.add(uid)
            if pid != named:
                self.viol('named-task-on-other-pilot', '%s named %s got %s'
                          % (uid, named, pid))
            if named not in self.role:
                self.viol('named-task-before-pilot-added', '%s -> %s'
                          % (uid, named))
        else:
            if self.role.get(pid) != 'added':
                self.viol('bound-to-pilot-not-added', '%s -> %s (role %s) in '
                          'step %s' % (uid, pid, self.role.get(pid), step))
        # sandboxes: those of the bound pilot; the task's own below the
        # pilot's (default: its uid; a relative name from the description) or
        # the absolute path the description names
        exp  = PSB % pid
        name = task_sandbox_name(uid)
        tsb  = exp + ('%s/' % (name or uid))
        if name and name.startswith('/'):
            tsb = 'file://localhost' + name
        norm = lambda u: os.path.normpath(ru.Url(str(u)).path)
        if norm(t.get('pilot_sandbox')) != norm(exp) or \
           norm(t.get('task_sandbox')) != norm(tsb) or \
           norm(t.get('task_sandbox_path')) != norm(tsb) or \
           t.get('client_sandbox') != 'file://localhost/client':
            self.viol('wrong-sandboxes', '%s on %s: pilot %s, task %s (%s), '
                      'expected %s' % (uid, pid, t.get('pilot_sandbox'),
                      t.get('task_sandbox'), t.get('task_sandbox_path'), tsb))
        res.see('task_sandbox_kinds', 'default' if not name else
                'absolute' if name.startswith('/') else 'named')

        if self.case['scheduler'] == 'backfilling' and not named:
            res.count('bf_forwards_checked')
            st = self.pstate.get(pid)
            if st is None or not (m_bf._BF_START_VAL <= _PV[st]
                                  <= m_bf._BF_STOP_VAL):
                self.viol('backfilling-outside-window', '%s -> %s in state %s'
                          % (uid, pid, st))
            hwm  = int(self.case['cores'][pid] * m_bf._HWM / 100)
            used = self.used.get(pid, 0)
            if used >= hwm:
                self.viol('backfilling-beyond-hwm', '%s -> %s with used %d >= '
                          'hwm %d' % (uid, pid, used, hwm))
            self.used[pid] = used + cores
            self.fwd_epoch[uid] = self.epoch.get(pid)

    def release(self, uid, pid, named, cores):
        '''model of the usage figure: a task the scheduler assigned counts
        against its pilot from the assignment until the first notification
        which shows it past execution, once, and only within the period
        (add .. remove) in which it was assigned'''
        if named or self.case['scheduler'] != 'backfilling':
            return
        if uid in self.released:
            return
        self.released.add(uid)
        if self.fwd_epoch.get(uid) == self.epoch.get(pid):
            self.used[pid] = self.used.get(pid, 0) - cores

    # -- events ----------------------------------------------------------------
    def pump(self, n, tag):
        for _ in range(n):
            before = len(self.net.events('deliver'))
            if not self.net.pump():
                break
            self.collect((tag,))

    def play(self):
        case = self.case
        res  = self.res
        net  = self.net
        for ev in case['events']:
            self.trace.append(ev)
            k = ev[0]
            if k == 'submit':
                docs = list()
                for uid, named, cores in ev[1]:
                    self.tasks[uid] = (named, cores)
                    docs.append(task_doc(uid, named, cores))
                net.q_put('mem://c/%s' % rpc.TMGR_SCHEDULING_QUEUE, 'default',
                          docs, who='driver')
                while net.q_len('mem://c/%s' % rpc.TMGR_SCHEDULING_QUEUE):
                    self.comp.work_cb()
                    self.collect(('work',))
            elif k == 'add':
                self.drain()
                docs = [pilot_doc(p, case['cores'][p]) for p in ev[1]]
                net.publish('mem://c/%s' % rpc.CONTROL_PUBSUB,
                            rpc.CONTROL_PUBSUB,
                            {'cmd': 'add_pilots',
                             'arg': {'pilots': docs, 'tmgr': OWNER}},
                            who='driver')
                for p in ev[1]:
                    self.role[p] = 'added'
                    if case['scheduler'] == 'backfilling':
                        self.used[p] = 0       # the scheduler restarts its count
                        self.epoch[p] = self.epoch.get(p, 0) + 1
                self.drain(('add',))
            elif k == 'remove':
                self.drain()
                net.publish('mem://c/%s' % rpc.CONTROL_PUBSUB,
                            rpc.CONTROL_PUBSUB,
                            {'cmd': 'remove_pilots',
                             'arg': {'pids': ev[1], 'tmgr': OWNER}},
                            who='driver')
                for p in ev[1]:
                    self.role[p] = 'removed'
                self.drain(('remove',))
            elif k == 'pstate':
                entries = [[ev[1], ev[2]]] + (ev[3] if len(ev) > 3 else [])
                if len(entries) > 1:
                    res.count('bulk_pilot_state_messages')
                self.drain()
                net.publish('mem://c/%s' % rpc.STATE_PUBSUB, rpc.STATE_PUBSUB,
                            {'cmd': 'update', 'arg': [{'uid': p,
                             'type': 'pilot', 'state': s}
                             for p, s in entries]}, who='driver')
                for p, s in entries:
                    cur = self.pstate.get(p)
                    if cur is None or (cur not in FINAL_STATES and
                                       (s in FINAL_STATES or
                                        _PV[s] > _PV[cur])):
                        self.pstate[p] = s
                    elif cur in (rps.CANCELED, rps.FAILED) and \
                            s in FINAL_STATES:
                        self.pstate[p] = s
                self.drain(('pstate',))
            elif k == 'tfinal':
                _, n, form = ev
                cands = [u for u in self.forward if u not in self.finished]
                docs = list()
                for uid in sorted(cands)[:n]:
                    named, cores = self.tasks[uid]
                    pid = self.forward[uid][0]
                    if form == 'full':
                        d = task_doc(uid, named, cores)
                        d.update({'pilot': pid, 'state': rps.DONE})
                        self.finished.add(uid)
                        self.release(uid, pid, named, cores)
                    elif form == 'mid':
                        # the agent's output stager hands the task back to the
                        # client with its full description ('$all'), before
                        # the final notification
                        d = task_doc(uid, named, cores)
                        d.update({'pilot': pid,
                                  'state': rps.TMGR_STAGING_OUTPUT_PENDING})
                        self.release(uid, pid, named, cores)
                        res.count('full_intermediate_notifications')
                    else:
                        d = {'uid': uid, 'type': 'task',
                             'state': rps.AGENT_STAGING_OUTPUT_PENDING}
                    docs.append(d)
                if docs:
                    self.drain()
                    net.publish('mem://c/%s' % rpc.STATE_PUBSUB,
                                rpc.STATE_PUBSUB,
                                {'cmd': 'update', 'arg': docs}, who='driver')
                    self.drain(('tfinal',))
            else:
                self.pump(ev[1], 'pump')

        # settle: everything still running finishes (full notifications)
        self.drain(('settle',))
        for _ in range(50):
            cands = [u for u in self.forward if u not in self.finished]
            if not cands:
                break
            docs = list()
            for uid in sorted(cands)[:5]:
                named, cores = self.tasks[uid]
                pid = self.forward[uid][0]
                d = task_doc(uid, named, cores)
                d.update({'pilot': pid, 'state': rps.DONE})
                self.finished.add(uid)
                self.release(uid, pid, named, cores)
                docs.append(d)
            self.net.publish('mem://c/%s' % rpc.STATE_PUBSUB, rpc.STATE_PUBSUB,
                             {'cmd': 'update', 'arg': docs}, who='driver')
            self.drain(('tfinal',))
        self.final()

    def drain(self, tag=('drain',)):
        n = 0
        while self.net.pump():
            self.collect(tag)
            n += 1
            if n > 10000:
                raise RuntimeError('traffic does not settle')

    def final(self):
        res   = self.res
        comp  = self.comp
        added = [p for p, r in self.role.items() if r == 'added']
        for e in self.net.errors:
            if 'invalid transition for pilot' in e[2]:
                continue        # contradictory pilot finals are documented to raise
            mech = 'callback-raised'
            if 'inconsistent scheduler state' in e[2]:
                mech = 'backfilling-early-bound-task-inconsistent'
            self.viol(mech, e[2])

        # no fault is injected into these histories: the scheduler has no
        # reason to fail a task - a task without an eligible pilot waits
        for uid in sorted(self.failed):
            res.count('scheduler_failures_seen')
            if uid in self.poison:
                if len(self.failed[uid]) > 1:
                    self.viol('faulty-task-failed-twice', uid)
                continue
            self.viol('task-failed-instead-of-waiting',
                      '%s was advanced to FAILED by the scheduler (at %s); '
                      'pilots added: %s' % (uid, self.failed[uid][:1], added))
            break

        for uid in sorted(self.poison & set(self.forward)):
            self.viol('faulty-task-forwarded', '%s: its assignment raised, it '
                      'was forwarded to %s' % (uid, self.forward[uid]))
        for uid, (named, cores) in self.tasks.items():
            n = len(self.forward.get(uid, [])) + len(self.failed.get(uid, []))
            if n > 1 and len(self.forward.get(uid, [])) < 2:
                self.viol('forwarded-and-failed', uid)
            if n:
                continue
            # still waiting: allowed only while no eligible pilot exists
            if named:
                if named in self.role:
                    self.viol('named-task-lost', '%s names %s which was added'
                              % (uid, named))
            elif self.case['scheduler'] == 'round_robin':
                if added:
                    self.viol('task-waits-despite-added-pilot', '%s; added %s'
                              % (uid, added))
            else:
                for p in added:
                    st  = self.pstate.get(p)
                    hwm = int(self.case['cores'][p] * m_bf._HWM / 100)
                    if st and m_bf._BF_START_VAL <= _PV[st] <= m_bf._BF_STOP_VAL \
                       and self.used.get(p, 0) < hwm:
                        res.count('bf_waiting_with_eligible_pilot')

        if self.case['scheduler'] == 'backfilling':
            for p in added:
                mine = [u for u, f in self.forward.items()
                        if f[0] == p and not self.tasks[u][0]]
                info = comp._pilots[p]['info']
                if mine and all(u in self.finished for u in mine) and \
                        not any(e for e in self.net.errors
                                if 'invalid transition' not in e[2]):
                    res.count('bf_usage_zero_checks')
                    if self.used.get(p, 0) == 0 and info.get('used') != 0:
                        self.viol('backfilling-usage-not-zero', '%s: used %s '
                                  'after all its tasks finished'
                                  % (p, info.get('used')))


def run_case(ctx, res, case):
    wd = ctx.workdir or os.getcwd()
    r = None
    try:
        r = Run(case, res, wd)
        r.play()
        res.evaluations += 1
        waited = any(e[0] == 'submit' for e in case['events'])
        nt = any(e[0] in ('remove',) for e in case['events']) or \
             any(t[1] for e in case['events'] if e[0] == 'submit'
                      for t in e[1]) or waited
        if nt:
            res.digests.add(digest(case))
        if len(res.samples) < 2 and len(case['events']) > 8:
            res.samples.append(case)
    except RuntimeError as e:
        res.violation('history-stuck', repr(e), {'case': case})
    finally:
        if r:
            r.close()


# ------------------------------------------------------------------------------
# (b) the same schedulers with their two real threads: the work loop delivers
#     tasks while the subscriber thread delivers state / control messages
#
class _YieldLock(object):
    '''proxy around one of the scheduler's own locks: a short sleep before the
    lock is acquired (an existing suspension point) widens the window between
    what was read before and what is done under it'''

    def __init__(self, lock, seed, name):
        self._lock, self._seed, self._name = lock, seed, name
        self._rngs = dict()

    def _rng(self):
        import random
        import threading as mt
        tn = mt.current_thread().name
        if tn not in self._rngs:
            self._rngs[tn] = random.Random('%s/%s/%s' % (self._seed,
                                                         self._name, tn))
        return self._rngs[tn]

    def __enter__(self):
        import time
        time.sleep(self._rng().choice([0, 0, 0.0002, 0.0005, 0.001]))
        return self._lock.__enter__()

    def __exit__(self, *a):
        return self._lock.__exit__(*a)

    def acquire(self, *a, **k): return self._lock.acquire(*a, **k)
    def release(self):          return self._lock.release()


def _judge_stuck_threads(res, threads, tag, ctx_):
    """Threads which did not finish: a deadlock is decided from what they are
    doing, not from the time that passed - all of them sit in a lock
    acquisition of the scheduler's code and their stacks do not move between
    two samples.  Anything else (a slow machine) is inconclusive."""
    import sys
    import time
    import traceback

    def sample():
        frames = sys._current_frames()
        out = dict()
        for t in threads:
            if t.is_alive() and t.ident in frames:
                out[t.name] = [(f.filename, f.lineno, f.name) for f in
                               traceback.extract_stack(frames[t.ident])]
        return out

    s1 = sample(); time.sleep(1.5); s2 = sample()
    alive = [t for t in threads if t.is_alive()]

    def in_lock(stack):
        # innermost repository frame is a `with <lock>` statement, entered
        # through the yield proxy or the lock itself
        inner = stack[-1]
        return inner[2] in ('__enter__', 'acquire') or 'threading' in inner[0]

    if alive and s1 == s2 and len(s2) == len(threads) and \
       all(in_lock(st) for st in s2.values()):
        where = {n: ['%s:%d %s' % (os.path.basename(f), ln, fn)
                     for f, ln, fn in st if '/radical/pilot/' in f][-3:]
                 for n, st in s2.items()}
        res.violation('%s/deadlock' % tag, 'both threads wait for a lock the '
                      'other one holds: %s' % where, dict(ctx_, stacks=where))
    else:
        res.inconc('%s: threads still busy after the join budget (no deadlock pattern)'
                   % tag)


def gen_concurrent(rng, sched):
    return {'kind': 'concurrent', 'scheduler': sched,
            'seed': rng.randint(0, 2 ** 30),
            'n_bulks': rng.randint(4, 12),
            'pids': ['pilot.0000', 'pilot.0001'][:rng.choice([1, 2])],
            'cores': {'pilot.0000': 4000, 'pilot.0001': 4000},
            'events': []}


def run_concurrent(ctx, res, case):
    import time
    import random
    import threading as mt

    wd  = ctx.workdir or os.getcwd()
    rng = random.Random(case['seed'])
    r   = Run(case, res, wd)
    try:
        comp, net = r.comp, r.net
        for name in ('_wait_lock', '_pilots_lock'):
            if hasattr(comp, name):
                setattr(comp, name, _YieldLock(getattr(comp, name),
                                               case['seed'], name))
        ctl  = 'mem://c/%s' % rpc.CONTROL_PUBSUB
        sta  = 'mem://c/%s' % rpc.STATE_PUBSUB
        docs = [pilot_doc(p, case['cores'][p]) for p in case['pids']]
        net.publish(ctl, rpc.CONTROL_PUBSUB, {'cmd': 'add_pilots',
                    'arg': {'pilots': docs, 'tmgr': OWNER}}, who='driver')
        while net.pump(): pass
        for p in case['pids']:
            for st in _PORDER[1:5]:
                net.publish(sta, rpc.STATE_PUBSUB, {'cmd': 'update', 'arg': [
                            {'uid': p, 'type': 'pilot', 'state': st}]},
                            who='driver')
        while net.pump(): pass

        uids, errs = list(), list()
        done = mt.Event()

        def forwarded():
            out = dict()
            for ev in net.events('put', rpc.TMGR_STAGING_INPUT_QUEUE):
                for t in ev['payload']:
                    out[t['uid']] = out.get(t['uid'], 0) + 1
            return out

        def worker():
            try:
                n = 0
                for b in range(case['n_bulks']):
                    bulk = list()
                    for _ in range(rng.randint(1, 4)):
                        uid = 't.%03d' % n; n += 1
                        uids.append(uid)
                        bulk.append(task_doc(uid, None, 1))
                    net.q_put('mem://c/%s' % rpc.TMGR_SCHEDULING_QUEUE,
                              'default', bulk, who='driver')
                    while net.q_len('mem://c/%s' % rpc.TMGR_SCHEDULING_QUEUE):
                        comp.work_cb()
                    time.sleep(rng.choice([0, 0.0005, 0.002]))
            except Exception as e:
                errs.append('work: %r' % e)
            finally:
                done.set()

        def notifier():
            # final notifications for whatever was forwarded so far trigger
            # scheduling passes from the subscriber side
            told = set()
            try:
                while not done.is_set() or set(forwarded()) - told:
                    new = sorted(set(forwarded()) - told)[:3]
                    if new:
                        told.update(new)
                        docs_ = list()
                        for uid in new:
                            d = task_doc(uid, None, 1)
                            d.update({'pilot': case['pids'][0],
                                      'state': rps.DONE})
                            docs_.append(d)
                        net.publish(sta, rpc.STATE_PUBSUB,
                                    {'cmd': 'update', 'arg': docs_},
                                    who='driver')
                    while net.pump():
                        pass
                    time.sleep(0.0005)
                    if done.is_set() and not new:
                        break
            except Exception as e:
                errs.append('notify: %r' % e)

        a = mt.Thread(target=worker,   name='work-loop',  daemon=True)
        b = mt.Thread(target=notifier, name='subscriber', daemon=True)
        a.start(); b.start()
        a.join(timeout=20); b.join(timeout=2 if a.is_alive() else 20)
        res.count('concurrent_histories')
        ctx_ = {'case': case, 'errors': errs}
        if a.is_alive() or b.is_alive():
            _judge_stuck_threads(res, [a, b], 'concurrent', ctx_)
            return
        # one more pass from the subscriber side, nothing else running
        fw = forwarded()
        if fw:
            uid = sorted(fw)[0]
            d = task_doc(uid + '.x', None, 1)
            net.publish(sta, rpc.STATE_PUBSUB, {'cmd': 'update', 'arg': [
                        {'uid': case['pids'][0], 'type': 'pilot',
                         'state': rps.PMGR_ACTIVE}]}, who='driver')
            while net.pump(): pass
        for e in errs:
            res.violation('concurrent/raised', e, ctx_)
            return
        for e in net.errors:
            res.violation('concurrent/callback-raised', e[2], ctx_)
            return
        fw   = forwarded()
        pool = set(getattr(comp, '_wait_pool', {}) or {})
        for uid in uids:
            res.count('concurrent_tasks_checked')
            n = fw.get(uid, 0)
            if n > 1:
                res.violation('concurrent/forwarded-twice', '%s: %d times'
                              % (uid, n), ctx_)
                return
            if n == 0 and uid not in pool:
                res.violation('concurrent/task-lost', '%s was handed to the '
                              'scheduler, was never forwarded and is not in '
                              'the wait pool either' % uid, ctx_)
                return
    finally:
        r.close()


# ------------------------------------------------------------------------------
# (c) early-bound tasks arrive on the work loop while the pilots they name are
#     registered on the subscriber thread
#
def gen_early_race(rng, sched):
    return {'kind': 'early_race', 'scheduler': sched,
            'seed': rng.randint(0, 2 ** 30),
            'n_pilots': rng.randint(1, 3),
            'n_bulks': rng.randint(2, 6),
            'pids': [], 'cores': {}, 'events': []}


def run_early_race(ctx, res, case):
    import time
    import random
    import threading as mt
    from ..popsim import Perturb

    wd   = ctx.workdir or os.getcwd()
    rng  = random.Random(case['seed'])
    pids = ['pilot.%04d' % i for i in range(case['n_pilots'])]
    case = dict(case, pids=pids, cores={p: 4000 for p in pids})
    pert = Perturb(case['seed'], 0.25,
                   funcs=[m_tbase.TMGRSchedulingComponent.work,
                          m_tbase.TMGRSchedulingComponent.control_cb])
    r = Run(case, res, wd)
    try:
        comp, net = r.comp, r.net
        comp._pilots_lock = _YieldLock(comp._pilots_lock, case['seed'],
                                       '_pilots_lock')
        ctl  = 'mem://c/%s' % rpc.CONTROL_PUBSUB
        uids, errs = list(), list()
        done = mt.Event()

        def worker():
            try:
                n = 0
                for b in range(case['n_bulks']):
                    bulk = list()
                    for _ in range(rng.randint(1, 4)):
                        uid = 'e.%03d' % n; n += 1
                        uids.append(uid)
                        bulk.append(task_doc(uid, rng.choice(pids), 1))
                    net.q_put('mem://c/%s' % rpc.TMGR_SCHEDULING_QUEUE,
                              'default', bulk, who='driver')
                    while net.q_len('mem://c/%s' % rpc.TMGR_SCHEDULING_QUEUE):
                        comp.work_cb()
                    time.sleep(rng.choice([0, 0.0005, 0.002]))
            except Exception as e:
                errs.append('work: %r' % e)
            finally:
                done.set()

        def registrar():
            rr = random.Random(case['seed'] + 1)
            try:
                for p in pids:
                    time.sleep(rr.choice([0, 0.0005, 0.001, 0.003]))
                    net.publish(ctl, rpc.CONTROL_PUBSUB, {'cmd': 'add_pilots',
                                'arg': {'pilots': [pilot_doc(p, 4000)],
                                        'tmgr': OWNER}}, who='driver')
                    while net.pump(): pass
            except Exception as e:
                errs.append('control: %r' % e)

        a = mt.Thread(target=worker,    name='work-loop',  daemon=True)
        b = mt.Thread(target=registrar, name='subscriber', daemon=True)
        a.start(); b.start()
        a.join(timeout=10); b.join(timeout=2 if a.is_alive() else 10)
        res.count('early_race_histories')
        ctx_ = {'case': case, 'errors': errs}
        if a.is_alive() or b.is_alive():
            _judge_stuck_threads(res, [a, b], 'early-race', ctx_)
            return
        while net.pump(): pass
        for e in errs:
            res.violation('early-race/raised', e, ctx_)
            return
        for e in net.errors:
            res.violation('early-race/callback-raised', e[2], ctx_)
            return
        fw = dict()
        for ev in net.events('put', rpc.TMGR_STAGING_INPUT_QUEUE):
            for t in ev['payload']:
                fw.setdefault(t['uid'], list()).append(t.get('pilot'))
        early = {t['uid']: pid for pid, ts in comp._early.items() for t in ts}
        for uid in uids:
            res.count('early_race_tasks_checked')
            got = fw.get(uid, [])
            if len(got) > 1:
                res.violation('early-race/forwarded-twice', '%s: %s'
                              % (uid, got), ctx_)
                return
            if not got:
                res.violation('early-race/task-stuck', '%s names %s, which is '
                              'added; the task was never forwarded (parked '
                              'for: %s)' % (uid, early.get(uid, '?'),
                                            early.get(uid)), ctx_)
                return
    finally:
        pert.stop()
        r.close()


# ------------------------------------------------------------------------------
# (d) a pilot is removed on the subscriber thread while the work loop binds
#     tasks: nothing is bound to it once the removal has been carried out
#
def gen_remove_race(rng, sched):
    return {'kind': 'remove_race', 'scheduler': sched,
            'seed': rng.randint(0, 2 ** 30),
            'n_bulks': rng.randint(3, 8),
            'remove_after': rng.choice([0, 0, 1, 2]),
            'pids': ['pilot.0000', 'pilot.0001'],
            'cores': {'pilot.0000': 4000, 'pilot.0001': 4000},
            'events': []}


def run_remove_race(ctx, res, case):
    import time
    import random
    import threading as mt
    from ..popsim import Perturb
    import radical.pilot.tmgr.scheduler.round_robin as m_rr

    wd   = ctx.workdir or os.getcwd()
    rng  = random.Random(case['seed'])
    pids = case['pids']
    # the binding loops are slowed down (they are long for large bulks), the
    # removal is not: it has to fit into one pass of them
    pert = Perturb(case['seed'], 0.3,
                   funcs=[m_rr.RoundRobin._schedule_tasks,
                          m_bf.Backfilling._schedule_tasks,
                          m_tbase.TMGRSchedulingComponent._assign_pilot])
    r = Run(case, res, wd)
    try:
        comp, net = r.comp, r.net
        ctl  = 'mem://c/%s' % rpc.CONTROL_PUBSUB
        sta  = 'mem://c/%s' % rpc.STATE_PUBSUB
        docs = [pilot_doc(p, case['cores'][p]) for p in pids]
        net.publish(ctl, rpc.CONTROL_PUBSUB, {'cmd': 'add_pilots',
                    'arg': {'pilots': docs, 'tmgr': OWNER}}, who='driver')
        while net.pump(): pass
        for p in pids:
            for st in _PORDER[1:5]:
                net.publish(sta, rpc.STATE_PUBSUB, {'cmd': 'update', 'arg': [
                            {'uid': p, 'type': 'pilot', 'state': st}]},
                            who='driver')
        while net.pump(): pass

        victim = pids[rng.randrange(len(pids))]
        uids, errs = list(), list()
        mark  = {'bulk': -1, 'removed_at': None}

        # the moment of binding is the call of `_assign_pilot` (the forward
        # may legitimately follow a little later, outside the lock)
        assigned = list()
        orig_assign = comp._assign_pilot

        def assign(task, pilot):
            with net.lock:
                assigned.append((net.seq, task['uid'], pilot['uid']))
            return orig_assign(task, pilot)
        comp._assign_pilot = assign

        # ... and a removal is carried out when the scheduler's own
        # remove_pilots() (the last step of the control callback) returns
        orig_remove = comp.remove_pilots

        def remove(pids_):
            ret = orig_remove(pids_)
            with net.lock:
                mark['removed_at'] = net.seq
            return ret
        comp.remove_pilots = remove

        def worker():
            try:
                n = 0
                for b in range(case['n_bulks']):
                    bulk = list()
                    for _ in range(rng.randint(5, 20)):
                        uid = 'm.%03d' % n; n += 1
                        uids.append(uid)
                        bulk.append(task_doc(uid, None, 1))
                    mark['bulk'] = b
                    net.q_put('mem://c/%s' % rpc.TMGR_SCHEDULING_QUEUE,
                              'default', bulk, who='driver')
                    while net.q_len('mem://c/%s' % rpc.TMGR_SCHEDULING_QUEUE):
                        comp.work_cb()
                    time.sleep(rng.choice([0, 0.0005, 0.002]))
            except Exception as e:
                errs.append('work: %r' % e)

        def remover():
            rr = random.Random(case['seed'] + 7)
            try:
                t_end = time.time() + 5
                while mark['bulk'] < case['remove_after'] and \
                        time.time() < t_end:
                    time.sleep(0.0002)
                time.sleep(rr.choice([0, 0.0003, 0.001, 0.002]))
                net.publish(ctl, rpc.CONTROL_PUBSUB, {'cmd': 'remove_pilots',
                            'arg': {'pids': [victim], 'tmgr': OWNER}},
                            who='driver')
                while net.pump(): pass
            except Exception as e:
                errs.append('control: %r' % e)

        a = mt.Thread(target=worker,  name='work-loop',  daemon=True)
        b = mt.Thread(target=remover, name='subscriber', daemon=True)
        a.start(); b.start()
        a.join(timeout=10); b.join(timeout=2 if a.is_alive() else 10)
        res.count('remove_race_histories')
        ctx_ = {'case': case, 'errors': errs, 'victim': victim}
        if a.is_alive() or b.is_alive():
            _judge_stuck_threads(res, [a, b], 'remove-race', ctx_)
            return
        for e in errs:
            res.violation('remove-race/raised', e, ctx_)
            return
        for e in net.errors:
            res.violation('remove-race/callback-raised', e[2], ctx_)
            return
        if mark['removed_at'] is None:
            res.inconc('remove race: the removal was never carried out')
            return
        late = list()
        for seq, uid, pid in assigned:
            res.count('remove_race_bindings_checked')
            if pid == victim and seq > mark['removed_at']:
                late.append(uid)
        if late:
            res.violation('remove-race/bound-after-removal', '%s were bound '
                          'to %s after remove_pilots(%s) had been carried out'
                          % (late[:5], victim, victim), ctx_)
    finally:
        pert.stop()
        r.close()


def run(ctx):
    res = Result()
    rng = ctx.rng('remove')
    for i in range(ctx.n(160, 12000)):
        case = gen_remove_race(rng, 'round_robin' if i % 2 else 'backfilling')
        try:
            run_remove_race(ctx, res, case)
        except RuntimeError as e:
            res.violation('history-stuck', repr(e), {'case': case})
        res.evaluations += 1
        if len(res.violations) > 2:
            break

    rng = ctx.rng('early')
    for i in range(ctx.n(320, 24000)):
        case = gen_early_race(rng, 'round_robin' if i % 2 else 'backfilling')
        try:
            run_early_race(ctx, res, case)
        except RuntimeError as e:
            res.violation('history-stuck', repr(e), {'case': case})
        res.evaluations += 1
        if len(res.violations) > 2:
            break

    rng = ctx.rng('conc')
    for i in range(ctx.n(400, 36000)):
        case = gen_concurrent(rng, 'round_robin' if i % 3 == 0
                                   else 'backfilling')
        try:
            run_concurrent(ctx, res, case)
        except RuntimeError as e:
            res.violation('history-stuck', repr(e), {'case': case})
        res.evaluations += 1
        if len(res.violations) > 40:
            break

    rng = ctx.rng('cases')
    for i in range(ctx.n(5000, 450000)):
        case = gen_case(rng, 'round_robin' if i % 2 else 'backfilling')
        run_case(ctx, res, case)
        if len(res.violations) > 40:
            break
    return res


def replay(case, ctx):
    res = Result()
    if case['case'].get('kind') == 'remove_race':
        for _ in range(40):
            run_remove_race(ctx, res, case['case'])
            if res.violations:
                break
        return res
    if case['case'].get('kind') == 'early_race':
        for _ in range(40):
            run_early_race(ctx, res, case['case'])
            if res.violations:
                break
        return res
    if case['case'].get('kind') == 'concurrent':
        for _ in range(20):
            run_concurrent(ctx, res, case['case'])
            if res.violations:
                break
        return res
    run_case(ctx, res, case['case'])
    return res
