'''
C01 - Pilot resources are never oversubscribed.

Monitor: an independent ledger of who holds which core / GPU share / lfs / mem,
fed only from boundary events (grants seen on the executing queue, releases
published by the driver acting as executor) of gated histories of the real
agent scheduler, plus the same ledger over random alloc/release histories of the
application-level NodeList.
'''

import copy

from ..core       import Result, digest
from ..harness    import rp, ru, rps, rpc
from ..schedprops import Ledger, run_histories, run_one, EPS

ID     = 'C01'
LEVEL  = 'exploration'
MANIFEST = {
    'technique': 'runtime monitoring: resource ledger over boundary events of '
                 'the real scheduler loop (gated interleavings) and of NodeList',
    'text': 'Thousands of seeded histories (layouts with blocked cores/GPUs and '
            'agent nodes produced by the real ResourceManager, mixed request '
            'shapes incl. fractional GPUs, lfs/mem, tags, priorities, '
            'application-supplied slots, cancels and completions at every step '
            'boundary of the real scheduling loop) are run through the real '
            'parent/child scheduler pair; at every grant the ledger decides '
            'disjointness of cores, GPU share sums, lfs/mem capacity, blocked '
            'resources and agent nodes.'
            "  Second session: layouts now include 0-2 sub-agent nodes and a service node (./services), and 'reserved node used' is decided from the agent/service node lists alone."
            "  Third session: application-level histories ask for amounts which use a node's storage / memory up exactly, share cores (core_occupation < 1) and debit what the rank asked for."
            '  Scheduler histories include tasks whose application-supplied slots are invalid (unknown node / core, at any rank position): they must be failed and never placed (invalid-app-slots-granted), the books stay as they were (C03 decides the latter).'
            "  The threaded NodeList workload (shared with C02) checks after every grant that no core / GPU of the granted slot is held more than once and no node's lfs / mem went negative."
            '  Fourth session: a fifth of the multi-node scheduler layouts have one backup node and one inaccessible node (the real _filter_nodes leaves it out): node indexes with a gap; a quarter of the application-level NodeList histories use gapped node indexes too.'
            '  Application-level slots through the real Pilot object: node list from the resource details of the PMGR_ACTIVE update, find / release through Pilot.nodelist while the pilot keeps receiving updates (same state, with or without resource details): nothing handed out is handed out again.',
    'note': 'components run as threads over the in-memory transport; the fork '
            'is emulated by two objects sharing only the two queues; '
            'Continuous scheduler only (ContinuousJsrun uses another slot '
            'format and fails every task with default partition ids, see '
            'DESIGN.md); histories sampled, not enumerated.'}
RULE   = ('seeded gated histories: 1-4 nodes x 1-8 cores x 0-3 GPUs, lfs/mem '
          '{0,100}, blocked cores/GPUs, 0-1 agent nodes, 1-9 tasks of mixed '
          'shape, 10-60 driver actions (arrive/intake/step/pump/complete/'
          'cancel) then settle; non-trivial = at least two grants; distinct = '
          'digest of (layout, action trace).  Second workload: NodeList '
          'alloc/release histories.')
ASSUMPTIONS = ['a task holds its placement from the grant until the executor '
               'publishes the unschedule message',
               'application-supplied slots come from the real '
               'Pilot.nodelist-style NodeList.find_slots (well-behaved app)']
SHARDS   = {'quick': 8, 'thorough': 16}
REQUIRED = {'grants_checked': 2000, 'rank_slots_checked': 3000,
            'histories': 500, 'nodelist_allocs': 1000}


# ------------------------------------------------------------------------------
# application level: NodeList
#
def nodelist_history(rng, res):

    cpn = rng.choice([1, 2, 4, 8])
    gpn = rng.choice([0, 1, 2])
    nn  = rng.randint(1, 3)
    lfs = rng.choice([0, 100, 100, 1024])
    mem = rng.choice([0, 100, 100, 4096])
    blocked = sorted(rng.sample(range(cpn), rng.randint(0, min(2, cpn - 1)))) \
              if cpn > 1 else []

    # NUMA aware nodes (as Pilot.nodelist builds them when the platform has a
    # numa_domain_map): two domains splitting cores and GPUs
    numa = cpn >= 2 and not blocked and rng.random() < 0.35
    dmap = None
    if numa:
        h = cpn // 2
        g = gpn // 2
        dmap = {0: rp.NumaDomain(cores=list(range(0, h)),
                                 gpus=list(range(0, g))),
                1: rp.NumaDomain(cores=list(range(h, cpn)),
                                 gpus=list(range(g, gpn)))}

    def mknode(i):
        cores = [rpc.FREE] * cpn
        for b in blocked:
            cores[b] = rpc.DOWN
        d = {'index': i, 'name': 'n%d' % i, 'cores': cores,
             'gpus': [rpc.FREE] * gpn, 'lfs': lfs, 'mem': mem}
        if numa:
            return rp.NumaNode(d, dmap)
        return rp.Node(d)

    # node indexes as a pilot reports them: consecutive, or with a gap (a
    # backup node took the place of an inaccessible node)
    idxs = list(range(nn))
    hh   = cpn * 7 + gpn * 3 + nn + (lfs or 0) + len(blocked)
    if nn > 1 and hh % 4 == 0:
        gap  = 1 + hh % (nn - 1) if nn > 2 else 1
        idxs = [i if i < gap else i + 1 + hh % 2 for i in range(nn)]
        res.count('nodelist_histories_with_index_gap')
    nl = rp.NodeList(nodes=[mknode(i) for i in idxs])
    nl.verify()
    case = {'cpn': cpn, 'gpn': gpn, 'nodes': nn, 'lfs': lfs, 'mem': mem,
            'blocked': blocked, 'numa': numa, 'ops': [], 'node_indexes': idxs}
    if numa:
        res.count('nodelist_numa_histories')

    cores, gpus, lfsb, memb = dict(), dict(), dict(), dict()
    live = dict()
    k = 0
    for _ in range(rng.randint(5, 40)):
        if live and rng.random() < 0.4:
            key = rng.choice(sorted(live))
            slots = live.pop(key)
            case['ops'].append(['release', key])
            try:
                nl.release_slots(slots)
            except Exception as e:
                res.violation('nodelist-release-raised', 'release_slots '
                              'raised %r (node indexes %s)' % (e, idxs), case)
                return case
            for kk in list(cores):
                cores[kk] = [e for e in cores[kk] if e[0] != key]
            for kk in list(gpus):
                gpus[kk] = [e for e in gpus[kk] if e[0] != key]
            for b in (lfsb, memb):
                for held in b.values():
                    held.pop(key, None)
            continue
        gocc = rng.choice([1.0, 1.0, 0.5, 0.25])
        cocc = rng.choice([1.0, 1.0, 1.0, 0.5, 0.25])
        # amounts which use a node's storage / memory up exactly are part of
        # the class (halves and quarters of the capacity, the capacity itself)
        rr = rp.RankRequirements(
                n_cores=rng.choice([1, 1, 2, rng.randint(1, cpn + 1)]),
                core_occupation=cocc,
                n_gpus=rng.choice([0, 0, rng.randint(0, gpn)]) if gpn else 0,
                gpu_occupation=gocc,
                lfs=rng.choice([0, 0, 30, 60, lfs // 4, lfs // 2, lfs])
                    if lfs else 0,
                mem=rng.choice([0, 0, 30, 60, mem // 4, mem // 2, mem])
                    if mem else 0,
                numa=bool(numa and rng.random() < 0.7))
        n = rng.choice([1, 1, 2, 3, 4])
        key = 'a%d' % k
        k += 1
        case['ops'].append(['find', key, rr.as_dict(), n])
        try:
            slots = nl.find_slots(rr, n_slots=n)
        except ValueError:
            res.count('nodelist_rejected')
            continue
        if not slots:
            res.count('nodelist_no_fit')
            continue
        res.count('nodelist_allocs')
        live[key] = slots
        if len(slots) != n:
            res.violation('nodelist-rank-count', '%d slots for %d' %
                          (len(slots), n), case)
        for s in slots:
            ni = s.node_index
            cidx = [c.index for c in s.cores]
            if len(set(cidx)) != rr.n_cores:
                res.violation('nodelist-core-count', str(cidx), case)
            if len(set(g.index for g in s.gpus)) != rr.n_gpus:
                res.violation('nodelist-gpu-count', str(s.gpus), case)
            for c in s.cores:
                if c.index in blocked:
                    res.violation('nodelist-blocked-core-used',
                                  'core %d' % c.index, case)
                sh = cores.setdefault((ni, c.index), list())
                sh.append((key, rr.core_occupation))
                if sum(v for _, v in sh) > 1 + EPS:
                    res.violation('nodelist-core-double-booked',
                                  'core %d node %d: %s' % (c.index, ni, sh),
                                  case)
            for g in s.gpus:
                sh = gpus.setdefault((ni, g.index), list())
                sh.append((key, rr.gpu_occupation))
                tot = sum(v for _, v in sh)
                if tot > 1 + EPS:
                    res.violation('nodelist-gpu-oversubscribed',
                                  'gpu %d node %d: %.2f' % (g.index, ni, tot),
                                  case)
            # what the rank asked for is what it holds (whatever the slot
            # record says - C02 checks the record)
            for amt, book, cap, nm in ((rr.lfs, lfsb, lfs, 'lfs'),
                                       (rr.mem, memb, mem, 'mem')):
                if amt:
                    held = book.setdefault(ni, dict())
                    held[key] = held.get(key, 0) + amt
                    if sum(held.values()) > cap + EPS:
                        res.violation('nodelist-%s-overcommit%s'
                                      % (nm, '/numa' if numa else ''),
                                      'node %d: %s > %s' % (ni, held, cap),
                                      case)
    return case


# ------------------------------------------------------------------------------
# application-level slots through the real Pilot object
#
# `Pilot.nodelist` is built from the resource details the agent reports and is
# the only record of what the application placed itself.  The pilot keeps
# receiving updates while the application works with it (the agent announces
# PMGR_ACTIVE on the control channel and on the state channel; later updates
# carry the same or no resource details): what was handed out stays handed out.
#
def pilot_nodelist_history(rng, res):
    import copy
    from ..harness import make_pmgr, make_pilot

    cpn = rng.choice([2, 4, 8]); gpn = rng.choice([0, 1, 2])
    nn  = rng.randint(1, 3)
    lfs = rng.choice([0, 100]); mem = rng.choice([0, 100])
    rm_info = {'node_list': [{'index': i, 'name': 'n%d' % i,
                              'cores': [rpc.FREE] * cpn,
                              'gpus' : [rpc.FREE] * gpn,
                              'lfs': lfs, 'mem': mem} for i in range(nn)],
               'cores_per_node': cpn, 'gpus_per_node': gpn,
               'lfs_per_node': lfs, 'mem_per_node': mem,
               'numa_domain_map': None}
    case = {'kind': 'pilot-nodelist', 'cpn': cpn, 'gpn': gpn, 'nodes': nn,
            'lfs': lfs, 'mem': mem, 'ops': []}

    pm = make_pmgr()
    p  = make_pilot(pm, 'pilot.0000')
    def update(state, with_info):
        d = {'uid': p.uid, 'type': 'pilot', 'state': state}
        if with_info:
            d['resources'] = {'rm_info': copy.deepcopy(rm_info)}
        pm._update_pilot(d)
    try:
        for st in (rps.PMGR_LAUNCHING_PENDING, rps.PMGR_LAUNCHING,
                   rps.PMGR_ACTIVE_PENDING):
            update(st, False)
        update(rps.PMGR_ACTIVE, True)
        if p.state != rps.PMGR_ACTIVE or p.nodelist is None:
            res.inconc('pilot nodelist: pilot not active / no node list')
            return case
    except Exception as e:
        res.inconc('pilot nodelist: set-up raised %r' % e)
        return case

    cores, gpus, amounts = dict(), dict(), dict()
    live, k = dict(), 0
    for _ in range(rng.randint(6, 30)):
        roll = rng.random()
        if roll < 0.25:
            # the second announcement of PMGR_ACTIVE, or a later update
            with_info = rng.random() < 0.7
            case['ops'].append(['update', with_info])
            try:
                update(rps.PMGR_ACTIVE, with_info)
            except Exception as e:
                res.violation('pilot-update-raised', repr(e), case)
                return case
            res.count('pilot_updates_between_grants')
            continue
        if live and roll < 0.5:
            key = rng.choice(sorted(live))
            case['ops'].append(['release', key])
            try:
                p.nodelist.release_slots(live.pop(key))
            except Exception as e:
                res.violation('pilot-nodelist-release-raised', repr(e), case)
                return case
            for book in (cores, gpus, amounts):
                for held in book.values():
                    held.pop(key, None)
            continue
        rr = rp.RankRequirements(
                n_cores=rng.randint(1, cpn),
                n_gpus=rng.randint(0, gpn),
                lfs=rng.choice([0, 0, 50]) if lfs else 0,
                mem=rng.choice([0, 0, 50]) if mem else 0)
        n   = rng.choice([1, 1, 2])
        key = 'a%d' % k; k += 1
        case['ops'].append(['find', key, rr.as_dict(), n])
        try:
            slots = p.nodelist.find_slots(rr, n_slots=n)
        except ValueError:
            continue
        if not slots:
            continue
        live[key] = slots
        res.count('pilot_nodelist_grants')
        for sl in slots:
            ni = sl.node_index
            for what, book, items in (('core', cores, sl.cores),
                                      ('gpu',  gpus,  sl.gpus)):
                for c in items:
                    held = book.setdefault((ni, c.index), dict())
                    held[key] = held.get(key, 0) + c.occupation
                    if sum(held.values()) > 1 + EPS:
                        res.violation('pilot-nodelist-%s-double-booked' % what,
                                      '%s %d of node %d is held by %s after a '
                                      'pilot update in between'
                                      % (what, c.index, ni, sorted(held)), case)
                        return case
            for amt, cap, nm in ((rr.lfs, lfs, 'lfs'), (rr.mem, mem, 'mem')):
                if amt:
                    held = amounts.setdefault((ni, nm), dict())
                    held[key] = held.get(key, 0) + amt
                    if sum(held.values()) > cap + EPS:
                        res.violation('pilot-nodelist-%s-overcommit' % nm,
                                      'node %d: %s > %s' % (ni, held, cap),
                                      case)
                        return case
    return case


# ------------------------------------------------------------------------------
#
def run(ctx):

    res = Result()
    run_histories(ctx, res, ctx.n(2400, 60000), lambda r: [Ledger(r)])

    # application threads sharing one NodeList (workload of C02; the
    # oversubscription oracle in it is ours)
    from .c02 import nodelist_threads
    rng = ctx.rng('nodelist-threads')
    for i in range(ctx.n(640, 16000)):
        nodelist_threads(rng, res)
        if len(res.violations) > 10:
            break
    rng = ctx.rng('pilot-nodelist')
    n0 = len(res.violations)
    for i in range(ctx.n(800, 20000)):
        pilot_nodelist_history(rng, res)
        res.evaluations += 1
        if len(res.violations) > n0 + 20 or res.inconclusive:
            break
    rng = ctx.rng('nodelist')
    for i in range(ctx.n(1600, 40000)):
        case = nodelist_history(rng, res)
        res.evaluations += 1
        res.digests.add(digest(case))
        if i == 0:
            res.samples.append({'nodelist': case})
        if len(res.violations) > 40:
            break
    return res


def replay(case, ctx):
    res = Result()
    c = case.get('case') if isinstance(case, dict) else None
    if c and 'layout' in c:
        run_one(ctx, res, c, lambda r: [Ledger(r)])
    else:
        res.inconc('nodelist histories are replayed by seed only')
    return res
