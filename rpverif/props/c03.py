'''
C03 - Released resources come back exactly once and completely.

Three monitors:
 (a) scheduler side: conservation over gated histories of the real scheduler
     pair - at every quiescent point (no task holds anything, every release
     was enacted) the node map equals the initial map field by field and the
     active counter is zero; a release is never enacted more often than asked;
 (b) executor side: over executor histories with real processes
     (rpverif/popsim.py) every task that reached the executor with a placement
     gets exactly one unschedule publication whatever its ending (done, exit
     code, cancel at any point incl. before intake, run-time limit, launch
     error);
 (c) application side: NodeList.find_slots / release_slots histories restore
     the node list exactly.
'''

import os
import copy
import shutil

from ..core       import Result, digest
from ..harness    import rp, ru, rps, rpc
from ..schedprops import Conservation, run_histories, run_one
from ..popsim     import gen_case as gen_exec_case
from .            import c07

ID     = 'C03'
LEVEL  = 'exploration'
MANIFEST = {
    'technique': 'runtime monitoring: conservation ledger at quiescent points '
                 'of the real scheduler loop + exactly-once unschedule oracle '
                 'over the real executor event log',
    'text': 'Conservation is decided where no task holds anything: the '
            'scheduler\'s node map must equal the initial one (cores, GPUs, '
            'lfs, mem) and its active counter must be zero, after histories '
            'with completions in random order, cancels and application-placed '
            'tasks.  On the executor side every ending (success, failure, '
            'cancel before intake / during spawn / while running / racing the '
            'exit, timeout, launch error) must produce exactly one unschedule '
            'publication per placed task.'
            '  Second session: a placed task the executor never hands over and never releases is reported here too (placed-task-never-unscheduled); executor endings include death by signal and faults after the spawn.'
            '  Third session: the application-level workload compares the node map with the resources still held after EVERY release (exact model), shares cores, uses NUMA nodes and hands back the slots of several grants in one call.'
            '  Histories include tasks with invalid application-supplied slots: after their failure the node map still equals the initial one minus what is held.'
            '  Fourth session: node indexes with a gap (a backup node replaced an inaccessible one) in a quarter of the NodeList histories and a fifth of the multi-node scheduler layouts; release_slots / find_slots raising is a refutation (nodelist-release-raised).',
    'note': 'scheduler and executor are exercised separately here (their '
            'composition is exercised by C08/C05); executor histories use real '
            'threads and processes, reproduced statistically.'}
RULE   = ('(a) gated scheduler histories as C01; non-trivial = at least two '
          'grants and a quiescent point reached; (b) executor histories as '
          'C07; (c) NodeList alloc/release histories; distinct = digest of '
          'trace / event orders.')
ASSUMPTIONS = ['the executor gives resources back by publishing the task on '
               'AGENT_UNSCHEDULE_PUBSUB']
SHARDS   = {'quick': 16, 'thorough': 16}
TIMEOUT  = {'quick': 600, 'thorough': 5400}
REQUIRED = {'quiescent_points': 1000, 'placed_tasks_checked': 300,
            'nodelist_restorations': 300, 'set:endings': 5}


def nodelist_restore(rng, res):
    """application-level grants and releases on a NodeList: after every
    release the node map must equal the initial map minus what is still held
    (by what was asked for), and the initial map once everything is back"""
    cpn = rng.choice([1, 2, 4, 8]); gpn = rng.choice([0, 1, 2])
    nn  = rng.randint(1, 3)
    numa = cpn >= 2 and rng.random() < 0.3
    dmap = None
    if numa:
        h, g = cpn // 2, gpn // 2
        dmap = {0: rp.NumaDomain(cores=list(range(0, h)),
                                 gpus=list(range(0, g))),
                1: rp.NumaDomain(cores=list(range(h, cpn)),
                                 gpus=list(range(g, gpn)))}

    def mknode(i):
        d = {'index': i, 'name': 'n%d' % i,
             'cores': [rpc.FREE] * cpn, 'gpus': [rpc.FREE] * gpn,
             'lfs': 100, 'mem': 100}
        return rp.NumaNode(d, dmap) if numa else rp.Node(d)

    # node indexes as the pilot reports them: consecutive, or - when a backup
    # node took the place of an inaccessible one - with a gap
    idxs = list(range(nn))
    if nn > 1 and rng.random() < 0.25:
        idxs = sorted(rng.sample(range(nn + 2), nn))
        if idxs != list(range(nn)):
            res.count('nodelist_histories_with_index_gap')
    nl = rp.NodeList(nodes=[mknode(i) for i in idxs]); nl.verify()

    def snapshot():
        return [{'index': n.index,
                 'cores': [round(c.occupation, 9) for c in n.cores],
                 'gpus' : [round(x.occupation, 9) for x in n.gpus],
                 'lfs'  : n.lfs, 'mem': n.mem} for n in nl.nodes]

    init = snapshot()
    live, ops = list(), list()      # live: [(rr, slots)]
    case = {'cpn': cpn, 'gpn': gpn, 'nodes': nn, 'numa': numa, 'ops': ops,
            'node_indexes': idxs}

    def expected():
        exp = [{'index': d['index'], 'cores': list(d['cores']),
                'gpus': list(d['gpus']), 'lfs': d['lfs'], 'mem': d['mem']}
               for d in init]
        for rr, slots in live:
            for sl in slots:
                e = [x for x in exp if x['index'] == sl.node_index][0]
                for c in sl.cores:
                    e['cores'][c.index] = round(e['cores'][c.index] +
                                                rr.core_occupation, 9)
                for x in sl.gpus:
                    e['gpus'][x.index] = round(e['gpus'][x.index] +
                                               rr.gpu_occupation, 9)
                e['lfs'] -= rr.lfs
                e['mem'] -= rr.mem
        return exp

    def compare(when):
        now, exp = snapshot(), expected()
        for a, b in zip(now, exp):
            for key in ('cores', 'gpus', 'lfs', 'mem'):
                if a[key] != b[key]:
                    res.violation('nodelist-not-restored/%s' % key,
                                  'node %s %s %s: %s, held resources say %s'
                                  % (a['index'], key, when, a[key], b[key]),
                                  case)
                    return False
        return True

    def release(k):
        # one call may hand back the slots of several grants
        picked = [live.pop(rng.randrange(len(live)))
                  for _ in range(min(k, len(live)))]
        slots = [sl for _, ss in picked for sl in ss]
        if len(picked) > 1:
            rng.shuffle(slots)
            res.count('nodelist_joint_releases')
        ops.append(['release', len(picked)])
        try:
            nl.release_slots(slots)
        except Exception as e:
            res.violation('nodelist-release-raised', 'release_slots of slots '
                          'on nodes %s raised %r (node indexes %s)'
                          % (sorted({sl.node_index for sl in slots}), e, idxs),
                          case)
            return False
        return compare('after release %d' % len(ops))

    for _ in range(rng.randint(3, 25)):
        if live and rng.random() < 0.45:
            if not release(rng.choice([1, 1, 1, 2, 3])):
                return case
            continue
        rr = rp.RankRequirements(n_cores=rng.randint(1, cpn),
                                 core_occupation=rng.choice([1.0, 1.0, 0.5,
                                                             0.25]),
                                 n_gpus=rng.randint(0, gpn),
                                 gpu_occupation=rng.choice([1.0, 0.5, 0.25, 0.3,
                                                            0.1, 0.2]),
                                 lfs=rng.choice([0, 10, 40, 50]),
                                 mem=rng.choice([0, 10, 40, 50]),
                                 numa=bool(numa and rng.random() < 0.6))
        n = rng.randint(1, 3)
        ops.append(['find', rr.as_dict(), n])
        try:
            slots = nl.find_slots(rr, n_slots=n)
        except (ValueError, RuntimeError):
            continue
        except IndexError as e:
            res.violation('nodelist-find-raised', 'find_slots raised %r (node '
                          'indexes %s)' % (e, idxs), case)
            return case
        if not slots and not compare('after a request which found nothing'):
            return case
        if slots:
            live.append((rr, slots))
            if rr.core_occupation < 1:
                res.count('nodelist_shared_core_grants')
    while live:
        if not release(rng.choice([1, 1, 2, len(live)])):
            return case
    res.count('nodelist_restorations')
    return case


def judge_exec(sim, rec, res, case):
    for uid, r in rec.items():
        if not r['accepted']:
            continue
        spec = sim.specs[uid]
        res.count('placed_tasks_checked')
        ending = 'poison' if spec['poison'] else \
                 'dropped-at-intake' if r['dropped'] else \
                 'timeout' if spec['timeout'] else \
                 ('cancel:%s' % spec['cancel']) if spec['cancel'] else \
                 spec['ending']
        res.see('endings', ending)
        handed = r['handovers'] or r['dropped']
        if not handed:
            # left behind by the executor (C07 reports the hand-over side):
            # the placed task never gives its resources back either
            if 'watchdog' in sim.notes:
                res.inconc('watchdog fired before the history went idle '
                           '(%s not handed over yet)' % uid)
            elif r['unschedules'] == 0:
                res.violation('placed-task-never-unscheduled',
                              '%s (%s): %s' % (uid, ending, r['order']),
                              {'case': case, 'records': rec,
                               'hits': sorted(sim.hits)})
            continue
        if r['unschedules'] != 1:
            mech = 'unschedule-published-%d-times' % r['unschedules']
            if r['dropped']:
                mech = 'dropped-at-intake-never-unscheduled'
            res.violation(mech, '%s (%s): %s' % (uid, ending, r['order']),
                          {'case': case, 'records': rec,
                           'hits': sorted(sim.hits)})


def _nontrivial(sim):
    return len(sim.granted) >= 2


# ------------------------------------------------------------------------------
# (a') bursts: many tasks end together, more releases are pending than the
#      scheduling loop takes in one pass (its bulk limits are crossed)
#
def burst_history(ctx, res, rng, idx):

    from ..schedsim import Sim
    n_tasks = rng.choice([520, 600, 700, 1100])
    nodes   = rng.choice([1, 2, 4])
    cpn     = -(-n_tasks // nodes) + rng.choice([0, 3])
    lay = {'nodes': nodes, 'cores_per_node': cpn, 'gpus_per_node': 0,
           'lfs': 0, 'mem': 0, 'blocked_cores': [], 'blocked_gpus': [],
           'agent_nodes': 0}
    tasks = [{'uid': 'b.%04d' % i, 'ranks': 1, 'cores_per_rank': 1,
              'gpus_per_rank': 0., 'lfs_per_rank': 0, 'mem_per_rank': 0,
              'ranks_per_node': None, 'priority': 0, 'tags': {},
              'named_env': '', 'app_slots': False} for i in range(n_tasks)]
    case = {'layout': lay, 'scheduler': 'CONTINUOUS', 'scattered': True,
            'random_bulk': False, 'seed': rng.randint(0, 2 ** 30),
            'tasks': tasks, 'kind': 'burst',
            'chunk': rng.choice([1, 7, 64, 100])}
    light = {k: v for k, v in case.items() if k != 'tasks'}
    light['n_tasks'] = n_tasks

    wd = os.path.join(ctx.workdir or os.getcwd(), 'burst')
    os.makedirs(wd, exist_ok=True)
    cons = Conservation(res)
    sim  = None
    try:
        sim  = Sim(wd, case, observers=[])
        uids = [t['uid'] for t in tasks]
        for i in range(0, n_tasks, 200):
            sim.arrive(uids[i:i + 200])
            sim.intake()
        for _ in range(40):
            sim.iteration(1)
            if len(sim.granted) == n_tasks:
                break
        res.count('burst_histories')
        res.count('burst_grants', len(sim.granted))
        if len(sim.granted) != n_tasks:
            res.inconc('burst: only %d of %d tasks were placed'
                       % (len(sim.granted), n_tasks))
            return

        # all of them end before the loop looks at its release queue again
        order = list(sim.held)
        rng.shuffle(order)
        k = case['chunk']
        for i in range(0, len(order), k):
            sim.complete_bulk(order[i:i + k])
        sim.pump()
        for _ in range(12):
            sim.iteration(1)
            sim.pump()
        res.count('burst_releases', len(sim.unsched_published))

        pub, proc = sim.unsched_published, sim.unsched_processed
        ctxv = {'case': light, 'published': len(pub), 'processed': len(proc)}
        lost = sorted(set(pub) - set(proc))
        if lost:
            res.violation('released-never-processed',
                          '%d of %d tasks gave their resources back but the '
                          'scheduler never released them (e.g. %s); %d cores '
                          'stay busy' % (len(lost), len(pub), lost[:3],
                                         len(lost)), ctxv)
            return
        dup = sorted(u for u in set(proc) if proc.count(u) > 1)
        if dup:
            res.violation('released-more-often-than-asked',
                          '%d tasks released more than once (e.g. %s)'
                          % (len(dup), dup[:3]), ctxv)
            return
        child = sim.pair.child
        for now, init in zip(child.nodes, sim.init_nodes):
            for key in ('cores', 'gpus', 'lfs', 'mem'):
                if now[key] != init[key]:
                    busy = sum(1 for c in now['cores'] if c != rpc.FREE)
                    res.violation('capacity-not-restored/%s' % key,
                                  'burst: node %s %s differs from its initial '
                                  'value (%d cores busy)' % (now['index'], key,
                                                             busy), ctxv)
                    return
        if child._active_cnt != 0:
            res.violation('active-count-drift', 'idle pilot after a burst but '
                          '_active_cnt == %d' % child._active_cnt, ctxv)
    except TimeoutError as e:
        res.inconc('burst history: %r' % e)
    except RuntimeError as e:
        res.violation('history-stuck', 'burst: %r' % e, {'case': light})
    finally:
        if sim:
            sim.close()
        os.chdir(ctx.workdir or '/')
        shutil.rmtree(wd, ignore_errors=True)


def run(ctx):
    res = Result()
    cons = list()

    def mk(r):
        c = Conservation(r)
        return [c]

    def after(sim, obs):
        obs[0].check(sim, final=True)

    run_histories(ctx, res, ctx.n(2400, 30000), mk, after=after,
                  nontrivial=_nontrivial, salt='c03')

    rng = ctx.rng('burst')
    for i in range(ctx.n(16, 64)):
        burst_history(ctx, res, rng, i)
        res.evaluations += 1
        if len(res.violations) > 40:
            break

    rng = ctx.rng('exec')
    saved = c07.judge
    c07.judge = judge_exec
    try:
        for i in range(ctx.n(480, 6000)):
            case = gen_exec_case(rng, 'NOOP' if i % 8 == 7 else 'POPEN')
            c07.run_case(ctx, res, case, i)
            if len(res.violations) > 40:
                break
    finally:
        c07.judge = saved

    rng = ctx.rng('nodelist')
    for i in range(ctx.n(1600, 40000)):
        case = nodelist_restore(rng, res)
        res.evaluations += 1
        res.digests.add(digest(case))
    return res


def replay(case, ctx):
    res = Result()
    c = case.get('case') if isinstance(case, dict) else None
    if c and 'layout' in c:
        run_one(ctx, res, c, lambda r: [Conservation(r)],
                after=lambda sim, obs: obs[0].check(sim, final=True))
    elif c and 'spawner' in c:
        saved = c07.judge
        c07.judge = judge_exec
        try:
            for i in range(5):
                c07.run_case(ctx, res, c, i)
                if res.violations:
                    break
        finally:
            c07.judge = saved
    else:
        res.inconc('nodelist histories are replayed by seed only')
    return res
