'''
C03 - Released resources come back exactly once and completely.

Three monitors:
 (a) scheduler side: conservation over gated histories of the real scheduler
     pair - at every quiescent point (no task holds anything, every release
     was enacted) the node map equals the initial map field by field and the
     active counter is zero; a release is never enacted more often than asked;
 (b) executor side: over executor histories with real processes
     (rpverif/popsim.py) every task that reached the executor with a placement
     gets exactly one unschedule publication whatever its ending (done, exit
     code, cancel at any point incl. before intake, run-time limit, launch
     error);
 (c) application side: NodeList.find_slots / release_slots histories restore
     the node list exactly.
'''

import copy

from ..core       import Result, digest
from ..harness    import rp, ru, rps, rpc
from ..schedprops import Conservation, run_histories, run_one
from ..popsim     import gen_case as gen_exec_case
from .            import c07

ID     = 'C03'
LEVEL  = 'exploration'
MANIFEST = {
    'technique': 'runtime monitoring: conservation ledger at quiescent points '
                 'of the real scheduler loop + exactly-once unschedule oracle '
                 'over the real executor event log',
    'text': 'Conservation is decided where no task holds anything: the '
            'scheduler\'s node map must equal the initial one (cores, GPUs, '
            'lfs, mem) and its active counter must be zero, after histories '
            'with completions in random order, cancels and application-placed '
            'tasks.  On the executor side every ending (success, failure, '
            'cancel before intake / during spawn / while running / racing the '
            'exit, timeout, launch error) must produce exactly one unschedule '
            'publication per placed task.'
            '  Second session: a placed task the executor never hands over and never releases is reported here too (placed-task-never-unscheduled); executor endings include death by signal and faults after the spawn.',
    'note': 'scheduler and executor are exercised separately here (their '
            'composition is exercised by C08/C05); executor histories use real '
            'threads and processes, reproduced statistically.'}
RULE   = ('(a) gated scheduler histories as C01; non-trivial = at least two '
          'grants and a quiescent point reached; (b) executor histories as '
          'C07; (c) NodeList alloc/release histories; distinct = digest of '
          'trace / event orders.')
ASSUMPTIONS = ['the executor gives resources back by publishing the task on '
               'AGENT_UNSCHEDULE_PUBSUB']
SHARDS   = {'quick': 16, 'thorough': 16}
TIMEOUT  = {'quick': 300, 'thorough': 3000}
REQUIRED = {'quiescent_points': 1000, 'placed_tasks_checked': 300,
            'nodelist_restorations': 300, 'set:endings': 5}


def nodelist_restore(rng, res):
    cpn = rng.choice([1, 2, 4, 8]); gpn = rng.choice([0, 1, 2])
    nn  = rng.randint(1, 3)
    nodes = [rp.Node({'index': i, 'name': 'n%d' % i,
                      'cores': [rpc.FREE] * cpn, 'gpus': [rpc.FREE] * gpn,
                      'lfs': 100, 'mem': 100}) for i in range(nn)]
    nl = rp.NodeList(nodes=nodes); nl.verify()
    init = [n.as_dict() for n in nl.nodes]
    live, ops = list(), list()
    for _ in range(rng.randint(3, 25)):
        if live and rng.random() < 0.45:
            nl.release_slots(live.pop(rng.randrange(len(live))))
            ops.append('release')
            continue
        rr = rp.RankRequirements(n_cores=rng.randint(1, cpn),
                                 n_gpus=rng.randint(0, gpn),
                                 gpu_occupation=rng.choice([1.0, 0.5, 0.25]),
                                 lfs=rng.choice([0, 10, 40]),
                                 mem=rng.choice([0, 10, 40]))
        n = rng.randint(1, 3)
        ops.append(['find', rr.as_dict(), n])
        try:
            slots = nl.find_slots(rr, n_slots=n)
        except (ValueError, RuntimeError):
            continue
        if slots:
            live.append(slots)
    rng.shuffle(live)
    for slots in live:
        nl.release_slots(slots)
    res.count('nodelist_restorations')
    now = [n.as_dict() for n in nl.nodes]
    case = {'cpn': cpn, 'gpn': gpn, 'nodes': nn, 'ops': ops}
    for a, b in zip(now, init):
        for key in ('cores', 'gpus', 'lfs', 'mem'):
            va, vb = a[key], b[key]
            if key in ('cores', 'gpus'):
                va = [round(x['occupation'], 9) for x in va]
                vb = [round(x['occupation'], 9) for x in vb]
            if va != vb:
                res.violation('nodelist-not-restored/%s' % key,
                              'node %s %s: %s, initially %s'
                              % (a['index'], key, va, vb), case)
                return case
    return case


def judge_exec(sim, rec, res, case):
    for uid, r in rec.items():
        if not r['accepted']:
            continue
        spec = sim.specs[uid]
        res.count('placed_tasks_checked')
        ending = 'poison' if spec['poison'] else \
                 'dropped-at-intake' if r['dropped'] else \
                 'timeout' if spec['timeout'] else \
                 ('cancel:%s' % spec['cancel']) if spec['cancel'] else \
                 spec['ending']
        res.see('endings', ending)
        handed = r['handovers'] or r['dropped']
        if not handed:
            # left behind by the executor (C07 reports the hand-over side):
            # the placed task never gives its resources back either
            if 'watchdog' in sim.notes and sim.alive(r['pid']):
                res.inconc('watchdog fired while %s still runs' % uid)
            elif r['unschedules'] == 0:
                res.violation('placed-task-never-unscheduled',
                              '%s (%s): %s' % (uid, ending, r['order']),
                              {'case': case, 'records': rec,
                               'hits': sorted(sim.hits)})
            continue
        if r['unschedules'] != 1:
            mech = 'unschedule-published-%d-times' % r['unschedules']
            if r['dropped']:
                mech = 'dropped-at-intake-never-unscheduled'
            res.violation(mech, '%s (%s): %s' % (uid, ending, r['order']),
                          {'case': case, 'records': rec,
                           'hits': sorted(sim.hits)})


def _nontrivial(sim):
    return len(sim.granted) >= 2


def run(ctx):
    res = Result()
    cons = list()

    def mk(r):
        c = Conservation(r)
        return [c]

    def after(sim, obs):
        obs[0].check(sim, final=True)

    run_histories(ctx, res, ctx.n(2400, 60000), mk, after=after,
                  nontrivial=_nontrivial, salt='c03')

    rng = ctx.rng('exec')
    saved = c07.judge
    c07.judge = judge_exec
    try:
        for i in range(ctx.n(480, 9000)):
            case = gen_exec_case(rng, 'NOOP' if i % 8 == 7 else 'POPEN')
            c07.run_case(ctx, res, case, i)
            if len(res.violations) > 40:
                break
    finally:
        c07.judge = saved

    rng = ctx.rng('nodelist')
    for i in range(ctx.n(1600, 40000)):
        case = nodelist_restore(rng, res)
        res.evaluations += 1
        res.digests.add(digest(case))
    return res


def replay(case, ctx):
    res = Result()
    c = case.get('case') if isinstance(case, dict) else None
    if c and 'layout' in c:
        run_one(ctx, res, c, lambda r: [Conservation(r)],
                after=lambda sim, obs: obs[0].check(sim, final=True))
    elif c and 'spawner' in c:
        saved = c07.judge
        c07.judge = judge_exec
        try:
            for i in range(5):
                c07.run_case(ctx, res, c, i)
                if res.violations:
                    break
        finally:
            c07.judge = saved
    else:
        res.inconc('nodelist histories are replayed by seed only')
    return res
