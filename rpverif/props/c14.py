'''
C14 - Pilot states move forward and end for the right reason.

(a) reference model of the pilot state order beside the real
    PilotManager._state_sub_cb -> _update_pilot -> Pilot._update -> callbacks,
    and beside the client scheduler's TMGRSchedulingComponent._update_pilot_states;
(b) cause -> final state: the real Agent_0._check_lifetime / control_cb /
    _ctrl_cancel_pilots / stop / finalize are driven (object built with
    __new__, clock virtualised) for every termination cause and the state in
    `killme.signal` and in the published pilot update is read back.
'''

import os
import threading as mt

from ..core    import Result, digest
from ..harness import (rp, ru, rps, rpc, make_pmgr, make_pilot, NullLog,
                       NullProf, RecPublisher)

import radical.pilot.agent.agent_0          as m_agent0     # noqa
from ..harness import FINAL_STATES
import radical.pilot.tmgr.scheduler.base    as m_tsched     # noqa
from   radical.pilot.tmgr.scheduler.round_robin import RoundRobin  # noqa

ID     = 'C14'
LEVEL  = 'exploration'
MANIFEST = {
    'technique': 'runtime monitoring: reference pilot-state model on the real '
                 'notification path + cause/final-state read-back on the real '
                 'Agent_0 shutdown methods',
    'text': 'Generated notification histories (duplicates, reorder, gaps, late '
            'non-final after final, contradictory finals, unknown pilots) run '
            'through the real pilot manager and client scheduler; a model of '
            'the pilot state order decides callbacks and Pilot.state after '
            'every message.  Termination causes (run time reached, cancel '
            'naming this / another pilot, none) are enacted on the real '
            'Agent_0 methods with preceding no-op events interleaved.'
            '  Second session: 35% of the histories register application-like pilot callbacks (one-shot, raising, registering) before a late observer which must be told exactly what the first observer is told.'
            '  Third session: the agent sandbox of the cause scenarios holds agent_0.out/.err/.log of several kinds (absent, plain, UTF-8, 8-bit text of another locale, binary, multi-byte character cut at the read limit); finalize raising is a violation.'
            '  Noise events include cancel requests naming nobody or another pilot as a plain string; the concurrent workload has slow application callbacks.'
            '  Causes include the terminate command of session.close(); in 40 % of the cause scenarios finalize() runs on a work loop thread while the delivering thread is still inside stop() (LINE perturbation of stop).',
    'note': 'Agent_0 is built with __new__ and a virtual clock; bootstrap_0.sh '
            'is not executed, only the file it reads (killme.signal) is '
            'checked; overlapping causes (cancel racing the run-time limit) '
            'are outside the generated domain because either answer is '
            'defensible.'}
RULE   = ('(a) seeded histories of 3-20 messages over 1-3 known + unknown '
          'pilots; non-trivial = contains a gap, duplicate, regress or '
          'contradiction; (b) seeded shutdown scenarios: cause in {timeout, '
          'cancel-this, no-cause} preceded by 0-4 no-op events (cancel of '
          'other pilots, lifetime checks before the limit, unrelated control '
          'messages); distinct = case digest.')
ASSUMPTIONS = ['documented final-state corrections (CANCELED->DONE/FAILED, '
               'FAILED->DONE/CANCELED) are allowed, not required']
SHARDS   = {'quick': 8, 'thorough': 16}
REQUIRED = {'callbacks_checked': 2000, 'messages': 2000,
            'cause_scenarios': 300, 'set:causes': 3, 'sched_updates': 1000,
            'concurrent_histories': 1000}

_PV = rps._pilot_state_values
_PORDER = [rps.NEW, rps.PMGR_LAUNCHING_PENDING, rps.PMGR_LAUNCHING,
           rps.PMGR_ACTIVE_PENDING, rps.PMGR_ACTIVE]
_ALL = _PORDER + [rps.DONE, rps.FAILED, rps.CANCELED]


# ------------------------------------------------------------------------------
# (a) notification histories
#
def gen_history(rng):

    pids = ['pilot.%04d' % i for i in range(rng.randint(1, 3))]
    cur  = {p: 0 for p in pids}
    msgs, anomalies = list(), 0
    for _ in range(rng.randint(3, 20)):
        msg = list()
        for _ in range(rng.choice([1, 1, 1, 2, 3])):
            kind = rng.choices(['next', 'dup', 'skip', 'back', 'final',
                                'unknown'], [30, 10, 12, 10, 12, 5])[0]
            if kind == 'unknown':
                msg.append(['pilot.9%03d' % rng.randint(0, 3),
                            rng.choice(_ALL)])
                anomalies += 1
                continue
            p = rng.choice(pids)
            c = cur[p]
            if   kind == 'next': t = min(c + 1, 4)
            elif kind == 'dup' : t = c; anomalies += 1
            elif kind == 'skip': t = min(c + rng.randint(2, 4), 4); anomalies += 1
            elif kind == 'back': t = max(c - rng.randint(1, 3), 0); anomalies += 1
            else:
                msg.append([p, rng.choice(FINAL_STATES)])
                anomalies += 1
                continue
            cur[p] = max(c, t)
            msg.append([p, _PORDER[t]])
        msgs.append(msg)
    return {'pids': pids, 'messages': msgs,
            'payload' : rng.random() < 0.5,
            'cb_style': rng.randint(1, 2 ** 30) if rng.random() < 0.35
                        else None}, anomalies


def run_history(case, res):

    pm = make_pmgr()
    pilots = {p: make_pilot(pm, p) for p in case['pids']}

    seen_mgr = list()   # manager level callback (pilot, state)
    seen_obj = list()   # pilot level callback ([pilot])

    pm.register_callback(lambda pilot, state: seen_mgr.append(
                                             (pilot.uid, state, pilot.state)))
    for p in pilots.values():
        p.register_callback(lambda ps: seen_obj.append((ps[0].uid,
                                                        ps[0].state)))

    # further callbacks which behave the way application callbacks do: they
    # raise, or unregister themselves once they saw the state they waited for
    # (one-shot), or register another callback.  The observers above must be
    # told the same states nevertheless.
    style = case.get('cb_style')
    if style:
        res.count('histories_with_active_callbacks')
        import random as _random
        crng   = _random.Random(style)
        states = _PORDER[1:] + list(FINAL_STATES)

        def one_shot_mgr(trigger):
            def cb(pilot, state):
                if state == trigger:
                    res.count('one_shot_callbacks_fired')
                    pm.unregister_callback(cb)
            pm.register_callback(cb)

        def one_shot_obj(p, trigger):
            def cb(ps):
                if ps[0].state == trigger:
                    res.count('one_shot_callbacks_fired')
                    p.unregister_callback(cb)
            p.register_callback(cb)

        def raiser(trigger):
            def cb(pilot, state):
                if state == trigger:
                    res.count('raising_callbacks_fired')
                    raise RuntimeError('application callback failed')
            pm.register_callback(cb)

        def spawner(trigger):
            def late(pilot, state):
                pass
            def cb(pilot, state):
                if state == trigger:
                    res.count('registering_callbacks_fired')
                    pm.register_callback(late)
            pm.register_callback(cb)

        for _ in range(crng.randint(1, 3)):
            k = crng.choice(['one', 'one', 'oneobj', 'raise', 'spawn'])
            if   k == 'one'   : one_shot_mgr(crng.choice(states))
            elif k == 'oneobj': one_shot_obj(pilots[crng.choice(case['pids'])],
                                             crng.choice(states))
            elif k == 'raise' : raiser(crng.choice(states))
            else              : spawner(crng.choice(states))
        # observers registered AFTER the active ones see what is left over
        seen_late = list()
        pm.register_callback(lambda pilot, state: seen_late.append(
                                                      (pilot.uid, state)))
    else:
        seen_late = None

    # the client side scheduler keeps its own view of pilot states
    sched = RoundRobin.__new__(RoundRobin)
    sched._log         = NullLog()
    sched._pilots      = dict()
    sched._pilots_lock = ru.RLock()
    sched_updates      = list()
    sched.update_pilots = lambda pids: sched_updates.extend(pids)

    announced = {p: [] for p in case['pids']}
    shistory  = dict()

    for mi, msg in enumerate(case['messages']):

        res.count('messages')
        things = [{'uid': p, 'type': 'pilot', 'state': s} for p, s in msg]
        if case.get('payload'):
            # what real notifications carry besides the state: the agent's
            # PMGR_ACTIVE update comes with the full pilot record ('$all':
            # resources incl. the RM info, a rest_url which is None), final
            # updates with the record the launcher / agent kept
            for t in things:
                if t['state'] == rps.PMGR_ACTIVE:
                    t.update({'rest_url' : None,
                              'resources': {'rm_info': {'cores_per_node': 4,
                                                        'gpus_per_node' : 0,
                                                        'node_list'     : []},
                                            'cpu': 8, 'gpu': 0}})
                    res.count('notifications_with_resources')
                elif t['state'] in FINAL_STATES:
                    t.update({'stdout': None, 'stderr': '', 'logfile': None,
                              'resources': None})
        before = {p: pilots[p].state for p in pilots}
        n0 = len(seen_mgr)
        exc = None
        try:
            pm._state_sub_cb(rpc.STATE_PUBSUB, {'cmd': 'update',
                                                'arg': [dict(t) for t in things]})
        except ValueError as e:
            exc = e          # contradictory final: documented to raise
        except Exception as e:
            exc = e
            mech = 'pmgr-callback-raised'
            if style:
                mech = 'application-callback-aborts-notification'
            res.violation(mech, '%r escaped the notification handler: the '
                          'remaining states of this notification are not '
                          'applied and not announced' % e,
                          {'case': case, 'message_index': mi})
            return

        ctx = {'case': case, 'message_index': mi,
               'exception': repr(exc) if exc else None}

        for uid, state, pstate in seen_mgr[n0:]:
            res.count('callbacks_checked')
            if uid not in pilots:
                res.violation('callback-for-unknown-pilot', uid, ctx)
                continue
            prev = announced[uid][-1] if announced[uid] else rps.NEW
            if prev in FINAL_STATES and state not in FINAL_STATES:
                res.violation('final-left', '%s: %s announced after %s'
                              % (uid, state, prev), ctx)
            elif prev in FINAL_STATES and state != prev and not (
                    prev in (rps.CANCELED, rps.FAILED)):
                res.violation('final-changed', '%s: %s announced after %s'
                              % (uid, state, prev), ctx)
            elif _PV[state] < _PV[prev]:
                res.violation('callback-regress', '%s: %s announced after %s'
                              % (uid, state, prev), ctx)
            elif state not in (rps.FAILED, rps.CANCELED) and \
                    _PV[state] > _PV[prev] + 1:
                res.violation('callback-gap', '%s: %s announced after %s '
                              '(intermediate states not filled in)'
                              % (uid, state, prev), ctx)
            announced[uid].append(state)

        if seen_late is not None:
            a = [(u, st) for u, st, _ in seen_mgr]
            if a != seen_late:
                res.violation('observers-disagree', 'a callback registered '
                              'first was told %s, one registered later %s'
                              % (a[-6:], seen_late[-6:]), ctx)
                return

        # every pilot which is named exactly once in the message is compared
        # with the model exactly (a message is a bulk: the launcher reports
        # all pilots of a bulk submission at once) - unless the message made
        # the handler raise (contradictory finals are documented to)
        named = [p for p, _ in msg]

        def model(b, tgt):
            if b in FINAL_STATES:
                return {b} | ({tgt} if tgt in FINAL_STATES else set())
            if tgt in (rps.FAILED, rps.CANCELED) or _PV[tgt] >= _PV[b]:
                return {tgt}
            return {b}

        for p in dict.fromkeys(named):
            if p not in pilots or exc is not None:
                continue
            res.count('bulk_notifications_checked' if len(msg) > 1
                      else 'single_notifications_checked')
            if named.count(p) > 1:
                res.count('pilots_named_twice_in_a_message')
            b = before[p]
            # a pilot which is named several times gets its entries applied
            # in message order
            exp = {b}
            for q, tgt in msg:
                if q == p:
                    exp = set().union(*[model(x, tgt) for x in exp])
            if pilots[p].state not in exp:
                mech = 'state-mismatch' if len(msg) == 1 else \
                       'bulk-notification-lost'
                res.violation(mech, '%s: %s --%s--> %s, model %s (message '
                              'has %d entries)' % (p, b,
                              [t for q, t in msg if q == p], pilots[p].state,
                              sorted(exp), len(msg)), ctx)
                break

        for p in pilots:
            a = pilots[p].state
            b = before[p]
            if b in FINAL_STATES and a not in FINAL_STATES:
                res.violation('final-left', '%s: Pilot.state %s -> %s'
                              % (p, b, a), ctx)
            elif _PV[a] < _PV[b]:
                res.violation('state-regress', '%s: Pilot.state %s -> %s'
                              % (p, b, a), ctx)

        # same messages through the client scheduler's state tracking
        try:
            sched._update_pilot_states([dict(t) for t in things])
        except ValueError:
            pass
        for pid, info in sched._pilots.items():
            res.count('sched_updates')
            prev = shistory.get(pid)
            now  = info['state']
            if prev is not None:
                if prev in FINAL_STATES and now not in FINAL_STATES:
                    res.violation('sched-final-left', '%s: %s -> %s'
                                  % (pid, prev, now), ctx)
                elif _PV[now] < _PV[prev]:
                    res.violation('sched-regress', '%s: %s -> %s'
                                  % (pid, prev, now), ctx)
            shistory[pid] = now

        if res.violations:
            return

    for p in pilots:
        res.see('pilot_end_states', pilots[p].state)


# ------------------------------------------------------------------------------
# (a') the same notifications, delivered concurrently
#
# In a client, pilot notifications reach PilotManager._update_pilot from more
# than one thread (state pubsub subscriber, control pubsub subscriber for
# `pilot_activate`).  Each thread here delivers its own in-order stream for the
# same pilot; a yielding proxy around the manager's own `_pilots_lock` (a delay
# at an existing suspension point: just before the lock is acquired) widens the
# window between anything read before the lock and the update under it.
#
class _YieldLock(object):

    def __init__(self, lock, seed):
        self._lock = lock
        self._seed = seed
        self._rngs = dict()

    def _rng(self):
        import random
        name = mt.current_thread().name
        if name not in self._rngs:
            self._rngs[name] = random.Random('%s/%s' % (self._seed, name))
        return self._rngs[name]

    def __enter__(self):
        import time
        time.sleep(self._rng().choice([0, 0, 0.0002, 0.0005, 0.002]))
        return self._lock.__enter__()

    def __exit__(self, *a):
        return self._lock.__exit__(*a)

    def acquire(self, *a, **k): return self._lock.acquire(*a, **k)
    def release(self):          return self._lock.release()


def gen_concurrent(rng):
    n_threads = rng.choice([2, 2, 3])
    streams = list()
    for _ in range(n_threads):
        k = rng.choice(['inorder', 'skip', 'final', 'late'])
        if   k == 'inorder': st = _PORDER[1:rng.randint(2, 5)]
        elif k == 'skip'   : st = [_PORDER[rng.randint(2, 4)]]
        elif k == 'late'   : st = [_PORDER[rng.randint(1, 3)]]
        else               : st = [_PORDER[4], rng.choice(FINAL_STATES)]
        streams.append(st)
    return {'streams': streams, 'seed': rng.randint(0, 2 ** 30),
            'kind': 'concurrent'}


def run_concurrent(case, res):

    pm    = make_pmgr()
    pilot = make_pilot(pm, 'pilot.0000')
    pm._pilots_lock = _YieldLock(pm._pilots_lock, case['seed'])

    mlock = mt.Lock()
    seen  = list()

    import time
    import random
    crng = random.Random(case['seed'] + 11)

    def cb(p, state):
        with mlock:
            seen.append((mt.current_thread().name, state, p.state))
            nap = crng.choice([0, 0, 0.0002, 0.0005, 0.001])
        # an application callback takes its time (outside our own lock)
        time.sleep(nap)

    pm.register_callback(cb)
    errors = list()

    def deliver(states):
        for s in states:
            try:
                pm._state_sub_cb(rpc.STATE_PUBSUB, {'cmd': 'update', 'arg': [
                           {'uid': 'pilot.0000', 'type': 'pilot', 'state': s}]})
            except ValueError:
                pass                  # contradictory finals may raise
            except Exception as e:
                errors.append(repr(e))

    threads = [mt.Thread(target=deliver, args=[st], name='notify.%d' % i)
               for i, st in enumerate(case['streams'])]
    for t in threads: t.start()
    for t in threads: t.join(timeout=20)

    res.count('concurrent_histories')
    ctx = {'case': case, 'callbacks': seen, 'errors': errors}
    prev = rps.NEW
    for thread, state, _ in seen:
        res.count('callbacks_checked')
        if prev in FINAL_STATES and state not in FINAL_STATES:
            res.violation('concurrent/final-left', '%s announced after %s '
                          '(%s)' % (state, prev, seen), ctx)
            break
        if _PV[state] < _PV[prev]:
            res.violation('concurrent/callback-regress', '%s announced after '
                          '%s (%s)' % (state, prev, seen), ctx)
            break
        prev = state
    top = max((s for st in case['streams'] for s in st), key=lambda s: _PV[s])
    finals = [s for st in case['streams'] for s in st if s in FINAL_STATES]
    if finals and pilot.state not in FINAL_STATES:
        res.violation('concurrent/final-left', 'a final notification (%s) was '
                      'delivered, Pilot.state is %s afterwards'
                      % (finals, pilot.state), ctx)
    if _PV[pilot.state] < _PV[top]:
        res.violation('concurrent/state-behind', 'Pilot.state %s after all '
                      'notifications up to %s were delivered'
                      % (pilot.state, top), ctx)
    for e in errors:
        if 'invalid state transition' not in e:
            res.violation('concurrent/raised', e, ctx)


# ------------------------------------------------------------------------------
# (a'') the first notifications of a pilot racing its submission
#
# `submit_pilots` runs on the application thread; the launcher answers through
# the state subscriber thread, possibly before `submit_pilots` has returned
# (an eager launcher: its PMGR_LAUNCHING - or FAILED - notification is handled
# completely while the application thread is still inside the push).  The
# callbacks and Pilot.state must move forward only, whatever happens first.
#
def gen_submit(rng):
    return {'kind': 'submit', 'seed': rng.randint(0, 2 ** 30),
            'n': rng.randint(1, 3),
            'answer': rng.choice([[rps.PMGR_LAUNCHING],
                                  [rps.PMGR_LAUNCHING, rps.PMGR_ACTIVE_PENDING],
                                  [rps.FAILED], [rps.PMGR_LAUNCHING, rps.FAILED],
                                  [rps.PMGR_ACTIVE]]),
            'eager': rng.random() < 0.7}


def run_submit(case, res):
    import radical.pilot.pilot as m_pilot

    pm     = make_pmgr()
    seen   = list()
    mlock  = mt.Lock()
    errors = list()
    count  = [0]

    def cb(p, state):
        with mlock:
            seen.append((p.uid, state, p.state))
    pm.register_callback(cb)

    def factory(pmgr=None, descr=None):
        uid = 'pilot.%04d' % count[0]
        count[0] += 1
        p = make_pilot(pmgr, uid)
        del pmgr._pilots[uid]          # submit_pilots registers it itself
        return p

    def answer(things):
        for s in case['answer']:
            try:
                pm._state_sub_cb(rpc.STATE_PUBSUB, {'cmd': 'update', 'arg': [
                    {'uid': t['uid'], 'type': 'pilot', 'state': s}
                    for t in things]})
            except ValueError:
                pass
            except Exception as e:
                errors.append(repr(e))

    late = list()

    class _Launcher(object):
        channel = 'pmgr_launching_queue'
        def put(self, things, qname=None):
            things = [dict(t) for t in ru.as_list(things)]
            if case['eager']:
                # the subscriber thread handles the launcher's answer while
                # the application thread is still in here
                t = mt.Thread(target=answer, args=[things], name='state-sub')
                t.start()
                t.join(timeout=10)
            else:
                late.append(things)

    pm._outputs[rps.PMGR_LAUNCHING_PENDING] = _Launcher()
    saved = m_pilot.Pilot
    m_pilot.Pilot = factory
    try:
        descrs = [{'resource': 'local.localhost', 'cores': 4, 'nodes': 1,
                   'runtime': 10} for _ in range(case['n'])]
        try:
            pilots = pm.submit_pilots(descrs)
        except Exception as e:
            res.inconc('submit_pilots could not be driven: %r' % e)
            return
    finally:
        m_pilot.Pilot = saved
    for things in late:
        answer(things)

    res.count('submit_histories')
    ctx = {'case': case, 'callbacks': seen, 'errors': errors,
           'states': {p.uid: p.state for p in pilots}}
    for e in errors:
        res.violation('submit/raised', e, ctx)
        return
    top = max(case['answer'], key=lambda s_: _PV[s_])
    for p in pilots:
        prev = rps.NEW
        for uid, state, _ in seen:
            if uid != p.uid:
                continue
            res.count('callbacks_checked')
            if prev in FINAL_STATES and state not in FINAL_STATES:
                res.violation('submit/final-left', '%s: %s announced after %s'
                              % (uid, state, prev), ctx)
                return
            if _PV[state] < _PV[prev]:
                res.violation('submit/callback-regress', '%s: %s announced '
                              'after %s' % (uid, state, prev), ctx)
                return
            prev = state
        if _PV[p.state] < _PV[top] or \
                (top in FINAL_STATES and p.state not in FINAL_STATES):
            res.violation('submit/state-behind', '%s: Pilot.state is %s after '
                          'the launcher reported %s' % (p.uid, p.state,
                                                        case['answer']), ctx)
            return


# ------------------------------------------------------------------------------
# (b) termination causes
#
class _VTime(object):
    def __init__(self):
        self.now = 1000.0
    def time(self):
        return self.now
    def sleep(self, dt):
        self.now += dt
    def __getattr__(self, name):
        import time as _t
        return getattr(_t, name)


class _StubSession(object):
    def __init__(self):
        self.closed = 0
        self.uid    = 'rp.session.verif'
    def close(self):
        self.closed += 1


class _StubRM(object):
    def __init__(self):
        self.stopped = 0
    def stop(self):
        self.stopped += 1


def gen_cause(rng):

    cause = rng.choice(['timeout', 'cancel', 'none', 'terminate'])
    noise = [rng.choice(['cancel_other', 'early_lifetime', 'heartbeat',
                         'unknown_cmd', 'cancel_other_list', 'cancel_nobody',
                         'cancel_other_str'])
             for _ in range(rng.randint(0, 4))]
    kinds = [None, None, 'plain', 'plain', 'utf8', 'latin1', 'binary', 'cut',
             'empty']
    return {'cause': cause, 'noise': noise,
            'runtime': rng.choice([1, 2, 10, 60]),
            'late_by': rng.choice([0, 1, 59, 600]),
            'uids_form': rng.choice(['only', 'first', 'last']),
            'outputs': {ext: rng.choice(kinds)
                        for ext in ('out', 'err', 'log')},
            'threaded': cause != 'none' and rng.random() < 0.4,
            'seed': rng.randint(0, 2 ** 30)}


def run_cause(case, res, workdir):

    me  = 'pilot.0000'
    clk = _VTime()

    a = m_agent0.Agent_0.__new__(m_agent0.Agent_0)
    a._uid   = 'agent.0'
    a._pid   = me
    a._pmgr  = 'pmgr.0000'
    a._cfg   = ru.Config(from_dict={'uid': 'agent.0', 'pid': me,
                                    'runtime': case['runtime']})
    a._log   = NullLog()
    a._prof  = NullProf()
    a._term  = mt.Event()
    a._session    = _StubSession()
    a._rm         = _StubRM()
    a._starttime  = clk.now
    a._final_cause = None
    a._publishers = {rpc.STATE_PUBSUB  : RecPublisher(rpc.STATE_PUBSUB),
                     rpc.CONTROL_PUBSUB: RecPublisher(rpc.CONTROL_PUBSUB)}
    a._outputs    = dict()
    a._cancel_list = list()
    a._cancel_lock = mt.RLock()

    class _HB(object):
        def beat(self, uid=None): pass
    a._session._hb = _HB()

    saved = m_agent0.time
    m_agent0.time = clk
    cwd = os.getcwd()
    os.chdir(workdir)
    for f in ('killme.signal', 'agent_0.out', 'agent_0.err', 'agent_0.log'):
        if os.path.exists(f):
            os.unlink(f)
    # what the agent process wrote so far (finalize reports the head of it):
    # absent, plain, UTF-8, another locale's 8-bit text, binary
    OUTPUTS = {'plain' : b'agent_0 starting\nall is well\n',
               'utf8'  : 'B\u00fccher \u2713 \u65e5\u672c\n'.encode('utf-8'),
               'latin1': 'tar: Fehler beim Schlie\u00dfen; gr\u00f6\u00dfe\n'
                         .encode('latin-1'),
               'binary': bytes(range(256)) * 5,
               'cut'   : ('x' * 1023).encode() + '\u00e9'.encode('utf-8'),
               'empty' : b''}
    for ext, kind in (case.get('outputs') or {}).items():
        if kind in OUTPUTS:
            with open('agent_0.%s' % ext, 'wb') as fout:
                fout.write(OUTPUTS[kind])
            res.see('agent_output_kinds', kind)

    ctx = {'case': case}
    try:
        # events which must have no effect
        for n in case['noise']:
            if n == 'cancel_other':
                a._control_cb(rpc.CONTROL_PUBSUB, {'cmd': 'cancel_pilots',
                              'arg': {'uids': ['pilot.0007']}})
            elif n == 'cancel_other_list':
                a._control_cb(rpc.CONTROL_PUBSUB, {'cmd': 'cancel_pilots',
                              'arg': {'uids': ['pilot.0001', 'pilot.00001',
                                               'pilot.000']}})
            elif n == 'cancel_nobody':
                # what a pilot manager without pilots sends when it is closed
                a._control_cb(rpc.CONTROL_PUBSUB, {'cmd': 'cancel_pilots',
                              'arg': {'uids': []}})
            elif n == 'cancel_other_str':
                a._control_cb(rpc.CONTROL_PUBSUB, {'cmd': 'cancel_pilots',
                              'arg': {'uids': 'pilot.0001'}})
            elif n == 'early_lifetime':
                clk.now = a._starttime + case['runtime'] * 60 - 1
                a._check_lifetime()
            elif n == 'heartbeat':
                a._control_cb(rpc.CONTROL_PUBSUB, {'cmd': 'pmgr_heartbeat',
                              'arg': {'pmgr': 'pmgr.0000'}})
            else:
                a._control_cb(rpc.CONTROL_PUBSUB, {'cmd': 'frobnicate',
                              'arg': None})
            if a._term.is_set() or a._final_cause is not None:
                res.violation('noop-event-terminated-agent',
                              '%s set term=%s cause=%s' % (n, a._term.is_set(),
                                                           a._final_cause), ctx)
                return

        # the work loop of the agent runs finalize() as soon as `_term` is
        # set - in some histories on its own thread, while the thread which
        # delivers the cause is still inside stop()
        fin, th, pert = dict(), None, None
        if case.get('threaded'):
            import time as _time
            from ..popsim import Perturb
            import radical.pilot.utils.component as m_comp

            def loop():
                while not a._term.is_set():
                    _time.sleep(0.0001)
                try:
                    a.finalize()
                except Exception as e:
                    fin['exc'] = e
            pert = Perturb(case.get('seed', 0), 0.5,
                           funcs=[m_agent0.Agent_0.stop,
                                  m_comp.BaseComponent.stop])
            th = mt.Thread(target=loop, daemon=True, name='agent-work-loop')
            th.start()
            res.count('threaded_cause_scenarios')

        # the cause
        if case['cause'] == 'terminate':
            # what session.close() publishes: handled by the component base
            a._rpc_reqs = dict()
            a._control_cb(rpc.CONTROL_PUBSUB, {'cmd': 'terminate',
                                               'arg': None})
            expected = rps.CANCELED
        elif case['cause'] == 'timeout':
            clk.now = a._starttime + case['runtime'] * 60 + case['late_by']
            a._check_lifetime()
            expected = rps.DONE
        elif case['cause'] == 'cancel':
            uids = {'only' : [me], 'first': [me, 'pilot.0003'],
                    'last' : ['pilot.0003', me]}[case['uids_form']]
            a._control_cb(rpc.CONTROL_PUBSUB, {'cmd': 'cancel_pilots',
                                               'arg': {'uids': uids}})
            expected = rps.CANCELED
        else:
            # the work loop ended without anybody naming a reason
            a._term.set()
            expected = rps.FAILED

        if pert:
            pert.stop()
        if not a._term.is_set():
            res.violation('cause-did-not-stop-agent/%s' % case['cause'],
                          'term not set', ctx)
            return

        # what the work loop does once `_term` is set
        try:
            if th:
                th.join(timeout=20)
                if th.is_alive():
                    res.inconc('agent work loop thread still busy after 20 s')
                    return
                if 'exc' in fin:
                    raise fin['exc']
            else:
                a.finalize()
        except Exception as e:
            # the agent's loop would log this and end: no reason is ever
            # reported for the end of the pilot
            res.count('cause_scenarios')
            res.violation('finalize-raised/%s' % case['cause'], '%r; '
                          'killme.signal written: %s' % (e,
                          os.path.exists('killme.signal')), ctx)
            return

        with open('killme.signal') as fin:
            signal = fin.read().strip()
        pubs = [t for m in a._publishers[rpc.STATE_PUBSUB].msgs
                  for t in ru.as_list(m['arg']) if t.get('type') == 'pilot']
        adv  = pubs[-1]['state'] if pubs else None

    finally:
        m_agent0.time = saved
        os.chdir(cwd)

    res.count('cause_scenarios')
    res.see('causes', case['cause'])
    res.see('final_written', '%s->%s' % (case['cause'], signal))

    if signal != expected or adv != expected:
        res.violation('wrong-final-state/%s' % case['cause'],
                      'cause %s: killme.signal=%s advanced=%s expected=%s'
                      % (case['cause'], signal, adv, expected), ctx)


# ------------------------------------------------------------------------------
#
def run(ctx):

    res = Result()
    rng = ctx.rng('hist')
    for i in range(ctx.n(12000, 1600000)):
        case, anomalies = gen_history(rng)
        res.evaluations += 1
        if anomalies:
            res.digests.add(digest(case))
        if len(res.samples) < 2 and anomalies > 2:
            res.samples.append({'part': 'a', 'case': case})
        run_history(case, res)
        if len(res.violations) > 30:
            break

    rng = ctx.rng('conc')
    for i in range(ctx.n(4000, 400000)):
        case = gen_concurrent(rng)
        res.evaluations += 1
        res.digests.add(digest(case))
        run_concurrent(case, res)
        if len(res.violations) > 30:
            break

    rng = ctx.rng('submit')
    for i in range(ctx.n(1600, 160000)):
        case = gen_submit(rng)
        res.evaluations += 1
        run_submit(case, res)
        if len(res.violations) > 30:
            break

    rng = ctx.rng('cause')
    wd  = os.path.join(ctx.workdir or os.getcwd(), 'agent_sbox')
    os.makedirs(wd, exist_ok=True)
    for i in range(ctx.n(1600, 160000)):
        case = gen_cause(rng)
        res.evaluations += 1
        res.digests.add(digest(case))
        if i < 1:
            res.samples.append({'part': 'b', 'case': case})
        run_cause(case, res, wd)
        if len(res.violations) > 30:
            break

    return res


def replay(case, ctx):
    res = Result()
    c = case['case']
    if c.get('kind') == 'submit':
        run_submit(c, res)
        res.evaluations = 1
        return res
    if c.get('kind') == 'concurrent':
        for _ in range(200):
            run_concurrent(c, res)
            if res.violations:
                break
    elif 'cause' in c:
        wd = os.path.join(ctx.workdir or os.getcwd(), 'agent_sbox')
        os.makedirs(wd, exist_ok=True)
        run_cause(c, res, wd)
    else:
        run_history(c, res)
    res.evaluations = 1
    return res
