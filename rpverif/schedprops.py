'''
Random driver and monitors (observers) for gated scheduler histories
(see schedsim.Sim).  Monitors are independent of the scheduler's own
bookkeeping: they are fed from boundary events only (grants seen on the
executing queue, unschedule messages published by the driver, state
publications) and compared with the component's state at quiescent points.
'''

import copy
import math

from .harness  import rp, ru, rps, rpc
from .schedsim import gen_layout, gen_task, Sim

EPS = 1e-9


# ------------------------------------------------------------------------------
# C01: who holds what
#
class Ledger(object):

    def __init__(self, res):
        self.res   = res
        self.cores = dict()     # (node, idx) -> uid
        self.gpus  = dict()     # (node, idx) -> {uid: share}
        self.lfs   = dict()     # node -> {uid: amount}
        self.mem   = dict()
        self.seen  = set()

    def _viol(self, sim, mech, msg):
        self.res.violation(mech, msg, {'case': sim.case, 'trace': sim.trace})

    def on_grant(self, sim, uid, task, view):
        res = self.res
        if uid in self.seen:
            return                      # double grants are C04's business
        self.seen.add(uid)
        if sim.tasks[uid].get('_bad_app_slots'):
            res.count('invalid_app_slots_granted')
            self._viol(sim, 'invalid-app-slots-granted', '%s names a node or '
                       'core the pilot does not have and was placed: %s'
                       % (uid, view))
            return
        app   = bool(sim.tasks[uid].get('_app_slots_found'))
        nodes = {n['index']: n for n in sim.rm_info.node_list}
        other = {n['index'] for n in (sim.rm_info.agent_node_list or []) +
                                     (sim.rm_info.service_node_list or [])}
        res.count('grants_checked')
        if other:
            res.count('grants_with_reserved_nodes_present')
        if app:
            res.count('app_placed_grants')

        def is_app(u):
            return bool(sim.tasks[u].get('_app_slots_found'))

        for rank, s in enumerate(view):
            ni = s['node_index']
            res.count('rank_slots_checked')
            if ni in other:
                # decided from the reserved lists alone: a node set aside for
                # sub-agents/services must not host a task even if it (also)
                # shows up in the node list the scheduler works from
                res.count('reserved_node_checks_failed')
                self._viol(sim, 'agent-node-used',
                           '%s rank %d placed on reserved node %s'
                           % (uid, rank, ni))
                if ni not in nodes:
                    continue
            if ni not in nodes:
                self._viol(sim, 'unknown-node',
                           '%s rank %d placed on node %s' % (uid, rank, ni))
                continue
            node = nodes[ni]
            if s['node_name'] != node['name']:
                self._viol(sim, 'node-name-index-mismatch', '%s: %s != %s'
                           % (uid, s['node_name'], node['name']))
            for idx, occ in s['cores']:
                if not 0 <= idx < len(node['cores']):
                    self._viol(sim, 'core-index-out-of-range',
                               '%s: core %s on node %s' % (uid, idx, ni))
                    continue
                # decided from the layout the environment was generated from,
                # not from the marks in the node list (the very thing a defect
                # in the resource manager gets wrong)
                if node['cores'][idx] is None or \
                        idx in (sim.case['layout'].get('blocked_cores') or []):
                    self._viol(sim, 'blocked-core-used',
                               '%s got blocked core %d on node %d'
                               % (uid, idx, ni))
                holder = self.cores.get((ni, idx))
                if holder is not None:
                    mech = 'core-double-booked'
                    if holder == uid:
                        mech = 'core-twice-in-one-task'
                    elif app or ('c', ni, idx) in (sim.tainted or ()):
                        mech = 'app-slots-overlap-unchecked'
                    elif is_app(holder):
                        mech = 'app-slots-not-accounted'
                    self._viol(sim, mech, 'core %d of node %d given to %s '
                               'while held by %s' % (idx, ni, uid, holder))
                self.cores[(ni, idx)] = uid
            for idx, occ in s['gpus']:
                if not 0 <= idx < len(node['gpus']):
                    self._viol(sim, 'gpu-index-out-of-range',
                               '%s: gpu %s on node %s' % (uid, idx, ni))
                    continue
                if node['gpus'][idx] is None or \
                        idx in (sim.case['layout'].get('blocked_gpus') or []):
                    self._viol(sim, 'blocked-gpu-used',
                               '%s got blocked gpu %d on node %d'
                               % (uid, idx, ni))
                shares = self.gpus.setdefault((ni, idx), dict())
                shares[uid] = shares.get(uid, 0.0) + float(occ)
                total = sum(shares.values())
                if total > 1.0 + EPS:
                    if len(shares) == 1:
                        mech = 'gpu-shares-of-one-task-exceed-gpu'
                    elif app or ('g', ni, idx) in (sim.tainted or ()):
                        mech = 'app-slots-overlap-unchecked'
                    elif any(is_app(u) for u in shares):
                        mech = 'app-slots-not-accounted'
                    else:
                        mech = 'gpu-oversubscribed'
                    self._viol(sim, mech, 'gpu %d of node %d holds %.2f: %s'
                               % (idx, ni, total, shares))
            for kind, book in (('lfs', self.lfs), ('mem', self.mem)):
                amount = s[kind]
                if not amount:
                    continue
                held = book.setdefault(ni, dict())
                held[uid] = held.get(uid, 0) + amount
                cap = node[kind]
                if cap is not None and sum(held.values()) > cap + EPS:
                    mech = '%s-overcommit' % kind
                    if app or sim.app_overlap:
                        mech = 'app-slots-overlap-unchecked'
                    elif any(is_app(u) for u in held):
                        mech = 'app-slots-not-accounted'
                    self._viol(sim, mech, 'node %d %s: held %s > %s'
                               % (ni, kind, held, cap))

    def on_release(self, sim, uid, view):
        for k in [k for k, u in self.cores.items() if u == uid]:
            del self.cores[k]
        for shares in self.gpus.values():
            shares.pop(uid, None)
        for book in (self.lfs, self.mem):
            for held in book.values():
                held.pop(uid, None)

    def on_final(self, sim, thing): pass
    def after_step(self, sim, last): pass


# ------------------------------------------------------------------------------
# C02: shape of a grant
#
class Shape(object):

    def __init__(self, res):
        self.res  = res
        self.colo = dict()       # tag -> set(node index) used so far
        self.seen = set()

    def _viol(self, sim, mech, msg):
        self.res.violation(mech, msg, {'case': sim.case, 'trace': sim.trace})

    def on_grant(self, sim, uid, task, view):
        if uid in self.seen:
            return
        self.seen.add(uid)
        t   = sim.tasks[uid]
        td  = task['description']
        res = self.res
        if t.get('_app_slots_found'):
            res.count('app_placed_skipped')
            return
        res.count('grants_checked')

        lay  = sim.case['layout']
        cpn  = lay['cores_per_node'] - len(lay['blocked_cores'])
        gpn  = lay['gpus_per_node']  - len(lay['blocked_gpus'])
        cpr  = max(1, t['cores_per_rank'])
        gpr  = t['gpus_per_rank']
        idx2name = {n['index']: n['name'] for n in sim.rm_info.node_list}

        if len(view) != t['ranks']:
            self._viol(sim, 'rank-count', '%s: %d slots for %d ranks'
                       % (uid, len(view), t['ranks']))

        per_node = dict()
        for rank, s in enumerate(view):
            res.count('rank_slots_checked')
            ni = s['node_index']
            per_node[ni] = per_node.get(ni, 0) + 1
            if ni not in idx2name or idx2name[ni] != s['node_name']:
                self._viol(sim, 'slot-node-invalid', '%s rank %d: node %s/%s'
                           % (uid, rank, ni, s['node_name']))
            cidx = [i for i, _ in s['cores']]
            if len(cidx) != cpr or len(set(cidx)) != cpr:
                self._viol(sim, 'core-count', '%s rank %d: cores %s, wanted %d '
                           'distinct' % (uid, rank, cidx, cpr))
            gidx = [i for i, _ in s['gpus']]
            if gpr >= 1:
                if len(gidx) != int(gpr) or len(set(gidx)) != int(gpr) or \
                   any(abs(o - 1.0) > EPS for _, o in s['gpus']):
                    self._viol(sim, 'gpu-count', '%s rank %d: gpus %s, wanted '
                               '%s whole' % (uid, rank, s['gpus'], gpr))
            elif gpr > 0:
                if len(gidx) != 1 or abs(s['gpus'][0][1] - gpr) > EPS:
                    self._viol(sim, 'gpu-share', '%s rank %d: gpus %s, wanted '
                               'share %s' % (uid, rank, s['gpus'], gpr))
            elif gidx:
                self._viol(sim, 'gpu-unrequested', '%s rank %d: gpus %s'
                           % (uid, rank, s['gpus']))
            if s['lfs'] != t['lfs_per_rank'] or s['mem'] != t['mem_per_rank']:
                self._viol(sim, 'lfs-mem-amount', '%s rank %d: lfs %s mem %s, '
                           'wanted %s / %s' % (uid, rank, s['lfs'], s['mem'],
                           t['lfs_per_rank'], t['mem_per_rank']))

        rpn = t.get('ranks_per_node')
        if rpn and per_node and max(per_node.values()) > rpn:
            self._viol(sim, 'ranks-per-node-exceeded', '%s: %s > %d'
                       % (uid, per_node, rpn))

        tag = t['tags'].get('colocate')
        if tag is not None:
            res.count('colocate_grants')
            used = self.colo.get(tag)
            if used is not None and not set(per_node) <= used:
                self._viol(sim, 'colocate-violated', '%s tag %s on nodes %s, '
                           'tag nodes so far %s' % (uid, tag, sorted(per_node),
                                                    sorted(used)))
            self.colo.setdefault(tag, set()).update(per_node)

        if t['cores_per_rank'] > cpn or gpr > gpn or \
           (lay['lfs'] is not None and t['lfs_per_rank'] > (lay['lfs'] or 0)) or \
           (lay['mem'] is not None and t['mem_per_rank'] > (lay['mem'] or 0)):
            self._viol(sim, 'oversized-request-granted', '%s: per-rank needs '
                       'c%s g%s l%s m%s exceed node c%s g%s l%s m%s'
                       % (uid, t['cores_per_rank'], gpr, t['lfs_per_rank'],
                          t['mem_per_rank'], cpn, gpn, lay['lfs'], lay['mem']))

        exp = {'cpu': t['ranks'] * td['cores_per_rank'],
               'gpu': t['ranks'] * td['gpus_per_rank']}
        got = task.get('resources')
        if not got or got.get('cpu') != exp['cpu'] or \
           abs(got.get('gpu', 0) - exp['gpu']) > EPS:
            self._viol(sim, 'resources-figure', '%s: resources %s, expected %s'
                       % (uid, got, exp))

    def on_release(self, sim, uid, view): pass
    def on_final(self, sim, thing): pass
    def after_step(self, sim, last): pass


def app_mech(sim):
    '''
    classification of bookkeeping drift: application-supplied slots which
    overlapped a live placement make the node map unreliable (recorded design
    limitation); app slots without overlap must be accounted like any other
    '''
    if sim.app_overlap:
        return 'app-slots-overlap-unchecked'
    if any(t.get('_app_slots_found') for t in sim.tasks.values()
           if t['uid'] in sim.granted):
        return 'app-slots-not-accounted'
    return None


# ------------------------------------------------------------------------------
# C03 (scheduler side): conservation at quiescent points
#
class Conservation(object):

    def __init__(self, res):
        self.res = res

    def _viol(self, sim, mech, msg):
        self.res.violation(mech, msg, {'case': sim.case, 'trace': sim.trace})

    def on_grant(self, sim, uid, task, view): pass
    def on_release(self, sim, uid, view): pass
    def on_final(self, sim, thing): pass

    def after_step(self, sim, last):
        self.check(sim)

    def check(self, sim, final=False):
        res = self.res
        pub, proc = sim.unsched_published, sim.unsched_processed

        # a release the scheduler enacted must have been asked for, once
        for u in set(proc):
            if proc.count(u) > pub.count(u):
                self._viol(sim, 'released-more-often-than-asked',
                           '%s released %d times, asked %d'
                           % (u, proc.count(u), pub.count(u)))

        if sim.held or sorted(pub) != sorted(proc) or not sim.settled():
            return
        # quiescent: no task holds anything, every release was enacted
        res.count('quiescent_points')
        child = sim.pair.child
        app   = app_mech(sim)
        for now, init in zip(child.nodes, sim.init_nodes):
            for key in ('cores', 'gpus', 'lfs', 'mem'):
                if now[key] != init[key]:
                    mech = 'capacity-not-restored/%s' % key
                    if app:
                        mech = app
                    self._viol(sim, mech, 'node %s %s: %s, initially %s'
                               % (now['index'], key, now[key], init[key]))
                    return
        if child._active_cnt != 0:
            self._viol(sim, app or 'active-count-drift',
                       'idle pilot but _active_cnt == %d' % child._active_cnt)


# ------------------------------------------------------------------------------
# independent "does it fit" (simple requests only: no tags, scattered)
#
def node_capacity(t, free_cores, free_gpus, lfs, mem):
    '''number of ranks of request t one node with these free resources takes'''
    cpr = max(1, t['cores_per_rank'])
    n   = free_cores // cpr
    g   = t['gpus_per_rank']
    if g:
        n = min(n, int(free_gpus // g))
    if t['lfs_per_rank']:
        n = min(n, int((lfs or 0) // t['lfs_per_rank']))
    if t['mem_per_rank']:
        n = min(n, int((mem or 0) // t['mem_per_rank']))
    if t.get('ranks_per_node'):
        n = min(n, t['ranks_per_node'])
    return max(0, n)


def fits(t, nodes):
    '''nodes: list of (free_cores, free_gpus, lfs, mem)'''
    caps = [node_capacity(t, *n) for n in nodes]
    if t['ranks'] <= 0:
        return False
    if t['ranks'] == 1:
        return any(c >= 1 for c in caps)
    return sum(caps) >= t['ranks']


def free_view(nodes):
    out = list()
    for n in nodes:
        out.append((sum(1 for c in n['cores'] if c == rpc.FREE),
                    sum(1 for g in n['gpus']  if g == rpc.FREE),
                    n['lfs'], n['mem']))
    return out


def is_simple(t):
    g = t['gpus_per_rank']
    return not t['tags'] and not t.get('app_slots') and not t['named_env'] \
           and g == int(g) and t['ranks'] > 0 and not t.get('raptor_id')


# ------------------------------------------------------------------------------
# C04: partition, at-most-once, bounded progress
#
class Progress(object):

    K = 4          # loop iterations granted for progress

    def __init__(self, res):
        self.res      = res
        self.reported = dict()      # uid -> list of outcomes
        self.canceled_req = set()

    def _viol(self, sim, mech, msg):
        self.res.violation(mech, msg, {'case': sim.case, 'trace': sim.trace})

    def on_grant(self, sim, uid, task, view):
        self.reported.setdefault(uid, []).append('started')
        self._once(sim, uid)

    def on_final(self, sim, thing):
        self.reported.setdefault(thing['uid'], []).append(
                                                     thing['state'].lower())
        self._once(sim, thing['uid'])

    def _once(self, sim, uid):
        self.res.count('outcome_reports')
        rep = self.reported[uid]
        if len(rep) > 1:
            mech = 'reported-twice/%s' % '+'.join(sorted(rep))
            if sim.tasks[uid]['ranks'] <= 0:
                mech = 'invalid-ranks-handled-twice'
            self._viol(sim, mech, '%s reported %s' % (uid, rep))

    def on_release(self, sim, uid, view): pass

    def after_step(self, sim, last):
        # (i) every submitted task is in exactly one place
        for uid in sim.submitted:
            self.res.count('partition_checks')
            where = sim.places(uid)
            if len(where) == 0:
                self._viol(sim, 'task-lost', '%s is nowhere after step %s'
                           % (uid, last[0]))
            elif len(where) > 1 and len(self.reported.get(uid, [])) < 2:
                mech = 'task-in-two-places'
                if sim.tasks[uid]['ranks'] <= 0:
                    mech = 'invalid-ranks-handled-twice'
                self._viol(sim, mech, '%s is in %s' % (uid, where))

    # -- progress oracles, called by the driver at settled points -------------
    def check_progress(self, sim):
        '''
        precondition: driver has injected nothing new, everything in transit
        was delivered, and K loop iterations have run since.
        '''
        res   = self.res
        child = sim.pair.child
        lay   = sim.case['layout']
        wait  = [u for u in sim.waiting()]
        idle  = not sim.held and sorted(sim.unsched_published) == \
                                 sorted(sim.unsched_processed)
        res.count('progress_points')
        if idle:
            res.count('idle_points')
        if not wait:
            return
        res.count('progress_points_with_waiting')
        envs  = set(child._named_envs)
        tasks = [sim.tasks[u] for u in wait]
        free  = free_view(child.nodes)
        full  = free_view(sim.init_nodes)
        app   = app_mech(sim)

        def mech(m):
            return app or m

        # waiting alone although it fits what is free now
        if len(tasks) == 1 and is_simple(tasks[0]) and \
                sim.case.get('scattered', True):
            res.count('alone_checks')
            if fits(tasks[0], free):
                self._viol(sim, mech('waiting-alone-although-it-fits'),
                           '%s waits, free %s' % (tasks[0], free))

        if idle:
            res.count('idle_points_with_waiting')
            eligible = [t for t in tasks
                        if not t['named_env'] or t['named_env'] in envs]
            simple   = [t for t in eligible if is_simple(t)]
            # a task that cannot fit the idle pilot must have been failed
            for t in simple:
                if not fits(t, full) and sim.case.get('scattered', True):
                    self._viol(sim, mech('unfittable-task-not-failed'),
                               '%s waits on an idle pilot it can never fit'
                               % t)
            # every waiting task fits the idle pilot -> at least one runs
            if eligible and len(simple) == len(eligible) == len(tasks) and \
                    all(fits(t, full) for t in simple) and \
                    sim.case.get('scattered', True):
                self._viol(sim, mech('idle-pilot-starts-nothing'),
                           'idle pilot, waiting %s all fit' % [t['uid']
                                                               for t in tasks])

    def check_failures(self, sim):
        '''(iv) a task that fits the idle pilot is never failed for resources'''
        full = free_view(sim.init_nodes)
        app  = app_mech(sim)
        for uid, state, exc, detail in sim.finals:
            if state != rps.FAILED:
                continue
            t = sim.tasks[uid]
            self.res.count('failures_checked')
            txt = '%s %s' % (exc, detail)
            resource_reason = 'never be scheduled' in txt or \
                              'bisect failed' in txt or \
                              'does not fit' in txt or 'too many' in txt or \
                              'too much' in txt
            self.res.see('failure_reasons', (exc or '')[:60])
            if resource_reason and is_simple(t) and fits(t, full) and \
                    sim.case.get('scattered', True):
                self._viol(sim, app or 'fitting-task-failed-for-resources',
                           '%s failed (%s) but fits the idle pilot %s'
                           % (t, exc, full))


# ------------------------------------------------------------------------------
#
def gen_case(rng, simple=False, n_tasks=None, allow_app_slots=True,
             allow_cancel=True, allow_raptor=True):

    lay = gen_layout(rng)
    n   = n_tasks or rng.randint(1, 9)
    tasks = [gen_task(rng, lay, 't.%02d' % i, simple=simple,
                      allow_app_slots=allow_app_slots) for i in range(n)]
    raptor = False
    if allow_raptor and rng.random() < 0.25:
        # some tasks belong to a raptor master (named, or any: '*') whose
        # queue registers / unregisters at some point of the history; some of
        # them come back from the master (`raptor_seen`) to run here
        raptor = True
        for t in tasks:
            if rng.random() < 0.45 and not t.get('app_slots'):
                t['raptor_id'] = rng.choice(['raptor.0', 'raptor.0', '*'])
                if rng.random() < 0.25:
                    t['raptor_seen'] = True
    if not simple and n >= 2 and rng.random() < 0.15:
        # a family of colocated MPI tasks: the same tag on two to four tasks
        # of several ranks each, with a per-node rank limit - later members
        # are placed from the tag's node history
        fam = [t for t in tasks if not t.get('app_slots')
                                   and not t.get('raptor_id')
                                   and t['ranks'] > 0]
        fam = fam[:rng.randint(2, 4)]
        tag = rng.choice(['fam', 7])
        rpn = rng.choice([1, 1, 2])
        for t in fam:
            t.update({'tags': {'colocate': tag}, 'named_env': '',
                      'ranks': rng.randint(2, 4), 'cores_per_rank': 1,
                      'gpus_per_rank': 0., 'lfs_per_rank': 0,
                      'mem_per_rank': 0, 'ranks_per_node': rpn})
    return {'layout'      : lay,
            'raptor'      : raptor,
            'scheduler'   : 'CONTINUOUS',
            'scattered'   : rng.random() < 0.75,
            'random_bulk' : rng.random() < 0.5,
            'tasks'       : tasks,
            'seed'        : rng.randint(0, 2 ** 30),
            'allow_cancel': allow_cancel,
            'max_actions' : rng.randint(10, 60)}


def drive(sim, rng, progress=None, settle=True):
    '''random history; `rng` must be seeded from the case for replay'''

    case    = sim.case
    pending = [t['uid'] for t in case['tasks']]
    rng.shuffle(pending)
    env_reg = False
    need_env = any(t['named_env'] for t in case['tasks'])

    for _ in range(case['max_actions']):
        acts = ['step'] * 6 + ['pump'] * 2 + ['intake'] * 2
        if pending:
            acts += ['arrive'] * 4
        if sim.held:
            acts += ['complete'] * 4
        if case.get('allow_cancel', True) and sim.submitted:
            acts += ['cancel']
        if need_env and not env_reg:
            acts += ['env']
        if case.get('raptor'):
            acts += ['raptor'] * 2
        a = rng.choice(acts)
        if a == 'arrive':
            k = rng.randint(1, min(3, len(pending)))
            sim.arrive([pending.pop() for _ in range(k)])
            if rng.random() < 0.7:
                sim.intake()
        elif a == 'intake':
            sim.intake()
        elif a == 'step':
            sim.step()
        elif a == 'pump':
            sim.pump(rng.randint(1, 3))
        elif a == 'complete':
            sim.complete(rng.choice(sorted(sim.held)))
            if rng.random() < 0.6:
                sim.pump()
        elif a == 'cancel':
            cands = sim.waiting() or sim.submitted
            k = rng.randint(1, min(2, len(cands)))
            uids = rng.sample(sorted(cands), k)
            if progress:
                progress.canceled_req.update(uids)
            sim.cancel(uids)
            if rng.random() < 0.6:
                sim.pump()
        elif a == 'env':
            sim.control('register_named_env', {'env_name': 'env1'})
            env_reg = True
            if rng.random() < 0.6:
                sim.pump()
        elif a == 'raptor':
            sim.raptor(register=not getattr(sim, 'raptor_wanted', False))
            if rng.random() < 0.6:
                sim.pump()

    if not settle:
        return

    # settle: deliver everything, let the loop run, finish what runs
    if pending:
        sim.arrive(pending)
        pending = []
    if need_env and not env_reg:
        sim.control('register_named_env', {'env_name': 'env1'})
    for rnd in range(60):
        sim.pump()
        while sim.env.net.q_len(sim.env.url(rpc.AGENT_SCHEDULING_QUEUE)):
            sim.intake()
        sim.pump()
        sim.iteration(Progress.K)
        if progress and sim.settled():
            progress.check_progress(sim)
        if not sim.held:
            if sim.settled() and sorted(sim.unsched_published) == \
                                 sorted(sim.unsched_processed):
                break
            continue
        # complete in random order, some at a time
        for uid in rng.sample(sorted(sim.held),
                              rng.randint(1, len(sim.held))):
            sim.complete(uid)
    else:
        raise RuntimeError('history does not settle')


# ------------------------------------------------------------------------------
#
def run_histories(ctx, res, n, make_observers, gen_kwargs=None, after=None,
                  nontrivial=None, salt='hist'):
    '''run n seeded gated histories; returns nothing, records into res'''

    import os
    import random
    import shutil
    from .core import digest

    rng = ctx.rng(salt)
    for i in range(n):
        case = gen_case(rng, **(gen_kwargs or {}))
        run_one(ctx, res, case, make_observers, after, nontrivial, i)
        if len(res.violations) > 40:
            break


def run_one(ctx, res, case, make_observers, after=None, nontrivial=None, i=0):

    import os
    import random
    import shutil
    from .core import digest

    wd = os.path.join(ctx.workdir or os.getcwd(), 'sim')
    os.makedirs(wd, exist_ok=True)
    obs = make_observers(res)
    progress = next((o for o in obs if isinstance(o, Progress)), None)
    sim = None
    try:
        sim = Sim(wd, case, observers=obs)
        drive(sim, random.Random(case['seed']), progress=progress)
        if after:
            after(sim, obs)
        res.evaluations += 1
        res.count('histories')
        res.count('steps', sim.steps)
        res.count('grants', len(sim.grants))
        res.count('releases', len(sim.unsched_published))
        nt = nontrivial(sim) if nontrivial else len(sim.granted) >= 2
        if nt:
            res.digests.add(digest([a[:2] for a in sim.trace]
                                   + [case['layout']]))
        if len(res.samples) < 2 and nt:
            res.samples.append({'case': case, 'trace': sim.trace[:60]})
        errs = [e for e in sim.env.net.errors]
        for e in errs:
            res.violation('callback-error/%s' % e[2][:40],
                          'subscriber callback raised: %s' % e[2],
                          {'case': case, 'trace': sim.trace, 'tb': e[3]})
    except (TimeoutError, RuntimeError) as e:
        if sim and sim.pair.child_error:
            res.violation('scheduler-loop-died',
                          'child loop raised %r' % sim.pair.child_error,
                          {'case': case, 'trace': sim.trace if sim else None})
        elif isinstance(e, TimeoutError):
            res.inconc('scheduler history: %r' % e)
        else:
            res.violation('history-stuck', repr(e),
                          {'case': case, 'trace': sim.trace if sim else None})
    finally:
        if sim:
            sim.close()
        os.chdir(ctx.workdir or '/')
        shutil.rmtree(wd, ignore_errors=True)
