'''
check <ID> [--tier quick|thorough] [--replay PATH] [--shards N] [--scale F]

Master process: fans the property's workload out over shards (one fresh
interpreter each, `subprocess.run(timeout=)`), merges what the monitors
observed, classifies violations against /verif/known_findings.json, writes
/verif/evidence/<ID>.json and replay files, prints the verdict lines.
'''

import os
import sys
import json
import time
import shutil
import argparse
import tempfile
import importlib
import subprocess
import concurrent.futures as cf

from . import core
from . import boot as _boot

VERIF = core.VERIF


# ------------------------------------------------------------------------------
#
def _load(pid):
    return importlib.import_module('rpverif.props.%s' % pid.lower())


# ------------------------------------------------------------------------------
#
def _run_shard(args):
    '''child: run one shard, write result json'''

    mod = _load(args.pid)
    ctx = core.Ctx(args.pid, args.tier, args.seed, args.shard, args.nshards,
                   workdir=args.workdir, opts=json.loads(args.opts or '{}'))
    os.chdir(args.workdir)

    if args.replay:
        with open(args.replay) as fin:
            rep = json.load(fin)
        res = mod.replay(rep['case'], ctx)
    else:
        res = mod.run(ctx)

    with open(args.out, 'w') as fout:
        json.dump(res.dump(), fout, default=repr)
    return 0


# ------------------------------------------------------------------------------
#
def _spawn(pid, tier, seed, shard, nshards, timeout, opts, base, replay=None):

    wdir = os.path.join(base, 'shard.%03d' % shard)
    os.makedirs(wdir, exist_ok=True)
    out  = os.path.join(base, 'result.%03d.json' % shard)
    cmd  = ['/venv/bin/python', '-m', 'rpverif.cli', pid,
            '--tier', tier, '--seed', str(seed),
            '--shard', str(shard), '--nshards', str(nshards),
            '--workdir', wdir, '--out', out, '--opts', json.dumps(opts)]
    if replay:
        cmd += ['--replay', replay]

    env = _boot.env({'RPVERIF_BASE': wdir, 'HOME': wdir, 'TMPDIR': wdir})
    t0  = time.time()
    try:
        p = subprocess.run(cmd, env=env, cwd=wdir, timeout=timeout,
                           stdout=subprocess.PIPE, stderr=subprocess.PIPE,
                           start_new_session=True)
        rc, so, se = p.returncode, p.stdout, p.stderr
    except subprocess.TimeoutExpired as e:
        rc, so, se = 'timeout', e.stdout or b'', e.stderr or b''
        # kill stragglers of that session
        subprocess.run(['pkill', '-9', '-f', wdir], check=False)

    res = None
    if os.path.isfile(out):
        try:
            with open(out) as fin:
                res = core.Result.load(json.load(fin))
        except Exception as e:
            se += ('\nresult unreadable: %r' % e).encode()

    shutil.rmtree(wdir, ignore_errors=True)
    return shard, rc, res, so.decode(errors='replace')[-3000:], \
           se.decode(errors='replace')[-3000:], time.time() - t0


# ------------------------------------------------------------------------------
#
def main(argv=None):

    ap = argparse.ArgumentParser(prog='check')
    ap.add_argument('pid')
    ap.add_argument('--tier',    default=os.environ.get('VERIF_TIER', 'quick'))
    ap.add_argument('--seed',    default=None)
    ap.add_argument('--replay',  default=None)
    ap.add_argument('--shards',  type=int, default=None)
    ap.add_argument('--scale',   type=float, default=None)
    ap.add_argument('--verbose', action='store_true')
    # internal
    ap.add_argument('--shard',   type=int, default=None)
    ap.add_argument('--nshards', type=int, default=1)
    ap.add_argument('--workdir', default=None)
    ap.add_argument('--out',     default=None)
    ap.add_argument('--opts',    default=None)
    args = ap.parse_args(argv)

    args.pid = args.pid.upper()
    if args.tier not in ('quick', 'thorough'):
        args.tier = 'quick'
    if args.seed is None:
        args.seed = os.environ.get('VERIF_SEED', '0')
    try:
        args.seed = int(args.seed)
    except ValueError:
        args.seed = int.from_bytes(str(args.seed).encode(), 'big') % (2 ** 31)

    if args.shard is not None:
        return _run_shard(args)

    # --- master ---------------------------------------------------------------
    t0   = time.time()
    mod  = _load(args.pid)
    pid  = mod.ID
    opts = dict()
    if args.scale:
        opts['scale'] = args.scale

    shards  = getattr(mod, 'SHARDS',  {'quick': 8, 'thorough': 16})
    timeout = getattr(mod, 'TIMEOUT', {'quick': 240, 'thorough': 3000})
    nshards = args.shards or shards[args.tier]
    ncpu    = os.cpu_count() or 4
    if args.replay:
        nshards = 1

    base = tempfile.mkdtemp(prefix='rpverif.%s.' % pid.lower())
    ctx  = core.Ctx(pid, args.tier, args.seed, 0, nshards, opts=opts)
    res  = core.Result()
    try:
        with cf.ThreadPoolExecutor(max_workers=min(ncpu, nshards)) as pool:
            futs = [pool.submit(_spawn, pid, args.tier, args.seed, i, nshards,
                                timeout[args.tier], opts, base,
                                os.path.abspath(args.replay)
                                if args.replay else None)
                    for i in range(nshards)]
            for fut in cf.as_completed(futs):
                shard, rc, sres, so, se, dt = fut.result()
                if args.verbose:
                    sys.stderr.write('shard %d rc=%s %.1fs\n%s\n'
                                     % (shard, rc, dt, se[-1500:]))
                if sres is not None:
                    res.merge(sres)
                if rc == 'timeout':
                    res.inconc('shard %d: watchdog (%ss) fired'
                               % (shard, timeout[args.tier]))
                elif rc != 0 or sres is None:
                    res.inconc('shard %d: harness died rc=%s: %s'
                               % (shard, rc, se.strip().splitlines()[-1:]
                                  if se.strip() else ''))
    finally:
        shutil.rmtree(base, ignore_errors=True)

    # --- minimum observation counters -----------------------------------------
    if not args.replay:
        required = getattr(mod, 'REQUIRED', {})
        if callable(required):
            required = required(args.tier)
        for name, minimum in required.items():
            got = res.counters.get(name, 0)
            if name.startswith('set:'):
                got = len(res.sets.get(name[4:], ()))
            if got < minimum:
                res.inconc('monitor counter %s=%d below minimum %d'
                           % (name, got, minimum))
        if len(res.digests) < 2:
            res.inconc('fewer than 2 distinct non-trivial cases observed')

    # --- classify violations --------------------------------------------------
    known, fixed = core.load_known(pid)
    known_mech   = {k['mechanism']: k for k in known}
    known_hit    = dict()
    fresh        = list()
    for v in res.violations:
        if v['mechanism'] in known_mech:
            known_hit[v['mechanism']] = known_hit.get(v['mechanism'], 0) + 1
        else:
            fresh.append(v)

    lines   = list()
    for k in known:
        lines.append('KNOWN-FINDING: property=%s %s [%s; observed %d time(s) '
                     'in this run]' % (pid, k['what'], k['mechanism'],
                                       known_hit.get(k['mechanism'], 0)))

    seen_mech = set()
    for v in fresh:
        if v['mechanism'] in seen_mech:
            continue
        seen_mech.add(v['mechanism'])
        path = core.write_replay(pid, v, ctx)
        lines.append('VIOLATION property=%s replay=%s' % (pid, path))
        lines.append('  mechanism=%s: %s' % (v['mechanism'],
                                             v['message'].replace('\n', ' | ')
                                             [:600]))

    wall = time.time() - t0
    # evidence describes /repo itself: runs against scratch copies of the tree
    # (seeded changes) must not overwrite it
    if not args.replay and not os.environ.get('RPVERIF_NO_EVIDENCE') and \
       os.path.realpath(os.environ.get('RPVERIF_REPO', '/repo')) == '/repo':
        core.write_evidence(mod, ctx, res, len(fresh), known_hit, wall)

    for line in lines:
        print(line)

    summary = '%s tier=%s seed=%d evaluations=%d distinct=%d wall=%.1fs' % (
              pid, args.tier, args.seed, res.evaluations, len(res.digests),
              wall)

    if fresh:
        print('FAIL ' + summary + ' violations=%d' % len(fresh))
        return 1

    if res.inconclusive:
        for i in res.inconclusive:
            print('INCONCLUSIVE property=%s %s' % (pid, i))
        print('INCONCLUSIVE ' + summary)
        return 2

    print('OK ' + summary + ' counters=%s' % json.dumps(
          dict(sorted(res.counters.items()))))
    return 0


if __name__ == '__main__':
    sys.exit(main())
