'''Runtime-monitoring machinery for radical.pilot (see /verif/DESIGN.md).'''
