'''
Process set-up shared by every check: make `/repo/src` importable the way it is
in the working tree, neutralise the missing VERSION file (harness process
only), silence logging/profiling, and expose the guard variable.

Nothing in /repo is touched.
'''

import os
import sys

REPO  = os.environ.get('RPVERIF_REPO', '/repo')
VERIF = os.path.dirname(os.path.dirname(os.path.abspath(__file__)))
GUARD = 'RADICAL_PILOT_VERIF'

_booted = False


def env(extra=None):
    '''environment for child processes which run repository code'''
    e = dict(os.environ)
    deps = os.path.join(VERIF, '.deps')
    e['PYTHONPATH'] = os.pathsep.join([VERIF, deps, os.path.join(REPO, 'src')])
    e['PYTHONDONTWRITEBYTECODE'] = '1'
    e['PYTHONHASHSEED'] = e.get('PYTHONHASHSEED', '0')
    e['PATH'] = '/venv/bin:' + os.path.join(REPO, 'bin') + ':' + e.get('PATH', '')
    e['RADICAL_LOG_LVL']      = 'OFF'
    e['RADICAL_PROFILE']      = 'FALSE'
    e['RADICAL_REPORT']       = 'FALSE'
    e['RADICAL_BASE']         = e.get('RPVERIF_BASE', e.get('RADICAL_BASE', '/tmp/rpverif_base'))
    e[GUARD] = '1'
    e.pop('RADICAL_SMT', None)
    if extra:
        e.update(extra)
    return e


def _default_signal_dispositions():
    '''A check started under `nohup` (or from a non-interactive shell's `&`)
    inherits SIGHUP (SIGINT, SIGQUIT) as *ignored*, and so would every task
    process the executor under test spawns: a scripted "process group killed by
    SIGHUP" ending would then not kill anything and the task would truthfully
    end DONE - a verdict which depended on how the check was started.  The
    workloads need the dispositions a pilot job has: default.'''
    import signal
    for name in ('SIGHUP', 'SIGINT', 'SIGQUIT', 'SIGTERM', 'SIGUSR1',
                 'SIGUSR2', 'SIGALRM'):
        sig = getattr(signal, name, None)
        try:
            if sig is not None and signal.getsignal(sig) == signal.SIG_IGN:
                signal.signal(sig, signal.default_int_handler
                              if name == 'SIGINT' else signal.SIG_DFL)
        except (ValueError, OSError):
            pass                  # not the main thread: leave it


def boot():
    '''import radical.pilot from the working tree; returns (rp, ru)'''
    global _booted

    src = os.path.join(REPO, 'src')
    if src not in sys.path:
        sys.path.insert(0, src)
    sys.dont_write_bytecode = True

    os.environ.setdefault('RADICAL_LOG_LVL', 'OFF')
    os.environ.setdefault('RADICAL_PROFILE', 'FALSE')
    os.environ.setdefault('RADICAL_REPORT',  'FALSE')
    os.environ[GUARD] = '1'
    if '/venv/bin' not in os.environ.get('PATH', '').split(':'):
        os.environ['PATH'] = '/venv/bin:' + os.environ.get('PATH', '')

    _default_signal_dispositions()

    import radical.utils as ru

    if not _booted:
        _orig = ru.get_version

        def _get_version(*args, **kwargs):
            try:
                return _orig(*args, **kwargs)
            except Exception:
                v = '0.0.0'
                try:
                    with open(os.path.join(REPO, 'VERSION')) as fin:
                        v = fin.read().strip()
                except Exception:
                    pass
                return v, v, 'verif', 'verif', v + '-verif'

        ru.get_version = _get_version
        _booted = True

    import radical.pilot as rp

    _track_env_children(ru)

    # the import must have come from the working tree
    rp_file = os.path.realpath(rp.__file__)
    assert rp_file.startswith(os.path.realpath(src)), rp_file

    return rp, ru


# ------------------------------------------------------------------------------
#
# `ru.EnvProcess.__enter__` (used by every LaunchMethod constructor) forks a
# helper which exits after one queue put and is never waited for.  A pilot
# creates a handful; a check shard creates one per generated environment and
# runs for minutes, so thousands of zombies pile up and exhaust the pid space
# (fork then fails with EAGAIN in *other* processes).  Remember those pids and
# reap exactly them; never waitpid(-1), which would steal the exit status of
# the task processes the executor watches.
_env_children = list()


def _track_env_children(ru):

    try:
        import radical.utils.env as m_env
    except Exception:
        return
    if getattr(m_env.EnvProcess, '_rpverif_tracked', False):
        return
    orig_enter = m_env.EnvProcess.__enter__

    def tracked_enter(self):
        # run the original with os.fork (as seen from that module) recording
        # the child's pid
        real_fork = m_env.os.fork

        class _OS(object):
            def __getattr__(s, name):
                return getattr(os, name)
            def fork(s):
                pid = real_fork()
                if pid:
                    _env_children.append(pid)
                return pid
        saved, m_env.os = m_env.os, _OS()
        try:
            return orig_enter(self)
        finally:
            m_env.os = saved

    m_env.EnvProcess.__enter__ = tracked_enter
    m_env.EnvProcess._rpverif_tracked = True


def reap_env_children():
    '''non-blocking: collect the EnvProcess helpers which have exited'''
    n = 0
    for pid in list(_env_children):
        try:
            done, _ = os.waitpid(pid, os.WNOHANG)
        except ChildProcessError:
            done = pid
        except OSError:
            continue
        if done:
            try: _env_children.remove(pid)
            except ValueError: pass
            n += 1
    return n
