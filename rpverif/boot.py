'''
Process set-up shared by every check: make `/repo/src` importable the way it is
in the working tree, neutralise the missing VERSION file (harness process
only), silence logging/profiling, and expose the guard variable.

Nothing in /repo is touched.
'''

import os
import sys

REPO  = os.environ.get('RPVERIF_REPO', '/repo')
VERIF = os.path.dirname(os.path.dirname(os.path.abspath(__file__)))
GUARD = 'RADICAL_PILOT_VERIF'

_booted = False


def env(extra=None):
    '''environment for child processes which run repository code'''
    e = dict(os.environ)
    deps = os.path.join(VERIF, '.deps')
    e['PYTHONPATH'] = os.pathsep.join([VERIF, deps, os.path.join(REPO, 'src')])
    e['PYTHONDONTWRITEBYTECODE'] = '1'
    e['PYTHONHASHSEED'] = e.get('PYTHONHASHSEED', '0')
    e['PATH'] = '/venv/bin:' + os.path.join(REPO, 'bin') + ':' + e.get('PATH', '')
    e['RADICAL_LOG_LVL']      = 'OFF'
    e['RADICAL_PROFILE']      = 'FALSE'
    e['RADICAL_REPORT']       = 'FALSE'
    e['RADICAL_BASE']         = e.get('RPVERIF_BASE', e.get('RADICAL_BASE', '/tmp/rpverif_base'))
    e[GUARD] = '1'
    e.pop('RADICAL_SMT', None)
    if extra:
        e.update(extra)
    return e


def boot():
    '''import radical.pilot from the working tree; returns (rp, ru)'''
    global _booted

    src = os.path.join(REPO, 'src')
    if src not in sys.path:
        sys.path.insert(0, src)
    sys.dont_write_bytecode = True

    os.environ.setdefault('RADICAL_LOG_LVL', 'OFF')
    os.environ.setdefault('RADICAL_PROFILE', 'FALSE')
    os.environ.setdefault('RADICAL_REPORT',  'FALSE')
    os.environ[GUARD] = '1'
    if '/venv/bin' not in os.environ.get('PATH', '').split(':'):
        os.environ['PATH'] = '/venv/bin:' + os.environ.get('PATH', '')

    import radical.utils as ru

    if not _booted:
        _orig = ru.get_version

        def _get_version(*args, **kwargs):
            try:
                return _orig(*args, **kwargs)
            except Exception:
                v = '0.0.0'
                try:
                    with open(os.path.join(REPO, 'VERSION')) as fin:
                        v = fin.read().strip()
                except Exception:
                    pass
                return v, v, 'verif', 'verif', v + '-verif'

        ru.get_version = _get_version
        _booted = True

    import radical.pilot as rp

    # the import must have come from the working tree
    rp_file = os.path.realpath(rp.__file__)
    assert rp_file.startswith(os.path.realpath(src)), rp_file

    return rp, ru
