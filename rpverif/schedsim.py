'''
One gated history of the real agent scheduler (parent/child pair, see
agentkit.SchedulerPair), with boundary recording:

  grants    : tasks arriving on AGENT_EXECUTING_QUEUE (with slots)
  finals    : FAILED / CANCELED published on STATE_PUBSUB
  releases  : uids for which the driver (acting as executor) published the
              unschedule message, and uids the scheduler processed
  snapshots : wait pool / queues / node map after every step

The driver generates the history online from a seeded rng (which actions are
possible depends on what the scheduler did), so a history is reproduced by
re-running with the same case dict.
'''

import copy

from .harness  import rp, ru, rps, rpc, make_td
from .agentkit import AgentEnv, SchedulerPair


# ------------------------------------------------------------------------------
#
def gen_layout(rng, small=False):

    cpn  = rng.choice([1, 2, 3, 4, 4, 6, 8])
    gpn  = rng.choice([0, 0, 1, 2, 3])
    lay  = {'nodes'         : rng.choice([1, 1, 2, 2, 3, 4]),
            'cores_per_node': cpn,
            'gpus_per_node' : gpn,
            'lfs'           : rng.choice([0, 100, 100]),
            'mem'           : rng.choice([0, 100, 100]),
            'blocked_cores' : [],
            'blocked_gpus'  : [],
            'agent_nodes'   : rng.choice([0, 0, 0, 1, 1, 2]),
            'service_nodes' : rng.choice([0, 0, 1])}
    if cpn > 1 and rng.random() < 0.3:
        lay['blocked_cores'] = sorted(rng.sample(range(cpn),
                                                 rng.randint(1, min(2, cpn - 1))))
    if gpn > 1 and rng.random() < 0.3:
        lay['blocked_gpus'] = sorted(rng.sample(range(gpn), 1))
    # one node of the allocation is not accessible, a backup node takes its
    # place: the node indexes of the pilot are not consecutive
    import zlib
    h = zlib.crc32(repr(sorted(lay.items())).encode())
    if lay['nodes'] > 1 and h % 5 == 0:
        lay['dropped_node'] = (h >> 8) % (lay['nodes'] - 1)
    return lay


def gen_task(rng, lay, uid, simple=False, allow_app_slots=True):
    '''a task request, biased to the boundaries of the layout'''

    cpn = lay['cores_per_node'] - len(lay['blocked_cores'])
    gpn = lay['gpus_per_node']  - len(lay['blocked_gpus'])
    n   = lay['nodes']

    def pick(common, edge, p_edge=0.12):
        return rng.choice(edge) if rng.random() < p_edge else rng.choice(common)

    cpr = pick([1, 1, 1, 2, 2, 3], [cpn, cpn, max(1, cpn - 1), cpn + 1, 0])
    cap = max(1, (cpn // max(1, cpr)) * n)
    ranks = pick([1, 1, 1, 2, 2, 3, 4], [cap, cap, cap + 1, max(1, cap - 1),
                                         2 * cap])
    # GPU shares: dyadic ones add up exactly in floating point, 0.3 / 0.1 /
    # 0.2 do not (three 0.3 shares of one GPU leave a residue when summed up
    # and subtracted again)
    gpr = pick([0, 0, 0, 0, 1, 0.5, 0.25, 0.3, 0.1, 0.2],
               [2, 0.75, gpn, gpn + 1, 0.6, 0.35], 0.15)
    if gpn == 0 and rng.random() < 0.85:
        gpr = 0
    lfs = pick([0, 0, 0, 30, 60], [100, 120], 0.08)
    mem = pick([0, 0, 0, 30, 60], [100, 120], 0.08)
    if not lay['lfs']: lfs = pick([0], [30], 0.05)
    if not lay['mem']: mem = pick([0], [30], 0.05)

    t = {'uid': uid, 'ranks': ranks, 'cores_per_rank': cpr,
         'gpus_per_rank': float(gpr), 'lfs_per_rank': lfs, 'mem_per_rank': mem,
         'ranks_per_node': rng.choice([None, None, None, 1, 2]),
         'priority': rng.choice([0, 0, 0, 1, 2]),
         'tags': {}, 'named_env': '', 'app_slots': False}

    if simple:
        t.update({'gpus_per_rank': float(rng.choice([0, 0, 1])) if gpn else 0.,
                  'ranks_per_node': None})
        return t

    r = rng.random()
    if r < 0.15:
        # tag values are application data: strings, but also numbers (0 is a
        # perfectly good tag) or an empty string
        t['tags'] = {'colocate': rng.choice(['a', 'b', 'a', 'b', 0, 1, ''])}
        if rng.random() < 0.4:
            t['tags']['exclusive'] = True
    elif r < 0.22:
        t['named_env'] = 'env1'
    elif r < 0.32 and allow_app_slots:
        t['app_slots'] = True
        if rng.random() < 0.2:
            # an application error: one of the supplied slots names a node or
            # core the pilot does not have.  The task must fail - and leave
            # the pilot's books exactly as they were
            t['bad_app_slot'] = [rng.choice(['node', 'core']),
                                 rng.choice([0, 0, 1, -1])]
    if rng.random() < 0.03:
        t['ranks'] = rng.choice([0, -1])
    return t


# ------------------------------------------------------------------------------
#
def task_dict(t, slots=None):

    kw = {'uid': t['uid'], 'ranks': t['ranks'],
          'cores_per_rank': t['cores_per_rank'],
          'gpus_per_rank': t['gpus_per_rank'],
          'lfs_per_rank': t['lfs_per_rank'], 'mem_per_rank': t['mem_per_rank'],
          'priority': t['priority'], 'tags': dict(t['tags']),
          'named_env': t['named_env']}
    if t.get('ranks_per_node'):
        kw['ranks_per_node'] = t['ranks_per_node']
    if t.get('raptor_id'):
        kw['raptor_id'] = t['raptor_id']
    td = make_td(**kw)
    if t['ranks'] > 0:
        td.verify()
    d = td.as_dict()
    if slots:
        d['slots']     = slots
        d['partition'] = None
    out = {'uid'        : t['uid'],
           'type'       : 'task',
           'state'      : rps.AGENT_SCHEDULING_PENDING,
           'origin'     : 'client',
           'pilot'      : 'pilot.0000',
           'description': d}
    if t.get('raptor_seen'):
        # the task comes back from its raptor master to be executed here
        out['raptor_seen'] = True
    return out


def slot_view(slots):
    '''normalised view of a slots list (any of the formats in use)'''
    out = list()
    for s in slots or []:
        cores, gpus = list(), list()
        for c in s.get('cores') or []:
            if isinstance(c, dict): cores.append((c['index'], c['occupation']))
            elif isinstance(c, (list, tuple)): cores.append((c[0], c[1]))
            else: cores.append((c, 1.0))
        for g in s.get('gpus') or []:
            if isinstance(g, dict): gpus.append((g['index'], g['occupation']))
            elif isinstance(g, (list, tuple)): gpus.append((g[0], g[1]))
            else: gpus.append((g, 1.0))
        out.append({'node_index': s.get('node_index'),
                    'node_name' : s.get('node_name'),
                    'cores': cores, 'gpus': gpus,
                    'lfs': s.get('lfs') or 0, 'mem': s.get('mem') or 0})
    return out


# ------------------------------------------------------------------------------
#
class Sim(object):

    def __init__(self, workdir, case, observers=()):
        '''
        case: {'layout', 'scattered', 'scheduler', 'tasks': [...],
               'seed', 'max_actions', 'profile'}
        '''
        self.case = case
        self.env  = AgentEnv(workdir, case['layout'], seed=case['seed'],
                             scheduler=case.get('scheduler', 'CONTINUOUS'),
                             scattered=case.get('scattered', True),
                             random_bulk=case.get('random_bulk', False))
        self.pair = SchedulerPair(self.env, gated=True)
        self.rm_info   = self.env.rm_info
        self.init_nodes = copy.deepcopy(self.pair.child.nodes)

        self.observers = list(observers)
        self.tasks     = {t['uid']: t for t in case['tasks']}
        self.submitted = list()        # uids handed to the scheduler
        self.granted   = dict()        # uid -> slot view (first grant)
        self.grants    = list()        # every grant event (uid, task dict)
        self.finals    = list()        # (uid, state, exception) publications
        self.held      = dict()        # uid -> slot view  (until driver releases)
        self.unsched_published = list()
        self.unsched_processed = list()
        self.trace     = list()        # driver actions
        self.steps     = 0
        self.app_nodelist = None

        # observation only: which uids does the scheduler release
        child = self.pair.child
        orig  = child.unschedule_task
        def _unsched(tasks):
            for t in ru.as_list(tasks):
                self.unsched_processed.append(t['uid'])
            return orig(tasks)
        child.unschedule_task = _unsched

        self._pub_seen = 0
        self.pair.start()

    # -- application side slot finder (real NodeList) --------------------------
    def _app_slots(self, t):
        if self.app_nodelist is None:
            nodes = [rp.Node(copy.deepcopy(n))
                     for n in self.rm_info.node_list]
            self.app_nodelist = rp.NodeList(nodes=nodes)
            self.app_nodelist.verify()
        gpr = t['gpus_per_rank']
        rr = rp.RankRequirements(
                n_cores=max(1, t['cores_per_rank']),
                n_gpus=int(gpr) if gpr >= 1 else (1 if gpr > 0 else 0),
                gpu_occupation=1.0 if gpr >= 1 or gpr == 0 else gpr,
                lfs=t['lfs_per_rank'], mem=t['mem_per_rank'])
        try:
            slots = self.app_nodelist.find_slots(rr, n_slots=t['ranks'])
        except Exception:
            return None
        if not slots:
            return None
        return [s.as_dict() for s in slots]

    # -- driver actions --------------------------------------------------------
    def arrive(self, uids):
        tds = list()
        for u in uids:
            t = self.tasks[u]
            slots = None
            if t.get('app_slots') and t['ranks'] > 0:
                slots = self._app_slots(t)
                if slots and t.get('bad_app_slot'):
                    # the application gives its (valid) reservation back and
                    # submits a broken copy
                    self.app_nodelist.release_slots(
                            [rp.Slot(copy.deepcopy(s)) for s in slots])
                    kind, k = t['bad_app_slot']
                    slots = copy.deepcopy(slots)
                    bad   = slots[k % len(slots)]
                    if kind == 'node':
                        bad['node_index'], bad['node_name'] = 999, 'nowhere'
                    elif bad['cores']:
                        bad['cores'][0]['index'] = 9999
                    else:
                        bad['node_index'], bad['node_name'] = 999, 'nowhere'
                    t['_bad_app_slots'] = True
                    tds.append(task_dict(t, slots))
                    self.submitted.append(u)
                    continue
                t['_app_slots_found'] = bool(slots)
                if slots:
                    t['_app_slot_list'] = slots
            tds.append(task_dict(t, slots))
            self.submitted.append(u)
        self.env.put(rpc.AGENT_SCHEDULING_QUEUE, tds)
        self.trace.append(['arrive', list(uids)])

    def intake(self):
        self.pair.intake()
        self.trace.append(['intake'])
        self._collect()

    def step(self):
        last = self.pair.step()
        self.steps += 1
        self.trace.append(['step', last[0]])
        self._collect()
        for ob in self.observers:
            ob.after_step(self, last)
        return last

    def iteration(self, n=1):
        '''n full loop iterations (an iteration ends with the `completed` step)'''
        done = 0
        guard = 0
        while done < n:
            name, _ = self.step()
            guard += 1
            if name == 'completed':
                done += 1
            if guard > 10 * n + 10:
                raise RuntimeError('loop does not cycle')

    def complete(self, uid):
        '''the executor gives the task's resources back (once)'''
        slots = self.held.pop(uid)
        task  = self._grant_task[uid]
        self.unsched_published.append(uid)
        for ob in self.observers:
            ob.on_release(self, uid, slots)
        self.env.publish(rpc.AGENT_UNSCHEDULE_PUBSUB, task)
        if self.app_nodelist is not None and \
                self.tasks[uid].get('_app_slot_list'):
            self.app_nodelist.release_slots(
                    [rp.Slot(copy.deepcopy(s))
                     for s in self.tasks[uid]['_app_slot_list']])
        self.trace.append(['complete', uid])

    def complete_bulk(self, uids):
        '''the executor gives the resources of several tasks back with ONE
        message (the Popen watcher collects up to 100 tasks per pass)'''
        tasks = list()
        for uid in uids:
            slots = self.held.pop(uid)
            tasks.append(self._grant_task[uid])
            self.unsched_published.append(uid)
            for ob in self.observers:
                ob.on_release(self, uid, slots)
        self.env.publish(rpc.AGENT_UNSCHEDULE_PUBSUB, tasks)
        self.trace.append(['complete_bulk', len(uids)])

    def cancel(self, uids):
        self.env.publish(rpc.CONTROL_PUBSUB, {'cmd': 'cancel_tasks',
                                              'arg': {'uids': list(uids)}})
        self.trace.append(['cancel', list(uids)])

    def control(self, cmd, arg):
        self.env.publish(rpc.CONTROL_PUBSUB, {'cmd': cmd, 'arg': arg})
        self.trace.append(['control', cmd, arg])

    RAPTOR = 'raptor.0'
    raptor_registered = False

    def raptor(self, register):
        '''the raptor master registers / unregisters its request queue'''
        if register:
            self.control('register_raptor_queue',
                         {'name': self.RAPTOR, 'queue': 'raptor_q',
                          'addr': 'mem://raptor/queue'})
        else:
            self.control('unregister_raptor_queue', {'name': self.RAPTOR})
        self.raptor_wanted = register

    def pump(self, n=None):
        k = 0
        while (n is None or k < n) and self.env.net.pump():
            k += 1
        self.trace.append(['pump', k])
        self._collect()
        return k

    # -- boundary observation --------------------------------------------------
    _grant_task = None

    def _collect(self):
        if self._grant_task is None:
            self._grant_task = dict()
        for t in self.env.take(rpc.AGENT_EXECUTING_QUEUE):
            uid  = t['uid']
            view = slot_view(t.get('slots'))
            self.grants.append((uid, t))
            for ob in self.observers:
                ob.on_grant(self, uid, t, view)
            if uid not in self.granted:
                if self.tasks[uid].get('_app_slots_found'):
                    self._app_overlap_check(uid, view)
                self.granted[uid]     = view
                self.held[uid]        = view
                self._grant_task[uid] = t
        evs = self.env.net.events('pub', rpc.STATE_PUBSUB)
        for ev in evs[self._pub_seen:]:
            msg = ev['payload']
            for thing in ru.as_list(msg.get('arg')):
                if thing.get('state') in (rps.FAILED, rps.CANCELED):
                    self.finals.append((thing['uid'], thing['state'],
                                        thing.get('exception'),
                                        thing.get('exception_detail')))
                    for ob in self.observers:
                        ob.on_final(self, thing)
        self._pub_seen = len(evs)

    app_overlap = False      # an app-supplied placement overlapped a live one
    tainted     = None

    def _app_overlap_check(self, uid, view):
        '''
        application-supplied slots are taken as they are: note when they name
        cores/GPUs some live task holds (from then on the scheduler's map for
        those resources is unreliable: releasing one frees the other's)
        '''
        if self.tainted is None:
            self.tainted = set()
        mine = set()
        for s in view:
            for i, _ in s['cores']: mine.add(('c', s['node_index'], i))
            for i, _ in s['gpus'] : mine.add(('g', s['node_index'], i))
        # what the scheduler still regards as taken: held, plus released by the
        # executor but not yet processed by the scheduling loop
        sview = dict(self.held)
        pend  = list(self.unsched_published)
        for u in self.unsched_processed:
            if u in pend:
                pend.remove(u)
        for u in pend:
            if u in self.granted:
                sview[u] = self.granted[u]
        for other, oview in sview.items():
            for s in oview:
                for i, _ in s['cores']:
                    if ('c', s['node_index'], i) in mine:
                        self.app_overlap = True
                for i, _ in s['gpus']:
                    if ('g', s['node_index'], i) in mine:
                        self.app_overlap = True
        if self.app_overlap:
            self.tainted |= mine

    # -- where is a task -------------------------------------------------------
    def places(self, uid):
        '''all places a submitted uid is found in right now'''
        c   = self.pair.child
        out = list()
        if uid in self.granted:
            out.append('started')
        for u, st, _, _ in self.finals:
            if u == uid:
                out.append(st.lower())
        for prio, pool in c._waitpool.items():
            if uid in pool:
                out.append('waitpool')
        for item in list(c._queue_sched._q.queue):
            data, flag = item
            if flag == c._SCHEDULE and any(t['uid'] == uid for t in data):
                out.append('sched-queue')
        for qn, q in self.env.net.queues.get(
                self.env.url(rpc.AGENT_SCHEDULING_QUEUE), {}).items():
            if any(t['uid'] == uid for t in q):
                out.append('intake-queue')
        for name, ts in getattr(c, '_raptor_tasks', {}).items():
            if any(t['uid'] == uid for t in ts):
                out.append('raptor-backlog')
        for qn, q in self.env.net.queues.get('mem://raptor/queue', {}).items():
            if any(t['uid'] == uid for t in q):
                out.append('raptor-queue')
        return out

    def waiting(self):
        c = self.pair.child
        return [u for pool in c._waitpool.values() for u in pool]

    def settled(self):
        '''nothing left in transit towards the scheduling loop'''
        c = self.pair.child
        return c._queue_sched.empty() and c._queue_unsched.empty() and \
               self.env.net.quiet() and \
               not self.env.net.q_len(self.env.url(rpc.AGENT_SCHEDULING_QUEUE))

    def close(self):
        try:
            self.pair.stop()
        finally:
            self.env.close()
