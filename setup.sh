#!/bin/sh
# offline set-up after a fresh restore: contracts library beside the repo's interpreter
HERE=$(cd "$(dirname "$0")" && pwd)
cd "$HERE" || exit 1
mkdir -p .deps evidence replays
if ! PYTHONPATH="$HERE/.deps" /venv/bin/python -c 'import icontract' 2>/dev/null; then
    PIP_NO_INDEX=1 /venv/bin/pip install --quiet --no-index --find-links /opt/veriftools/wheels \
        --target "$HERE/.deps" icontract >/dev/null 2>&1 || echo "icontract not installable: contracts fall back to plain wrappers"
fi
# the executor checks start tens of thousands of short-lived processes; with
# the default pid_max of 32768 pids are recycled within seconds, and RP's own
# kill sequence (SIGTERM, 0.1 s, SIGKILL to the process group id) can then hit
# an unrelated, freshly started task.  Give the pid space room (best effort).
[ -w /proc/sys/kernel/pid_max ] && echo 4194304 > /proc/sys/kernel/pid_max 2>/dev/null
chmod +x "$HERE/check" "$HERE"/fixtures/* 2>/dev/null
/venv/bin/python -m compileall -q rpverif >/dev/null 2>&1
exit 0
